use geodesy::prelude::*;
fn main() -> Result<(), Box<dyn std::error::Error>> {
    let mut ctx = Minimal::new();
    // Datum shift intl -> GRS80 with a pure geocentre translation: molodensky vs. the cartesian route
    let molo = ctx.op("molodensky ellps_0=intl ellps_1=GRS80 dx=-87 dy=-96 dz=-120")?;
    let cart = ctx.op("cart ellps=intl | helmert x=-87 y=-96 z=-120 | cart inv ellps=GRS80")?;
    let mut a = [Coor4D::geo(55., 12., 100., 0.)];
    let mut b = a;
    ctx.apply(molo, Fwd, &mut a)?;
    ctx.apply(cart, Fwd, &mut b)?;
    let e = Ellipsoid::named("GRS80")?;
    println!("molodensky: {:?}", a[0].to_degrees());
    println!("cartesian : {:?}", b[0].to_degrees());
    println!("horizontal difference {:.3} m, height difference {:.3} m", e.distance(&a[0], &b[0]), a[0][2]-b[0][2]);
    Ok(())
}
