use geodesy::prelude::*;
fn main() -> Result<(), Box<dyn std::error::Error>> {
    let mut ctx = Minimal::new();
    for def in ["laea lat_0=90 lon_0=10", "laea lat_0=-90 lon_0=10", "laea lat_0=52 lon_0=10", "laea lat_0=0 lon_0=10"] {
        let op = ctx.op(def)?;
        let mut worst: f64 = 0.;
        for (lat, lon) in [(80., 12.), (60., -40.), (-70., 100.), (45., 10.), (-85., 10.), (10., 30.)] {
            let lat: f64 = if def.contains("-90") { -(lat as f64).abs() } else if def.contains("=90") { (lat as f64).abs() } else { lat };
            let mut d = [Coor4D::geo(lat, lon, 0., 0.)];
            ctx.apply(op, Fwd, &mut d)?;
            ctx.apply(op, Inv, &mut d)?;
            let e = (d[0][1].to_degrees() - lat).abs().max((d[0][0].to_degrees() - lon).abs());
            worst = worst.max(e);
        }
        println!("{def:28} worst roundtrip error {worst:.3e} degrees");
    }
    Ok(())
}
