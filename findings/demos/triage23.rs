// C17: "init clauses ... are refused with an error" - whatever the placement of the init= element
use geodesy::authoring::*;
fn main() {
    let before = parse_proj("+init=epsg:25832 +proj=utm +zone=32");
    let after = parse_proj("+proj=utm +zone=32 +init=epsg:25832");
    println!("init before proj: {before:?}");
    println!("init after proj:  {after:?}");
    let piped = parse_proj("+proj=pipeline +step +proj=utm +zone=32 +init=epsg:25832 +step +proj=noop");
    println!("in a pipeline step, after proj: {piped:?}");
    assert!(matches!(before, Err(Error::Unsupported(_))));
    assert!(matches!(after, Err(Error::Unsupported(_))), "init= after proj= is silently passed on");
    assert!(matches!(piped, Err(Error::Unsupported(_))));
    println!("PASS");
}
