use geodesy::prelude::*;
fn main() -> Result<(), Box<dyn std::error::Error>> {
    let mut ctx = Minimal::new();
    ctx.register_resource("foo:bar", "addone | addone omit_fwd");
    ctx.register_resource("foo:baz", "addone omit_fwd | addone");
    ctx.register_resource("foo:lit", "addone > addone");
    for def in ["addone | foo:bar", "addone | foo:baz", "addone | addone | addone omit_fwd", "addone | addone omit_fwd | addone", "foo:bar", "addone | foo:lit"] {
        let op = ctx.op(def)?;
        let mut d = [Coor4D::raw(0., 0., 0., 0.)];
        let n = ctx.apply(op, Fwd, &mut d)?;
        let f = d[0][0];
        let n2 = ctx.apply(op, Inv, &mut d)?;
        println!("{def:45} fwd -> {f} (n={n}); then inv -> {} (n={n2})", d[0][0]);
    }
    Ok(())
}
