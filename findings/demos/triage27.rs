// C04: nesting depth 0..50 of well-formed macros instantiates
use geodesy::prelude::*;
fn main() -> Result<(), Box<dyn std::error::Error>> {
    for kind in ["single", "pipeline"] {
        let mut ctx = Minimal::default();
        ctx.register_resource("lvl:0", "helmert x=1");
        let mut deepest_ok = 0;
        for d in 1..=120 {
            let body = if kind == "single" { format!("lvl:{}", d - 1) } else { format!("lvl:{} | helmert y=1", d - 1) };
            ctx.register_resource(&format!("lvl:{d}"), &body);
            match ctx.op(&format!("lvl:{d}")) {
                Ok(_) => deepest_ok = d,
                Err(e) => { println!("{kind}: depth {d} fails: {e:?}"); break; }
            }
        }
        println!("{kind}: deepest nesting that instantiates: {deepest_ok}");
    }
    Ok(())
}
