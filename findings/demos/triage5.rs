use geodesy::prelude::*;
fn main() {
    let mut ctx = Minimal::default();
    let r = std::panic::catch_unwind(std::panic::AssertUnwindSafe(|| ctx.op("tmerc ellps=foo").is_ok()));
    println!("tmerc ellps=foo returned without panic: {}", r.is_ok());
    let mut ctx = Minimal::default();
    let r = std::panic::catch_unwind(std::panic::AssertUnwindSafe(|| {
        let op = ctx.op("cart ellps=foo").unwrap();
        let mut d = [Coor4D::raw(1., 2., 3., 4.)];
        ctx.apply(op, Fwd, &mut d).unwrap()
    }));
    println!("cart ellps=foo applied without panic: {}", r.is_ok());
}
