use geodesy::prelude::*;
fn main() -> Result<(), Error> {
    let mut ctx = Minimal::default();
    // "seuf": first element is southish, second eastish  => internal (e, n) = (second, -first)
    let op = ctx.op("adapt from=seuf")?;
    let mut d = [Coor4D::raw(10., 20., 3., 4.)];
    ctx.apply(op, Fwd, &mut d)?;
    println!("adapt from=seuf fwd (10,20) -> ({}, {})   expected (20, -10)", d[0][0], d[0][1]);
    ctx.apply(op, Inv, &mut d)?;
    println!("   and back            -> ({}, {})   expected (10, 20)", d[0][0], d[0][1]);
    // degrees on the northish first axis only matter for the first two *external* positions
    let op = ctx.op("adapt from=neuf_deg to=ufen_deg")?;
    let mut d = [Coor4D::raw(55., 12., 100., 2000.)];
    ctx.apply(op, Fwd, &mut d)?;
    println!("neuf_deg -> ufen_deg: {:?}   expected [100, 2000, 12, 55] up to the angular unit of the 3rd/4th position", d[0]);
    Ok(())
}
