use geodesy::prelude::*;
fn main() -> Result<(), Error> {
    let mut ctx = Minimal::default();
    ctx.register_resource("add:one", "addone");
    for def in ["add:one inv", "inv add:one", "add:one inv=true", "addone inv", "inv addone", "addone inv=true"] {
        let op = ctx.op(def)?;
        let mut d = [Coor4D::raw(10., 0., 0., 0.)];
        ctx.apply(op, Fwd, &mut d)?;
        println!("{def:20} fwd: 10 -> {}", d[0][0]);
    }
    Ok(())
}
