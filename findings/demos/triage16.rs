use geodesy::prelude::*;
fn main() {
    let e = Ellipsoid::named("GRS80").unwrap();
    for (a,b) in [((0f64,0f64),(10f64,0f64)), ((0.,0.),(10.,1e-9)), ((20.,0.),(-30.,0.)), ((0.,0.),(0.,10.))] {
        let p1 = Coor2D::geo(a.1, a.0); let p2 = Coor2D::geo(b.1, b.0);
        let d = e.geodesic_inv(&p1, &p2);
        println!("{a:?} -> {b:?}: azi={} azi2={} dist={} it={}  (equatorial arc = {})", d[0].to_degrees(), d[1].to_degrees(), d[2], d[3], e.semimajor_axis()*(b.0-a.0).to_radians().abs());
    }
}
