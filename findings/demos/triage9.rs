use geodesy::prelude::*;
fn main() -> Result<(), Error> {
    let mut ctx = Minimal::default();
    // same structure, only the parameter names differ in lexical order
    ctx.register_resource("m:inner1", "helmert x=$a");
    ctx.register_resource("m:outer1", "m:inner1 a=$z");
    ctx.register_resource("m:inner2", "helmert x=$z");
    ctx.register_resource("m:outer2", "m:inner2 z=$a");
    for def in ["m:outer2 a=1", "m:outer1 z=1"] {
        match ctx.op(def) {
            Ok(op) => { let mut d = [Coor4D::raw(10., 0., 0., 0.)]; ctx.apply(op, Fwd, &mut d)?; println!("{def}: 10 -> {}", d[0][0]); }
            Err(e) => println!("{def}: ERROR {e:?}"),
        }
    }
    Ok(())
}
