use geodesy::authoring::*;
fn main() {
    for s in ["proj=pipeline step proj=utm zone=32 omit_fwd step proj=cart", "proj=pipeline inv step proj=utm zone=32 omit_fwd step proj=cart inv",
              "proj=utm zone=32 omit_inv"] {
        println!("{s:90} -> {:?}", geodesy::authoring::parse_proj(s));
    }
}
