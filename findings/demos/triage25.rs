// C09: applying any instantiated operator returns a count - it never panics
use geodesy::prelude::*;
fn main() -> Result<(), Box<dyn std::error::Error>> {
    let mut ctx = Minimal::default();
    for def in ["stack push=1,2,3 | stack unroll=1e19,-1", "stack push=1,2,3 | stack roll=1e19,-1"] {
        for fwd in [true, false] {
            let dir = if fwd { Fwd } else { Inv };
            let op = ctx.op(def)?;
            let mut data = [Coor4D::raw(1., 2., 3., 4.)];
            let n = ctx.apply(op, dir, &mut data)?;
            println!("{def} fwd={fwd}: {n} {:?}", data[0]);
        }
    }
    println!("PASS");
    Ok(())
}
