use geodesy::prelude::*;
fn main() -> Result<(), Error> {
    let mut ctx = Minimal::default();
    let a = ctx.op("merc lon_0=9 x_0=1000 y_0=2000")?;
    let b = ctx.op("merc")?;
    let mut da = [Coor4D::geo(55., 12., 0., 0.)];
    let mut db = [Coor4D::geo(55., 12. - 9., 0., 0.)];
    ctx.apply(a, Fwd, &mut da)?;
    ctx.apply(b, Fwd, &mut db)?;
    println!("merc lon_0=9 x_0=1000 y_0=2000 at lon 12: {:.3} {:.3}", da[0][0], da[0][1]);
    println!("merc at lon 3, plus (1000, 2000):        {:.3} {:.3}", db[0][0] + 1000., db[0][1] + 2000.);
    ctx.apply(a, Inv, &mut da)?;
    println!("roundtrip lon: {:.9} (expected 12)", da[0][0].to_degrees());
    Ok(())
}
