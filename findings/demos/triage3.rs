use geodesy::prelude::*;
fn main() -> Result<(), Error> {
    let mut ctx = Plain::default();
    // cart inv on the Z axis
    let op = ctx.op("cart")?;
    let mut d = [Coor4D::raw(0., 0., 6_400_000., 0.), Coor4D::raw(6_400_000., 0., 0., 0.)];
    let n = ctx.apply(op, Inv, &mut d)?;
    println!("cart inv: n={n} of 2, d0={:?}", d[0]);
    // geodesic inv reversible
    let op = ctx.op("geodesic reversible")?;
    let mut d = [Coor4D::raw(55., 12., 59., 18.)];
    let n = ctx.apply(op, Inv, &mut d)?;
    println!("geodesic inv reversible: n={n} of 1, d0={:?}", d[0]);
    // gridshift inv outside the grid
    let op = ctx.op("gridshift grids=test.datum")?;
    let mut d = [Coor4D::geo(10., 100., 0., 0.), Coor4D::geo(55., 12., 0., 0.)];
    let n = ctx.apply(op, Inv, &mut d)?;
    println!("gridshift inv: n={n}, outside point -> {:?}", d[0]);
    let mut d = [Coor4D::geo(10., 100., 0., 0.)];
    let n = ctx.apply(op, Fwd, &mut d)?;
    println!("gridshift fwd: n={n}, outside point -> {:?}", d[0]);
    Ok(())
}
