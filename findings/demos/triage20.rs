use geodesy::prelude::*;
fn main() -> Result<(), Box<dyn std::error::Error>> {
    let mut ctx = Plain::new();
    for def in ["deflection grids=test.geoid", "deflection grids=test.geoid, @null"] {
        let op = ctx.op(def)?;
        let mut d = [Coor4D::raw(55., 12., 0., 0.), Coor4D::raw(30., 40., 0., 0.)];
        let n = ctx.apply(op, Fwd, &mut d)?;
        println!("{def:40} n={n}  inside: ({:.4}, {:.4})   outside: ({}, {})", d[0][0], d[0][1], d[1][0], d[1][1]);
    }
    Ok(())
}
