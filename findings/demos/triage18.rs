use geodesy::prelude::*;
fn main() -> Result<(), Box<dyn std::error::Error>> {
    let mut ctx = Minimal::new();
    ctx.register_resource("two:up", "addone | addone");
    ctx.register_resource("one:up", "addone");
    for def in ["addone | two:up inv omit_fwd", "addone | addone inv omit_fwd | addone inv omit_fwd", "addone | one:up inv omit_fwd",
                "addone | two:up omit_fwd", "addone | two:up inv omit_inv", "addone | addone inv omit_inv | addone inv omit_inv"] {
        let op = ctx.op(def)?;
        let mut d = [Coor4D::raw(0., 0., 0., 0.)];
        ctx.apply(op, Fwd, &mut d)?;
        let f = d[0][0];
        let mut e = [Coor4D::raw(0., 0., 0., 0.)];
        ctx.apply(op, Inv, &mut e)?;
        println!("{def:55} fwd(0) = {f:3}   inv(0) = {:3}", e[0][0]);
    }
    Ok(())
}
