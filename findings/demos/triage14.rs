use geodesy::prelude::*;
fn main() {
    let mut ctx = Minimal::default();
    let r = std::panic::catch_unwind(std::panic::AssertUnwindSafe(|| ctx.op("helmert x=1°").is_ok()));
    println!("helmert x=1° handled without panic: {}", r.is_ok());
    println!("parse 12:30N = {}, 12:30S = {}, 5e = {}", angular::parse_sexagesimal("12:30N"), angular::parse_sexagesimal("12:30S"), angular::parse_sexagesimal("5e"));
}
