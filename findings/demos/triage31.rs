// C04: a default handed down through a forwarded argument: `inner x=$amount(1)` invoked by
// `outer = inner amount=$amount(5)` without an argument. Expansion: outer -> `inner amount=5` -> `helmert x=5`.
use geodesy::prelude::*;
fn shift(ctx: &mut Minimal, def: &str) -> Result<f64, Error> {
    let op = ctx.op(def)?;
    let mut data = [Coor4D::raw(0., 0., 0., 0.)];
    ctx.apply(op, Fwd, &mut data)?;
    Ok(data[0][0])
}
fn main() -> Result<(), Error> {
    let mut ctx = Minimal::default();
    ctx.register_resource("shift:soft", "helmert x=$amount(1)");
    ctx.register_resource("shift:softer", "shift:soft amount=$amount(5)");
    ctx.register_resource("shift:renamed", "shift:soft amount=$howmuch(5)");
    ctx.register_resource("shift:paren", "shift:soft amount=(5)");
    ctx.register_resource("shift:lit", "shift:soft amount=5");
    for d in ["shift:soft", "shift:soft amount=3", "shift:lit", "shift:paren", "shift:renamed", "shift:renamed howmuch=7", "shift:softer", "shift:softer amount=7"] {
        println!("{:28} -> {:?}", d, shift(&mut ctx, d));
    }
    Ok(())
}
