use geodesy::prelude::*;
fn survives(kb: usize) -> bool {
    let exe = std::env::current_exe().unwrap();
    let st = std::process::Command::new(exe).arg(kb.to_string()).output().unwrap();
    st.status.success()
}
fn main() {
    let args: Vec<String> = std::env::args().collect();
    if args.len() > 1 {
        let kb: usize = args[1].parse().unwrap();
        let h = std::thread::Builder::new().stack_size(kb * 1024).spawn(|| {
            let mut ctx = Minimal::default();
            ctx.register_resource("cyc:a", "cyc:b");
            ctx.register_resource("cyc:b", "cyc:a");
            let _ = ctx.op("cyc:a");
            ctx.register_resource("pip:a", "helmert x=1 | pip:b | helmert y=1");
            ctx.register_resource("pip:b", "helmert x=1 | pip:a | helmert y=1");
            let _ = ctx.op("pip:a");
            let _ = ctx.op("helmert z=1 | pip:a | geo:in");
        }).unwrap();
        h.join().unwrap();
        return;
    }
    for kb in [64, 128, 192, 256, 384, 512, 768, 1024, 1536, 2048] {
        if survives(kb) { println!("smallest surviving stack: {kb} KiB"); return; }
    }
    println!("needs more than 2 MiB");
}
