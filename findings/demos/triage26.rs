// C04: a macro means its expansion
use geodesy::prelude::*;
fn main() -> Result<(), Box<dyn std::error::Error>> {
    let mut ctx = Minimal::default();
    // 1. an argument forwarded under its own name
    ctx.register_resource("i:m", "helmert x=$a");
    ctx.register_resource("o:m", "i:m a=$a");
    ctx.register_resource("o:n", "i:m a=$b");
    let mut d = [Coor4D::raw(0., 0., 0., 0.)];
    let r1 = ctx.op("o:n b=5");
    println!("o:n b=5 -> {:?}", r1.is_ok());
    let r2 = ctx.op("o:m a=5");
    println!("o:m a=5 -> {:?}", r2.as_ref().err());
    if let Ok(op) = r2 { ctx.apply(op, Fwd, &mut d)?; println!("{:?}", d[0]); }
    // 2. a forwarded default reached in mid-chase
    ctx.register_resource("i:d", "helmert y=$north");
    ctx.register_resource("o:d", "i:d north=$n(1)");
    let r3 = ctx.op("o:d");
    println!("o:d -> {:?}", r3.as_ref().err());
    if let Ok(op) = r3 { let mut e=[Coor4D::raw(0.,0.,0.,0.)]; ctx.apply(op, Fwd, &mut e)?; println!("{:?}", e[0]); }
    let r4 = ctx.op("o:d n=4");
    if let Ok(op) = r4 { let mut e=[Coor4D::raw(0.,0.,0.,0.)]; ctx.apply(op, Fwd, &mut e)?; println!("n=4: {:?}", e[0]); }
    // expected values
    let x = |ctx: &mut Minimal, def: &str| -> Result<Coor4D, Error> {
        let op = ctx.op(def)?;
        let mut e = [Coor4D::raw(0., 0., 0., 0.)];
        ctx.apply(op, Fwd, &mut e)?;
        Ok(e[0])
    };
    assert_eq!(x(&mut ctx, "o:m a=5")?[0], 5.);
    assert_eq!(x(&mut ctx, "o:n b=5")?[0], 5.);
    assert!(ctx.op("o:m").is_err());
    assert_eq!(x(&mut ctx, "o:d")?[1], 1.);
    assert_eq!(x(&mut ctx, "o:d n=4")?[1], 4.);
    ctx.register_resource("o:e", "i:m a=$a(7)");
    assert_eq!(x(&mut ctx, "o:e")?[0], 7.);
    assert_eq!(x(&mut ctx, "o:e a=2")?[0], 2.);
    println!("PASS");
    Ok(())
}
