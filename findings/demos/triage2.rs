use geodesy::prelude::*;
fn main() {
    let mut ctx = Minimal::default();
    let op = ctx.op("helmert x=1 dx=1 t_epoch=2000").unwrap();
    let mut both = [Coor4D::raw(0.,0.,0.,2001.), Coor4D::raw(0.,0.,0.,2002.)];
    ctx.apply(op, Fwd, &mut both).unwrap();
    let mut alone = [Coor4D::raw(0.,0.,0.,2002.)];
    ctx.apply(op, Fwd, &mut alone).unwrap();
    println!("in set: {:?}  alone: {:?}", both[1], alone[0]);
    // t_obs with scale trend: should equal giving every tuple that epoch
    let op1 = ctx.op("helmert scale=1 scale_trend=1 t_epoch=2000 t_obs=2001").unwrap();
    let op2 = ctx.op("helmert scale=1 scale_trend=1 t_epoch=2000").unwrap();
    let mut a = [Coor4D::raw(1e6,0.,0.,1999.)];
    let mut b = [Coor4D::raw(1e6,0.,0.,2001.)];
    ctx.apply(op1, Fwd, &mut a).unwrap();
    ctx.apply(op2, Fwd, &mut b).unwrap();
    println!("t_obs: {:?}  epoch per tuple: {:?}", a[0][0], b[0][0]);
}
