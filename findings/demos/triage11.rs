use geodesy::prelude::*;
fn main() -> Result<(), Error> {
    let mut ctx = Minimal::default();
    for def in ["laea lat_0=90", "laea lat_0=-90"] {
        let op = ctx.op(def)?;
        let mut d = [Coor4D::geo(-80., 30., 0., 0.), Coor4D::geo(80., 30., 0., 0.)];
        ctx.apply(op, Fwd, &mut d)?;
        println!("{def}: lat -80 -> ({:.1}, {:.1}) |r|={:.0} km; lat 80 -> |r|={:.0} km", d[0][0], d[0][1], d[0][0].hypot(d[0][1])/1000., d[1][0].hypot(d[1][1])/1000.);
        ctx.apply(op, Inv, &mut d)?;
        println!("   roundtrip: {:.6} {:.6}", d[0][1].to_degrees(), d[0][0].to_degrees());
    }
    Ok(())
}
