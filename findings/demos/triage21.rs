use geodesy::prelude::*;
fn main() -> Result<(), Box<dyn std::error::Error>> {
    let mut ctx = Minimal::new();
    for pars in ["lon_0=9", "lon_0=9 lat_0=40", "lon_0=9 lat_0=40 y_0=1000000 x_0=500000 k_0=0.9996"] {
        let t = ctx.op(&format!("tmerc {pars}"))?;
        let b = ctx.op(&format!("btmerc {pars}"))?;
        let mut a = [Coor4D::geo(55., 10., 0., 0.), Coor4D::geo(41., 8., 0., 0.)];
        let mut c = a;
        ctx.apply(t, Fwd, &mut a)?; ctx.apply(b, Fwd, &mut c)?;
        let d0 = ((a[0][0]-c[0][0]).hypot(a[0][1]-c[0][1]), (a[1][0]-c[1][0]).hypot(a[1][1]-c[1][1]));
        let mut r = c; ctx.apply(b, Inv, &mut r)?;
        println!("{pars:50} |tmerc - btmerc| = {:.4} m, {:.4} m;  btmerc roundtrip lat err = {:.3e} deg", d0.0, d0.1, (r[0][1].to_degrees()-55.).abs());
    }
    Ok(())
}
