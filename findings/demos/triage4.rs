use geodesy::prelude::*;
fn main() -> Result<(), Error> {
    let mut ctx = Minimal::default();
    let op = ctx.op("stack push=1,2,3 | stack unroll=3,2 | stack pop=1,2,3")?;
    let mut d = [Coor4D::raw(1., 2., 3., 4.)];
    println!("fwd n={}", ctx.apply(op, Fwd, &mut d)?);
    println!("{:?}", d[0]);
    let r = std::panic::catch_unwind(std::panic::AssertUnwindSafe(|| { let mut d = [Coor4D::raw(1., 2., 3., 4.)]; ctx.apply(op, Inv, &mut d) }));
    println!("inverse completed without panic: {}", r.is_ok());
    let op = ctx.op("addone | stack drop")?;
    let mut d = [Coor4D::raw(1., 2., 3., 4.)];
    println!("drop: n={} d={:?}", ctx.apply(op, Fwd, &mut d)?, d[0]);
    Ok(())
}
