// C10: a 3D tuple (time NaN, as every Coor3D / kp line without a time column reads) is inside the domain of `cart`:
// it is transformed - and must be counted.
use geodesy::prelude::*;
fn main() -> Result<(), Error> {
    let mut ctx = Minimal::default();
    let cart = ctx.op("cart ellps=GRS80")?;
    let mut data = [Coor3D::geo(55., 12., 100.), Coor3D::geo(-33., 151., 30.)];
    let n = ctx.apply(cart, Fwd, &mut data)?;
    println!("fwd: {} of {} counted; {:?}", n, data.len(), data[0]);
    let m = ctx.apply(cart, Inv, &mut data)?;
    println!("inv: {} of {} counted; {:?}", m, data.len(), data[0].to_degrees());
    let mut d4 = [Coor4D::geo(55., 12., 100., f64::NAN), Coor4D::geo(55., 12., 100., 2020.)];
    let k = ctx.apply(cart, Fwd, &mut d4)?;
    println!("4D with one NaN epoch: {} of {} counted; {:?}", k, d4.len(), d4[0]);
    assert_eq!((n, m, k), (2, 2, 2));
    Ok(())
}
