#!/bin/sh
# C20: kp --roundtrip prints forward-inverse residuals for every line. Run from the repository root (needs ./geodesy).
# Before fix: the third line came out as `56.0000000000 13.0000000000` (the roundtripped coordinate), because the
# differences were computed for the first n lines only, n = number of successes (2 here).
printf "10 10\n55 12\n56 13\n" > /tmp/kp-roundtrip-in.txt
cargo run --offline -q --bin kp -- --roundtrip "geo:in | gridshift grids=test.datum | geo:out" /tmp/kp-roundtrip-in.txt
# expected:  NaN NaN / 0.0000000000 0.0000000000 / 0.0000000000 0.0000000000
