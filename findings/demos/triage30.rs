// C05: the false origin maps to the projection centre (omerc, variant B), whatever the azimuth
use geodesy::prelude::*;
fn main() -> Result<(), Box<dyn std::error::Error>> {
    let mut ctx = Minimal::default();
    for alpha in [30., 53.3158204722, 89., 90., 91., 120., 150., 179., -30., -120.] {
        let def = format!("omerc variant latc=4 lonc=115 k_0=0.99984 alpha={alpha} gamma_c={alpha} x_0=590476.87 y_0=442857.65 ellps=evrstSS");
        let op = match ctx.op(&def) { Ok(op) => op, Err(e) => { println!("alpha={alpha}: {e:?}"); continue; } };
        let mut d = [Coor4D::geo(4., 115., 0., 0.)];
        ctx.apply(op, Fwd, &mut d)?;
        let (dx, dy) = (d[0][0] - 590476.87, d[0][1] - 442857.65);
        let mut r = d;
        ctx.apply(op, Inv, &mut r)?;
        println!("alpha={alpha:8}: centre -> false origin off by ({dx:.3}, {dy:.3}) m; roundtrip off by {:.3e} deg", (r[0][0].to_degrees() - 115.).hypot(r[0][1].to_degrees() - 4.));
    }
    Ok(())
}
