// C09: instantiating an operator from any text returns a handle or an error value - it never panics
use geodesy::prelude::*;
fn main() {
    let mut ctx = Plain::new();
    for def in [
        "+proj=pipeline +step +inv +step +proj=utm +zone=32",
        "+proj=pipeline +step +proj=utm +zone=32 +step +inv",
        "+proj=pipeline +inv +step +inv +step +proj=utm +zone=32",
        "proj=pipeline step inv",
    ] {
        let d = def.to_string();
        let r = std::panic::catch_unwind(move || geodesy::authoring::parse_proj(&d));
        println!("{def:60} -> {r:?}");
        assert!(r.is_ok(), "parse_proj panicked");
        let _ = ctx.op(def); // handle or error, no panic
    }
    println!("PASS");
}
