use geodesy::prelude::*;
fn main() -> Result<(), Error> {
    let mut ctx = Minimal::default();
    let op = ctx.op("somerc lat_0=46.9524055555556 lon_0=7.43958333333333 k_0=1 x_0=2600000 y_0=1200000 ellps=bessel")?;
    let mut worst: f64 = 0.;
    for lat in [45.0_f64, 46.0, 46.95, 47.5, 48.0] {
        let mut d = [Coor4D::geo(lat, 8.5, 0., 0.)];
        ctx.apply(op, Fwd, &mut d)?;
        ctx.apply(op, Inv, &mut d)?;
        let err = (d[0][1].to_degrees() - lat).abs();
        worst = worst.max(err);
        println!("lat {lat}: roundtrip error {:.3e} deg", err);
    }
    println!("worst {:.3e} deg = {:.1} m", worst, worst * 111_000.);
    Ok(())
}
