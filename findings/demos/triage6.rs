use geodesy::prelude::*;
fn main() {
    let mut ctx = Minimal::default();
    let r = ctx.op("inv");
    println!("returned: {:?}", r.is_ok());
}
