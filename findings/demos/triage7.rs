use geodesy::authoring::*;
use std::panic::{catch_unwind, AssertUnwindSafe};

fn rec(key: &str, val: &[u8]) -> Vec<u8> { let mut v = format!("{:<8}", key).into_bytes(); v.extend_from_slice(val); v.resize(16, b' '); v }
fn f64r(key: &str, x: f64) -> Vec<u8> { rec(key, &x.to_le_bytes()) }
fn u32r(key: &str, x: u32) -> Vec<u8> { let mut b = x.to_le_bytes().to_vec(); b.extend_from_slice(&[0,0,0,0]); rec(key, &b) }
fn strr(key: &str, s: &str) -> Vec<u8> { rec(key, format!("{:<8}", s).as_bytes()) }

fn overview(nsub: u32) -> Vec<u8> {
    let mut v = Vec::new();
    v.extend(u32r("NUM_OREC", 11)); v.extend(u32r("NUM_SREC", 11)); v.extend(u32r("NUM_FILE", nsub));
    v.extend(strr("GS_TYPE", "SECONDS")); v.extend(strr("VERSION", "TEST")); v.extend(strr("SYSTEM_F", "A")); v.extend(strr("SYSTEM_T", "B"));
    v.extend(f64r("MAJOR_F", 6378137.)); v.extend(f64r("MINOR_F", 6356752.)); v.extend(f64r("MAJOR_T", 6378137.)); v.extend(f64r("MINOR_T", 6356752.));
    v
}
fn subgrid(name: &str, parent: &str) -> Vec<u8> {
    // 2 x 2 nodes covering lat 0..3600", lon (positive west) 0..3600"
    let mut v = Vec::new();
    v.extend(strr("SUB_NAME", name)); v.extend(strr("PARENT", parent)); v.extend(strr("CREATED", "")); v.extend(strr("UPDATED", ""));
    v.extend(f64r("S_LAT", 0.)); v.extend(f64r("N_LAT", 3600.)); v.extend(f64r("E_LONG", 0.)); v.extend(f64r("W_LONG", 3600.));
    v.extend(f64r("LAT_INC", 3600.)); v.extend(f64r("LONG_INC", 3600.)); v.extend(u32r("GS_COUNT", 4));
    for _ in 0..4 { for _ in 0..4 { v.extend_from_slice(&0f32.to_le_bytes()); } }
    v
}
fn main() {
    let inside = Coor4D::raw((-0.5f64).to_radians(), 0.5f64.to_radians(), 0., 0.);
    // 1: very short file
    let r = catch_unwind(|| Ntv2Grid::new(b"NUM_O").is_err());
    println!("1 short file rejected without panic: {:?}", r.is_ok());
    // 2: truncated header
    let mut buf = overview(1); buf.truncate(100);
    let r = catch_unwind(|| Ntv2Grid::new(&buf).is_err());
    println!("2 truncated overview header rejected without panic: {:?}", r.is_ok());
    // 2b: truncated sub-grid header
    let mut buf = overview(1); buf.extend(subgrid("A", "NONE")); buf.truncate(176 + 100);
    let r = catch_unwind(|| Ntv2Grid::new(&buf).is_err());
    println!("2b truncated sub-grid header rejected without panic: {:?}", r.is_ok());
    // 3: no base grid (parent never NONE)
    let mut buf = overview(1); buf.extend(subgrid("A", "B"));
    let r = catch_unwind(AssertUnwindSafe(|| { match Ntv2Grid::new(&buf) { Ok(g) => { g.at(&inside, 0.5); "queried" } Err(_) => "rejected" } }));
    println!("3 file without a NONE parent handled without panic: {:?}", r);
    // 5: Gravsoft grid with a NaN header
    let r = catch_unwind(|| BaseGrid::gravsoft(b"nan 1 0 1 1 1\n 1 2 3 4").is_err());
    println!("5 gravsoft NaN header rejected without panic: {:?}", r.is_ok());
    // 6: one-column grid
    let r = catch_unwind(|| { match BaseGrid::gravsoft(b"0 1 0 0 1 1\n 1\n 2") { Ok(g) => { g.at(&Coor4D::raw(0., 0.01, 0., 0.), 0.5); "queried" } Err(_) => "rejected" } });
    println!("6 one-column grid handled without panic: {:?}", r);
    // 4: cyclic hierarchy (duplicate names): A<-NONE, B<-A, A<-B
    let mut buf = overview(3); buf.extend(subgrid("A", "NONE")); buf.extend(subgrid("B", "A")); buf.extend(subgrid("A", "B"));
    let g = Ntv2Grid::new(&buf).unwrap();
    println!("4 querying cyclic hierarchy ...");
    let r = g.at(&inside, 0.5);
    println!("4 returned {:?}", r.is_some());
}
