use geodesy::prelude::*;
fn main() {
    let mut ctx = Minimal::default();
    // unit: statute mile
    match ctx.op("unitconvert xy_in=mi xy_out=m") { Ok(_) => println!("mi ok"), Err(e) => println!("mi ERR {e:?}") }
    let op = ctx.op("unitconvert xy_in=kmi xy_out=m").unwrap();
    let mut d = [Coor4D::raw(1.,1.,0.,0.)];
    ctx.apply(op, Fwd, &mut d).unwrap();
    println!("kmi -> {:?}", d[0]);
    let r = std::panic::catch_unwind(|| Ellipsoid::named("andrae"));
    println!("andrae: {:?}", r.is_ok());
}
