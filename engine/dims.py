"""Dimension (units-of-measure) inference over value-graph terms.

A dimension is a pair of rational exponents (length, time); angles, ratios and counts are dimensionless (0, 0).
  None          unknown (no information: nothing is checked against it)
  WEAK          a numeric literal (or arithmetic of literals): it takes whatever dimension its context needs
  (l, t)        strong: derived from a source of known dimension (ellipsoid axes, coordinates, typed parameters)

Homogeneity is checked by the rule (rules/dimension.py) at additions, subtractions, comparisons and at the arguments
of transcendental functions, only where both sides are strong. The inference itself never reports."""
from fractions import Fraction as Fr

import mir
import elems as E

WEAK = ("weak",)
ONE = (Fr(0), Fr(0))
LEN = (Fr(1), Fr(0))
TIME = (Fr(0), Fr(1))

DIMLESS_ARG = ("sin", "cos", "tan", "sin_cos", "asin", "acos", "atan", "sinh", "cosh", "tanh", "asinh", "acosh",
               "atanh", "exp", "ln", "exp_m1", "ln_1p", "log10", "log2", "to_radians", "to_degrees")
SAME_AS_ARG0 = ("abs", "copysign", "floor", "ceil", "round", "trunc", "fract", "clone", "neg", "rem_euclid")
UNIFY_ARGS = ("hypot", "min", "max", "atan2", "clamp")


def parse_dim(s):
    if s in (None, "?"):
        return None
    if s == "1":
        return ONE
    if s == "L":
        return LEN
    if s == "T":
        return TIME
    if s == "1/L":
        return (Fr(-1), Fr(0))
    if s == "L2":
        return (Fr(2), Fr(0))
    raise ValueError(s)


def show(d):
    if d is None:
        return "?"
    if d == WEAK:
        return "literal"
    l, t = d
    parts = []
    if l:
        parts.append("length" if l == 1 else "length^%s" % l)
    if t:
        parts.append("time" if t == 1 else "time^%s" % t)
    return "*".join(parts) if parts else "dimensionless"


def strong(d):
    return d is not None and d != WEAK


def mul(a, b, sign=1):
    if a is None or b is None:
        return None
    if a == WEAK and b == WEAK:
        return WEAK
    if a == WEAK:
        a = ONE
    if b == WEAK:
        b = ONE
    return (a[0] + sign * b[0], a[1] + sign * b[1])


def scale(a, k):
    if a is None or a == WEAK:
        return a
    return (a[0] * k, a[1] * k)


def join(ds):
    """dimension of a value that is one of several alternatives / the result of a + b"""
    st = [d for d in ds if strong(d)]
    if st:
        if all(x == st[0] for x in st):
            return st[0]
        return None
    if any(d is None for d in ds):
        return None
    return WEAK if ds else None


class Env:
    """sources of dimension; subclass / fill in per analysed function"""

    def __init__(self, facts):
        self.facts = facts
        self.field_dims = {}      # (adt path, field index) -> dim
        self.call_dims = {}       # callee suffix -> dim of the result (summary for opaque callees)
        self.arg_dims = {}        # arg number -> dim
        self.coord_read = None    # fn(term) -> dim or None for terms that read the operand tuple
        self.param_dim = None     # fn(term) -> dim or None for parameter reads
        self.max_inline = 3


class Eval:
    def __init__(self, f, env):
        self.f = f
        self.env = env
        self.memo = {}
        self.active = set()

    def dim(self, t, depth=0):
        if not isinstance(t, tuple) or not t:
            return None
        key = t
        try:
            if key in self.memo:
                return self.memo[key]
        except TypeError:
            return None
        if key in self.active or depth > 80:
            return None
        self.active.add(key)
        try:
            d = self._dim(t, depth)
        finally:
            self.active.discard(key)
        self.memo[key] = d
        return d

    def _dim(self, t, depth):
        env = self.env
        tag = t[0]
        if env.coord_read is not None:
            d = env.coord_read(t)
            if d is not None:
                return d
        if env.param_dim is not None:
            d = env.param_dim(t)
            if d is not None:
                return d
        if tag == "const":
            v = t[2]
            if isinstance(v, tuple) and v and v[0] == "float":
                return WEAK
            if isinstance(v, (int, float)) and not isinstance(v, bool):
                return WEAK
            if isinstance(v, tuple) and v and v[0] == "int":
                return WEAK
            return None
        if tag == "arg":
            return env.arg_dims.get(t[1])
        if tag in ("ref",):
            return self.dim(t[2], depth + 1)
        if tag == "cast":
            return self.dim(t[2], depth + 1)
        if tag == "un":
            return self.dim(t[2], depth + 1) if t[1] == "Neg" else None
        if tag == "bin":
            op = t[1]
            a = self.dim(t[2], depth + 1)
            b = self.dim(t[3], depth + 1)
            if op in ("Add", "Sub", "AddWithOverflow", "SubWithOverflow"):
                return join([a, b])
            if op in ("Mul", "MulWithOverflow"):
                return mul(a, b)
            if op == "Div":
                return mul(a, b, -1)
            if op == "Rem":
                return a
            return None
        if tag == "phi":
            return join([self.dim(x, depth + 1) for x in t[2]])
        if tag == "loopphi":
            d = self.f.phi_def(t)
            if d is not None and d[0] == "phi":
                # the loop-carried value has the dimension of its entry value (checked to be preserved by the rule
                # at the statements of the body)
                entry = [x for x in d[2] if not E_mentions(x, t)]
                if entry:
                    return join([self.dim(x, depth + 1) for x in entry])
            return None
        if tag == "proj":
            base, pj = t[1], t[2]
            # a field of a struct with known field dimensions
            if isinstance(pj, tuple) and pj[0] == "f":
                ty = self._type_of(base)
                if ty is not None and (ty, pj[1]) in env.field_dims:
                    return env.field_dims[(ty, pj[1])]
            if base[0] == "call":
                # tuple results: sin_cos
                c = base[1] if isinstance(base[1], str) else ""
                if c.endswith("::sin_cos"):
                    return ONE
                r = self._inline(base, depth)
                if r is not None:
                    return self.dim(self.f._proj1(r, pj), depth + 1)
                return None
            if base[0] == "agg" and isinstance(pj, tuple) and pj[0] in ("f", "elem") and len(pj) > 1 and isinstance(pj[1], int):
                if pj[1] < len(base[2]):
                    return self.dim(base[2][pj[1]], depth + 1)
            if pj == "deref":
                return self.dim(base, depth + 1)
            if isinstance(pj, tuple) and pj[0] == "variant":
                return self.dim(base, depth + 1)
            # elements of arrays all share the dimension of the array, when that is known
            if isinstance(pj, tuple) and pj[0] == "elem":
                if base[0] == "phi":
                    return join([self.dim(("proj", x, pj), depth + 1) for x in base[2]])
                return self.dim(base, depth + 1) if base[0] in ("agg",) and base[1] == "array" else None
            return None
        if tag == "agg":
            if t[1] == "array" and t[2]:
                return join([self.dim(x, depth + 1) for x in t[2]])
            return None
        if tag == "call":
            return self._call(t, depth)
        return None

    def _type_of(self, base):
        """ADT path of the value `base`, where cheaply known"""
        b = base
        for _ in range(4):
            if b[0] == "proj" and b[2] == "deref":
                b = b[1]
                continue
            if b[0] in ("ref",):
                b = b[2]
                continue
            break
        if b[0] == "arg":
            ty = str(self.f.local_ty(b[1]))
            ty = ty.replace("&mut ", "").replace("&", "").strip()
            return ty
        if b[0] == "call" and isinstance(b[1], str):
            return self.env.call_types.get(b[1]) if hasattr(self.env, "call_types") else None
        return None

    def _inline(self, t, depth):
        if depth > 40 or self._inl_depth(t) >= self.env.max_inline:
            return None
        try:
            return E.inline_call(self.f, t, None)
        except Exception:
            return None

    @staticmethod
    def _inl_depth(t):
        n = 0
        x = t
        while isinstance(x, tuple) and len(x) > 3 and isinstance(x[3], tuple) and x[3] and x[3][0] == "inl":
            n += 1
            x = x[3][1] if len(x[3]) > 1 and isinstance(x[3][1], tuple) else None
        return n

    def _call(self, t, depth):
        c = t[1] if isinstance(t[1], str) else ""
        args = t[2]
        tail = c.rsplit("::", 1)[-1]
        for suf, d in self.env.call_dims.items():
            trait, meth = suf.rsplit("::", 1)
            if tail == meth and trait in c:
                return d
        floaty = "f64" in c or "f32" in c
        if floaty or c.startswith("core::f64") or c.startswith("std::f64"):
            if tail in DIMLESS_ARG or tail == "signum" or tail == "powf":
                return ONE
            if tail in SAME_AS_ARG0:
                return self.dim(args[0], depth + 1) if args else None
            if tail in UNIFY_ARGS:
                if tail == "atan2":
                    return ONE
                return join([self.dim(a, depth + 1) for a in args])
            if tail == "sqrt":
                return scale(self.dim(args[0], depth + 1), Fr(1, 2))
            if tail == "cbrt":
                return scale(self.dim(args[0], depth + 1), Fr(1, 3))
            if tail == "recip":
                return scale(self.dim(args[0], depth + 1), Fr(-1))
            if tail == "powi":
                n = args[1] if len(args) > 1 else None
                if n is not None and n[0] == "const" and isinstance(n[2], int):
                    return scale(self.dim(args[0], depth + 1), Fr(n[2]))
                return None
            if tail == "mul_add":
                return join([mul(self.dim(args[0], depth + 1), self.dim(args[1], depth + 1)), self.dim(args[2], depth + 1)])
            if tail in ("is_nan", "is_finite", "is_infinite", "is_sign_negative", "is_sign_positive"):
                return None
        if tail in ("clone", "unwrap", "unwrap_or", "unwrap_or_default", "into", "from", "deref", "borrow", "as_ref"):
            if tail == "unwrap_or":
                return join([self.dim(a, depth + 1) for a in args])
            return self.dim(args[0], depth + 1) if args else None
        r = self._inline(t, depth)
        if r is not None:
            return self.dim(r, depth + 1)
        return None


def E_mentions(t, needle):
    hit = []

    def v(x):
        if x == needle:
            hit.append(1)
            return False
        return not hit

    mir.walk(t, v)
    return bool(hit)
