"""MIR helpers over the JSON facts: CFG, dominators, natural loops, and a value graph.

Conventions: a *point* is (bb, i) with i an index into the block's statements; i == len(stmts) is the
terminator. Unwind edges and cleanup blocks are excluded from every path analysis (panics are the subject of
the panic rules, not paths of the typestate rules).
"""
import sys

sys.setrecursionlimit(20000)


def place_key(p):
    return (p["l"], tuple(_pj(x) for x in p["p"]))


def _pj(x):
    if isinstance(x, str):
        return x
    if "f" in x:
        return ("f", x["f"])
    if "idx" in x:
        return ("idx", x["idx"])
    if "cidx" in x:
        return ("cidx", x["cidx"], x.get("from_end", False))
    if "variant" in x:
        return ("variant", x["variant"], x.get("vname"))
    if "sub_from" in x:
        return ("sub", x["sub_from"], x["sub_to"], x.get("from_end", False))
    return ("?",)


def op_place(o):
    """place dict of a copy/move operand, else None"""
    if "copy" in o:
        return o["copy"]
    if "move" in o:
        return o["move"]
    return None


def op_const(o):
    return o.get("const")


def const_str(o):
    c = o.get("const") if isinstance(o, dict) else None
    if c and isinstance(c.get("v"), dict) and "str" in c["v"]:
        return c["v"]["str"]
    return None


def span_str(sp, facts=None):
    if not sp:
        return "?"
    f = sp.get("file", "?")
    if facts is not None:
        f = facts.rel(f)
    return "%s:%s" % (f, sp.get("line"))


ARITH_TRAITS = {"std::ops::Add::add": "Add", "std::ops::Sub::sub": "Sub", "std::ops::Mul::mul": "Mul",
                "std::ops::Div::div": "Div", "std::ops::Rem::rem": "Rem", "std::ops::Neg::neg": "Neg"}


class Loop:
    def __init__(self, header, body, latches):
        self.header = header
        self.body = body  # set of bbs, includes header
        self.latches = latches
        self.exits = []  # (from_bb, to_bb)
        self.parent = None

    def __repr__(self):
        return "Loop(h=%d, n=%d)" % (self.header, len(self.body))


# ---- expression terms of the value graph -------------------------------------------------------------------------
# Terms are tuples; first element is the tag.
#  ("const", ty, value)            value: python int/float-str/str/bool or ("fn", path) or ("path", p)
#  ("arg", n)
#  ("call", callee, (args...), (bb))          result of a call (callee = resolved or declared path)
#  ("bin", op, a, b) ("un", op, a) ("cast", kind, a, ty)
#  ("agg", kind, (ops...))         kind: "tuple" | "array" | ("adt", path, vname) | ("closure", path)
#  ("proj", base, pj)              read of a projection of a value
#  ("ref", mut, base)              address of a value-carrying place (base is the *value* term of the place)
#  ("refplace", mut, local, projs) address of place rooted in local (kept for alias tracking)
#  ("upd", base, path, value)      base with element at path overwritten
#  ("mod", base, site)             base after a call that received a mutable alias of it
#  ("phi", (bb, local), (ops...))  join
#  ("loopphi", (bb, local))        cyclic join (value carried around a loop)
#  ("unknown", why)


class Fn:
    def __init__(self, name, d, facts=None, body=None):
        self.name = name
        self.d = d
        self.facts = facts
        m = body if body is not None else d["mir"]
        self.mir = m
        self.blocks = m["blocks"]
        self.locals = m["locals"]
        self.nargs = m["arg_count"]
        self.n = len(self.blocks)
        self.succ = [self._succ(b) for b in self.blocks]
        self.pred = [[] for _ in self.blocks]
        for i, ss in enumerate(self.succ):
            for s in ss:
                self.pred[s].append(i)
        self.names = {}
        self.name_of_local = {}
        for v in m["debug"]:
            val = v["value"]
            if "l" in val and not val["p"]:
                self.name_of_local[val["l"]] = v["name"]
                self.names.setdefault(v["name"], []).append(val["l"])
        self._reach = None
        self._idom = None
        self._loops = None
        self._vmemo = {}
        self._alias = None
        self._defs = None

    # ---- CFG ---------------------------------------------------------------------------------------------------
    def _succ(self, b):
        t = b["term"]
        k = t["k"]
        if b.get("cleanup"):
            return []
        if k == "goto":
            return [t["target"]]
        if k == "switch":
            out = []
            for _, bb in t["targets"]:
                if bb not in out:
                    out.append(bb)
            if t["otherwise"] not in out:
                out.append(t["otherwise"])
            return out
        if k in ("call", "drop", "assert"):
            return [t["target"]] if t.get("target") is not None else []
        return []

    def term(self, bb):
        return self.blocks[bb]["term"]

    def stmts(self, bb):
        return self.blocks[bb]["stmts"]

    def reachable(self):
        if self._reach is None:
            seen = {0}
            st = [0]
            while st:
                x = st.pop()
                for s in self.succ[x]:
                    if s not in seen:
                        seen.add(s)
                        st.append(s)
            # blocks ending in `unreachable` are kept; they have no successors
            self._reach = seen
        return self._reach

    def rpo(self):
        seen = set()
        order = []

        def dfs(x):
            stack = [(x, iter(self.succ[x]))]
            seen.add(x)
            while stack:
                node, it = stack[-1]
                adv = False
                for s in it:
                    if s not in seen:
                        seen.add(s)
                        stack.append((s, iter(self.succ[s])))
                        adv = True
                        break
                if not adv:
                    order.append(node)
                    stack.pop()

        dfs(0)
        order.reverse()
        return order

    def idom(self):
        if self._idom is not None:
            return self._idom
        order = self.rpo()
        idx = {b: i for i, b in enumerate(order)}
        idom = {0: 0}
        changed = True
        while changed:
            changed = False
            for b in order[1:]:
                ps = [p for p in self.pred[b] if p in idom]
                if not ps:
                    continue
                new = ps[0]
                for p in ps[1:]:
                    a, c = p, new
                    while a != c:
                        while idx[a] > idx[c]:
                            a = idom[a]
                        while idx[c] > idx[a]:
                            c = idom[c]
                    new = a
                if idom.get(b) != new:
                    idom[b] = new
                    changed = True
        self._idom = idom
        return idom

    def dominates(self, a, b):
        """a dominates b (block level, reflexive)"""
        idom = self.idom()
        if b not in idom:
            return False
        while True:
            if a == b:
                return True
            if b == 0:
                return False
            b = idom[b]

    def pdominates_set(self, targets):
        """set of blocks from which every path to a `return` passes through a block in `targets`
        (blocks that cannot reach return at all are included vacuously)."""
        # complement: blocks that can reach a return avoiding targets
        bad = set()
        work = []
        for b in self.reachable():
            if self.term(b)["k"] == "return" and b not in targets:
                bad.add(b)
                work.append(b)
        while work:
            x = work.pop()
            for p in self.pred[x]:
                if p not in bad and p not in targets:
                    bad.add(p)
                    work.append(p)
        return set(self.reachable()) - bad

    def loops(self):
        if self._loops is not None:
            return self._loops
        by_header = {}
        reach = self.reachable()
        for u in reach:
            for h in self.succ[u]:
                if self.dominates(h, u):
                    # back edge u -> h
                    body = {h}
                    st = [u]
                    while st:
                        x = st.pop()
                        if x in body:
                            continue
                        body.add(x)
                        for p in self.pred[x]:
                            if p in reach:
                                st.append(p)
                    if h in by_header:
                        by_header[h].body |= body
                        by_header[h].latches.append(u)
                    else:
                        by_header[h] = Loop(h, body, [u])
        loops = list(by_header.values())
        for lp in loops:
            for b in lp.body:
                for s in self.succ[b]:
                    if s not in lp.body:
                        lp.exits.append((b, s))
        # nesting
        for lp in loops:
            best = None
            for other in loops:
                if other is not lp and lp.header in other.body and lp.body <= other.body:
                    if best is None or len(other.body) < len(best.body):
                        best = other
            lp.parent = best
        loops.sort(key=lambda l: l.header)
        self._loops = loops
        return loops

    def innermost_loop(self, bb):
        best = None
        for lp in self.loops():
            if bb in lp.body and (best is None or len(lp.body) < len(best.body)):
                best = lp
        return best

    def reach_from(self, start_blocks, avoid=()):
        seen = set()
        st = list(start_blocks)
        avoid = set(avoid)
        while st:
            x = st.pop()
            if x in seen or x in avoid:
                continue
            seen.add(x)
            st.extend(self.succ[x])
        return seen

    # ---- iteration helpers -------------------------------------------------------------------------------------
    def calls(self, reachable_only=True):
        r = self.reachable() if reachable_only else range(self.n)
        for bb in sorted(r):
            t = self.term(bb)
            if t["k"] == "call":
                yield bb, t

    def all_stmts(self):
        for bb in sorted(self.reachable()):
            for i, s in enumerate(self.stmts(bb)):
                yield bb, i, s

    def local_ty(self, l):
        return self.locals[l]["ty"]

    def lname(self, l):
        return self.name_of_local.get(l, "_%d" % l)

    def callee(self, t):
        return t.get("resolved") or t.get("callee")

    # ---- alias info (which pointers may point into which local) ------------------------------------------------
    PROJ_CALLS = (
        "std::ops::IndexMut::index_mut", "std::ops::Index::index", "std::ops::DerefMut::deref_mut",
        "std::ops::Deref::deref", "std::convert::AsMut::as_mut", "std::convert::AsRef::as_ref",
        "core::slice::<impl [T]>::iter_mut", "core::slice::<impl [T]>::iter", "std::vec::Vec::<T, A>::as_mut_slice",
        "core::slice::<impl [T]>::get_mut", "core::slice::<impl [T]>::first_mut", "core::slice::<impl [T]>::last_mut",
        "std::option::Option::<T>::unwrap", "std::option::Option::<T>::as_mut",
        "core::array::<impl [T; N]>::iter_mut", "core::array::<impl [T; N]>::as_mut_slice",
        "std::iter::IntoIterator::into_iter",
    )

    def _is_proj_call(self, t):
        c = t.get("callee") or ""
        r = t.get("resolved") or ""
        if c in self.PROJ_CALLS or r in self.PROJ_CALLS:
            return True
        if c.endswith("::index_mut") or c.endswith("::index"):
            return True
        return False

    def alias(self):
        """pointer local -> set of (target local, path or None, mutable)"""
        if self._alias is not None:
            return self._alias
        pts = {}
        changed = True

        def add(ptr, tgt):
            s = pts.setdefault(ptr, set())
            if tgt not in s:
                s.add(tgt)
                return True
            return False

        it = 0
        while changed and it < 20:
            changed = False
            it += 1
            for bb, i, s in self.all_stmts():
                if s["k"] != "assign":
                    continue
                dst = s["place"]
                if dst["p"]:
                    continue
                rv = s["rv"]
                if rv["k"] in ("ref", "rawptr"):
                    pl = rv["place"]
                    mut = rv.get("mut", rv["k"] == "rawptr")
                    if pl["p"] and pl["p"][0] == "deref":
                        # reborrow through another pointer
                        for (tl, path, m) in list(pts.get(pl["l"], ())):
                            rest = tuple(_pj(x) for x in pl["p"][1:])
                            np = None if path is None else path + rest
                            changed |= add(dst["l"], (tl, np, m and mut))
                    else:
                        path = tuple(_pj(x) for x in pl["p"])
                        changed |= add(dst["l"], (pl["l"], path, mut))
                elif rv["k"] in ("use", "cast"):
                    src = op_place(rv["a"])
                    if src is not None and not src["p"] and src["l"] in pts:
                        for t in list(pts[src["l"]]):
                            changed |= add(dst["l"], t)
            for bb, t in self.calls():
                if self._is_proj_call(t) and not t["dest"]["p"]:
                    for a in t["args"][:1]:
                        src = op_place(a)
                        if src is not None and not src["p"] and src["l"] in pts:
                            idxpath = None
                            c = t.get("callee") or ""
                            if c.endswith("index_mut") or c.endswith("::index"):
                                if len(t["args"]) > 1:
                                    k = t["args"][1].get("const")
                                    ipl = op_place(t["args"][1])
                                    if k and isinstance(k.get("v"), dict) and "int" in k["v"]:
                                        idxpath = (("elem", k["v"]["int"]),)
                                    elif ipl is not None and not ipl["p"]:
                                        idxpath = (("elem_local", ipl["l"], bb),)
                                    else:
                                        idxpath = (("elem", None),)
                            for (tl, path, m) in list(pts[src["l"]]):
                                if idxpath is not None and path is not None:
                                    np = path + idxpath
                                else:
                                    np = None
                                changed |= add(t["dest"]["l"], (tl, np, m))
        self._alias = pts
        return pts

    # ---- liveness ----------------------------------------------------------------------------------------------
    @staticmethod
    def _place_uses(pl, out, as_dest=False):
        if pl is None:
            return
        if not as_dest or pl["p"]:
            out.add(pl["l"])
        for x in pl["p"]:
            if isinstance(x, dict) and "idx" in x:
                out.add(x["idx"])

    def _operand_uses(self, o, out):
        pl = op_place(o)
        if pl is not None:
            self._place_uses(pl, out)

    def _stmt_uses_defs(self, s):
        uses, kills = set(), set()
        if s["k"] == "assign":
            rv = s["rv"]
            for k in ("a", "b"):
                if k in rv and isinstance(rv[k], dict):
                    self._operand_uses(rv[k], uses)
            for o in rv.get("ops", ()):
                self._operand_uses(o, uses)
            if "place" in rv:
                self._place_uses(rv["place"], uses)
            pl = s["place"]
            self._place_uses(pl, uses, as_dest=True)
            if not pl["p"]:
                kills.add(pl["l"])
        elif s["k"] == "setdiscr":
            uses.add(s["place"]["l"])
        return uses, kills

    def _term_uses_defs(self, t):
        uses, kills = set(), set()
        k = t["k"]
        if k == "call":
            for a in t["args"]:
                self._operand_uses(a, uses)
            if "fnptr" in t:
                self._operand_uses(t["fnptr"], uses)
            self._place_uses(t["dest"], uses, as_dest=True)
            if not t["dest"]["p"]:
                kills.add(t["dest"]["l"])
        elif k == "switch":
            self._operand_uses(t["discr"], uses)
        elif k == "assert":
            self._operand_uses(t["cond"], uses)
        elif k == "return":
            uses.add(0)
        return uses, kills

    def live_in(self):
        """bb -> set of locals whose value on entry to bb may be read before being fully redefined"""
        if getattr(self, "_live", None) is not None:
            return self._live
        gen, kill = {}, {}
        for bb in self.reachable():
            g, k = set(), set()
            items = [self._stmt_uses_defs(s) for s in self.stmts(bb)] + [self._term_uses_defs(self.term(bb))]
            for uses, kills in items:
                g |= (uses - k)
                k |= kills
            gen[bb], kill[bb] = g, k
        live = {bb: set(gen[bb]) for bb in self.reachable()}
        changed = True
        while changed:
            changed = False
            for bb in self.reachable():
                out = set()
                for sx in self.succ[bb]:
                    out |= live.get(sx, set())
                new = gen[bb] | (out - kill[bb])
                if new != live[bb]:
                    live[bb] = new
                    changed = True
        self._live = live
        return live

    # ---- definitions of locals ---------------------------------------------------------------------------------
    def defs(self):
        """local -> list of (bb, i, kind, path, payload); kind in full|part|calldest|mod|store
        i == len(stmts) for terminators."""
        if self._defs is not None:
            return self._defs
        defs = {}
        pts = self.alias()

        def add(l, rec):
            defs.setdefault(l, []).append(rec)

        for bb in sorted(self.reachable()):
            ss = self.stmts(bb)
            for i, s in enumerate(ss):
                if s["k"] == "assign":
                    pl = s["place"]
                    if not pl["p"]:
                        add(pl["l"], (bb, i, "full", (), s))
                    elif pl["p"][0] == "deref":
                        rest = tuple(_pj(x) for x in pl["p"][1:])
                        for (tl, path, m) in pts.get(pl["l"], ()):
                            np = None if path is None else path + rest
                            add(tl, (bb, i, "store", np, s))
                    else:
                        add(pl["l"], (bb, i, "part", tuple(_pj(x) for x in pl["p"]), s))
                elif s["k"] == "setdiscr":
                    add(s["place"]["l"], (bb, i, "part", None, s))
            t = self.term(bb)
            n = len(ss)
            if t["k"] == "call":
                d = t["dest"]
                if not d["p"]:
                    add(d["l"], (bb, n, "calldest", (), t))
                elif d["p"][0] == "deref":
                    for (tl, path, m) in pts.get(d["l"], ()):
                        add(tl, (bb, n, "store", None, t))
                else:
                    add(d["l"], (bb, n, "part", tuple(_pj(x) for x in d["p"]), t))
                if not self._is_proj_call(t):
                    for a in t["args"]:
                        src = op_place(a)
                        if src is not None and not src["p"]:
                            for (tl, path, m) in pts.get(src["l"], ()):
                                if m:
                                    add(tl, (bb, n, "mod", path, t))
        self._defs = defs
        return defs

    # ---- value graph -------------------------------------------------------------------------------------------
    def const_term(self, c):
        ty = c.get("ty")
        if "fn" in c:
            return ("const", ty, ("fn", c.get("fn_resolved") or c["fn"], c["fn"]))
        v = c.get("v")
        if isinstance(v, dict):
            if "int" in v:
                return ("const", ty, v["int"])
            if "float" in v:
                return ("const", ty, ("float", v["float"]))
            if "str" in v:
                return ("const", ty, ("str", v["str"]))
            if "bool" in v:
                return ("const", ty, v["bool"])
            if "char" in v:
                return ("const", ty, ("char", v["char"]))
            if "static" in v:
                return ("const", ty, ("static", v["static"]))
            if "fnptr" in v:
                return ("const", ty, ("fn", v["fnptr"], v["fnptr"]))
        if v == "zst":
            return ("const", ty, ("zst",))
        if "promoted" in c:
            pv = self._promoted_value(c["promoted"])
            if pv is not None:
                return pv
            return ("const", ty, ("promoted", c["promoted"]))
        if "path" in c:
            return ("const", ty, ("path", c["path"]))
        return ("const", ty, ("opaque",))

    def _promoted_value(self, idx):
        proms = self.mir.get("promoted") or []
        if idx >= len(proms):
            return None
        key = ("promoted", idx)
        if key in self._vmemo:
            return self._vmemo[key]
        self._vmemo[key] = None
        pf = Fn(self.name + "#promoted%d" % idx, self.d, self.facts, body=dict(proms[idx], promoted=[]))
        v = None
        for bb in sorted(pf.reachable()):
            if pf.term(bb)["k"] == "return":
                v = pf.local_value(0, pf.end_point(bb))
                # a promoted is `&value`: keep it as a ref to the value term
                if v[0] == "refplace":
                    v = ("ref", False, pf.local_value(v[2], pf.end_point(bb)))
        self._vmemo[key] = v
        return v

    def operand(self, o, point):
        """term for operand `o` evaluated just before `point`"""
        if "const" in o:
            return self.const_term(o["const"])
        pl = op_place(o)
        if pl is None:
            return ("unknown", "operand")
        return self.place_value(pl, point)

    def place_value(self, pl, point):
        base = self.local_value(pl["l"], point)
        return self._project(base, [_pj(x) for x in pl["p"]], point)

    def _norm_pj(self, pj, point):
        if isinstance(pj, tuple) and pj[0] == "idx":
            v = self.local_value(pj[1], point)
            if v[0] == "const" and isinstance(v[2], int) and not isinstance(v[2], bool):
                return ("elem", v[2])
            return ("elem", None, v)
        if isinstance(pj, tuple) and pj[0] == "cidx" and not pj[2]:
            return ("elem", pj[1])
        if isinstance(pj, tuple) and pj[0] == "elem_local":
            # index operand of an index_mut call: its value when the call was made
            v = self.local_value(pj[1], (pj[2], len(self.stmts(pj[2]))))
            if v[0] == "const" and isinstance(v[2], int) and not isinstance(v[2], bool):
                return ("elem", v[2])
            return ("elem", None, v)
        return pj

    def _norm_path(self, path, point):
        if path is None:
            return None
        return tuple(self._norm_pj(x, point) for x in path)

    def _project(self, base, projs, point):
        cur = base
        projs = [self._norm_pj(x, point) for x in projs]
        for pj in projs:
            if pj == "deref":
                cur = self._deref(cur, point)
            else:
                cur = self._proj1(cur, pj)
        return cur

    def _deref(self, t, point):
        if t[0] == "ref":
            return t[2]
        if t[0] == "refplace":
            _, mut, l, projs = t
            v = self.local_value(l, point)
            return self._project(v, list(projs), point)
        if t[0] == "call" and isinstance(t[1], str) and (t[1].endswith("::index") or t[1].endswith("::index_mut")) \
                and len(t[2]) == 2:
            k = t[2][1]
            kk = k[2] if (k[0] == "const" and isinstance(k[2], int)) else None
            # the pointee is evaluated at the point of use: borrowck guarantees it was not modified since the
            # reference was derived (and this avoids re-entrant evaluation at another block)
            base = self._deref(t[2][0], point)
            if kk is not None:
                return self._proj1(base, ("elem", kk))
            return self._proj1(base, ("elem", None, k))
        if t[0] == "call" and isinstance(t[1], str) and t[1] in ("std::ops::Deref::deref", "std::ops::DerefMut::deref_mut",
                                                                  "<std::vec::Vec<T, A> as std::ops::Deref>::deref",
                                                                  "<std::vec::Vec<T, A> as std::ops::DerefMut>::deref_mut"):
            return ("proj", self._deref(t[2][0], point), "slice")
        return ("proj", t, "deref")

    def _proj1(self, t, pj):
        # look through aggregates and updates
        if t[0] == "agg" and isinstance(pj, tuple) and pj[0] == "f":
            kind = t[1]
            if kind in ("tuple",) or (isinstance(kind, tuple) and kind[0] in ("adt", "closure")):
                if pj[1] < len(t[2]):
                    return t[2][pj[1]]
        if t[0] == "agg" and t[1] == "array" and isinstance(pj, tuple) and pj[0] == "elem" and len(pj) == 2 \
                and pj[1] is not None:
            if pj[1] < len(t[2]):
                return t[2][pj[1]]
        if t[0] == "upd":
            _, base, path, val = t
            if path is not None and len(path) >= 1:
                if path[0] == pj:
                    if len(path) == 1:
                        return val
                    return ("upd", self._proj1(base, pj), path[1:], val)
                if self._disjoint(path[0], pj):
                    return self._proj1(base, pj)
        if t[0] == "bin" and t[1] in ("AddWithOverflow", "SubWithOverflow", "MulWithOverflow") and pj == ("f", 0):
            return ("bin", t[1][:3], t[2], t[3])
        return ("proj", t, pj)

    @staticmethod
    def _disjoint(a, b):
        if isinstance(a, tuple) and isinstance(b, tuple) and a[0] == b[0] and a[0] in ("f", "cidx"):
            return a != b
        if isinstance(a, tuple) and isinstance(b, tuple) and a[0] == b[0] == "elem":
            return len(a) == 2 and len(b) == 2 and a[1] is not None and b[1] is not None and a[1] != b[1]
        if isinstance(a, tuple) and isinstance(b, tuple) and a[0] == "variant" and b[0] == "variant":
            return a[1] != b[1]
        return False

    def local_value(self, l, point):
        """value term of local l just before point (bb, i); i == len(stmts) is just before the terminator,
        i == len(stmts)+1 is after it (on the normal edge)"""
        self._build_vg()
        bb, i = point
        evs = self._events.get(bb)
        if evs:
            best = None
            for (j, ll, v) in evs:
                if ll == l and j < i:
                    best = v
            if best is not None:
                return best
        return self._block_entry_value(l, bb)

    def _block_entry_value(self, l, bb):
        self._build_vg()
        env = self._env_in.get(bb)
        if env is None:
            return ("unknown", "unreached")
        v = env.get(l)
        if v is None:
            return ("unknown", "dead")
        return v

    def _build_vg(self):
        if getattr(self, "_vg_done", False) or getattr(self, "_vg_building", False):
            return
        self._vg_building = True
        self._events = {}
        self._env_in = {}
        self._env_out = {}
        self._phi_defs = {}
        order = self.rpo()
        headers = {lp.header: lp for lp in self.loops()}
        defs = self.defs()
        modified = {}
        for h, lp in headers.items():
            modified[h] = {l for l, recs in defs.items() if any(r[0] in lp.body for r in recs)}
        live = self.live_in()
        processed = set()
        for bb in order:
            preds = [p for p in self.pred[bb] if p in self.reachable()]
            env = {}
            if bb == 0:
                for l in range(1, self.nargs + 1):
                    env[l] = ("arg", l)
            else:
                done = [p for p in preds if p in processed]
                keys = set()
                for p in done:
                    keys |= set(self._env_out[p].keys())
                if bb in headers:
                    lp = headers[bb]
                    for l in keys:
                        if not self._is_live(l, bb):
                            continue
                        if l in modified[bb]:
                            env[l] = ("loopphi", (bb, l))
                        else:
                            vals = []
                            for p in done:
                                if p not in lp.body:
                                    v = self._env_out[p].get(l)
                                    if v is not None and v not in vals:
                                        vals.append(v)
                            if len(vals) == 1:
                                env[l] = vals[0]
                            elif vals:
                                env[l] = ("phi", (bb, l), tuple(vals))
                else:
                    for l in keys:
                        if not self._is_live(l, bb):
                            continue
                        vals = []
                        ops = []
                        for p in done:
                            v = self._env_out[p].get(l, ("unknown", "dead"))
                            ops.append(v)
                            if v not in vals:
                                vals.append(v)
                        if len(vals) == 1:
                            env[l] = vals[0]
                        else:
                            env[l] = ("phi", (bb, l), tuple(ops))
            self._env_in[bb] = env
            self._events[bb] = []
            cur = dict(env)
            recs = sorted([(r[1], l, r) for l, rl in defs.items() for r in rl if r[0] == bb], key=lambda x: x[0])
            for (i, l, rec) in recs:
                v = self._def_value_fwd(l, rec)
                self._events[bb].append((i, l, v))
                cur[l] = v
            self._env_out[bb] = cur
            processed.add(bb)
        for h, lp in headers.items():
            preds = [p for p in self.pred[h] if p in self.reachable() and p in processed]
            for l, v in self._env_in.get(h, {}).items():
                if v == ("loopphi", (h, l)):
                    ops = tuple(self._env_out[p].get(l, ("unknown", "dead")) for p in preds)
                    self._phi_defs[(h, l)] = ("phi", (h, l), ops)
        self._phi_preds = {h: [p for p in self.pred[h] if p in self.reachable() and p in processed] for h in headers}
        self._vg_building = False
        self._vg_done = True

    def _def_value_fwd(self, l, rec):
        bb, i, kind, path, payload = rec
        if kind == "full":
            return self.rvalue(payload["rv"], (bb, i))
        if kind == "calldest":
            return self.call_term(payload, bb)
        if kind in ("part", "store"):
            before = self.local_value(l, (bb, i))
            if payload.get("k") == "assign":
                val = self.rvalue(payload["rv"], (bb, i))
            elif payload.get("k") == "call":
                val = self.call_term(payload, bb)
            else:
                val = ("unknown", "setdiscr")
            return ("upd", before, self._norm_path(path, (bb, i)), val)
        if kind == "mod":
            before = self.local_value(l, (bb, i))
            return ("mod", before, (bb, payload.get("resolved") or payload.get("callee")), path)
        return ("unknown", kind)

    def call_term(self, t, bb):
        self._build_vg()
        key = ("call", bb)
        if key in self._vmemo:
            return self._vmemo[key]
        self._vmemo[key] = ("unknown", "reccall")
        n = len(self.stmts(bb))
        args = tuple(self._snapshot(self.operand(a, (bb, n)), (bb, n)) for a in t["args"])
        callee = t.get("resolved") or t.get("callee")
        if callee is None:
            callee = ("fnptr", self.operand(t["fnptr"], (bb, n)))
        v = None
        # arithmetic on f64 / &f64 through the operator traits is the same as the MIR binary operation
        decl = t.get("callee") or ""
        if decl in ARITH_TRAITS and all(ta.replace("&", "").replace("'_ ", "").strip() in ("f64", "f32") for ta in t.get("targs", [])) \
                and t.get("targs"):
            ops = []
            for a, ta in zip(args, t.get("targs")):
                ops.append(self._deref(a, (bb, n)) if ta.strip().startswith("&") else a)
            if decl == "std::ops::Neg::neg" and len(ops) == 1:
                v = ("un", "Neg", ops[0])
            elif len(ops) == 2:
                v = ("bin", ARITH_TRAITS[decl], ops[0], ops[1])
        if v is None:
            v = ("call", callee, args, bb)
        self._vmemo[key] = v
        return v

    def _snapshot(self, a, point):
        """a reference to a local passed to a call denotes the local's value at the time of the call"""
        if a[0] == "refplace":
            v = self.local_value(a[2], point)
            return ("ref", a[1], self._project(v, list(a[3]), point))
        return a

    def rvalue(self, rv, point):
        k = rv["k"]
        if k == "use":
            return self.operand(rv["a"], point)
        if k == "bin":
            return ("bin", rv["op"], self.operand(rv["a"], point), self.operand(rv["b"], point))
        if k == "un":
            return ("un", rv["op"], self.operand(rv["a"], point))
        if k == "cast":
            return ("cast", rv["kind"], self.operand(rv["a"], point), rv["ty"])
        if k == "ref" or k == "rawptr":
            pl = rv["place"]
            mut = rv.get("mut", False)
            if pl["p"] and pl["p"][0] == "deref":
                # reborrow: value is the pointer itself projected
                basev = self.local_value(pl["l"], point)
                if len(pl["p"]) == 1:
                    return basev
                inner = self._project(basev, [_pj(x) for x in pl["p"]], point)
                return ("ref", mut, inner)
            return ("refplace", mut, pl["l"], tuple(_pj(x) for x in pl["p"]))
        if k == "agg":
            a = rv["agg"]
            if a == "adt":
                kind = ("adt", rv["adt"], rv["vname"])
            elif a == "closure":
                kind = ("closure", rv["closure"])
            else:
                kind = a
            return ("agg", kind, tuple(self.operand(o, point) for o in rv["ops"]))
        if k == "discr":
            return ("discr", self.place_value(rv["place"], point))
        if k == "repeat":
            return ("repeat", self.operand(rv["a"], point), rv.get("n"))
        return ("unknown", k)

    def _is_live(self, l, bb):
        """l may be read after entry to bb before being fully redefined, directly or through a live pointer to it"""
        live = self.live_in().get(bb, ())
        if l in live:
            return True
        ptrs = getattr(self, "_ptrs_to", None)
        if ptrs is None:
            ptrs = {}
            for p, tgts in self.alias().items():
                for (tl, path, m) in tgts:
                    ptrs.setdefault(tl, set()).add(p)
            self._ptrs_to = ptrs
        return any(p in live for p in ptrs.get(l, ()))

    def phi_def(self, t):
        """definition of a ('loopphi', (bb, l)) name: ('phi', (bb, l), operands in the order of header_preds(bb))"""
        self._build_vg()
        if t[0] == "loopphi":
            return self._phi_defs.get(t[1], t)
        return t

    def loop_carried(self, h):
        """locals that carry a value around the loop with header h (live at the header and assigned in the loop)"""
        self._build_vg()
        return sorted(l for l, v in self._env_in.get(h, {}).items() if v == ("loopphi", (h, l)))

    def header_preds(self, h):
        self._build_vg()
        return self._phi_preds.get(h, [])

    # convenience --------------------------------------------------------------------------------------------------
    def arg_terms(self, bb):
        t = self.term(bb)
        n = len(self.stmts(bb))
        return [self.operand(a, (bb, n)) for a in t["args"]]

    def end_point(self, bb):
        return (bb, len(self.stmts(bb)))


def _mentions(t, needle, depth=0):
    if t == needle:
        return True
    if depth > 40 or not isinstance(t, tuple):
        return False
    for x in t[1:]:
        if isinstance(x, tuple) and _mentions(x, needle, depth + 1):
            return True
    return False


def strip_refs(t):
    """look through ref/deref wrappers and trivially-transparent calls"""
    while True:
        if t[0] == "ref":
            t = t[2]
        elif t[0] == "proj" and t[2] == "deref":
            t = t[1]
        else:
            return t


def walk(t, fn, seen=None, depth=0):
    """pre-order walk over a term; fn(t) may return False to stop descent"""
    if seen is None:
        seen = set()
    if not isinstance(t, tuple) or id(t) in seen or depth > 200:
        return
    seen.add(id(t))
    if fn(t) is False:
        return
    for x in t[1:]:
        if isinstance(x, tuple):
            if x and isinstance(x[0], str):
                walk(x, fn, seen, depth + 1)
            else:
                for y in x:
                    if isinstance(y, tuple):
                        walk(y, fn, seen, depth + 1)


def show(t, depth=0, maxd=6):
    if not isinstance(t, tuple):
        return repr(t)
    if depth > maxd:
        return "…"
    tag = t[0]
    if tag == "const":
        v = t[2]
        if isinstance(v, tuple):
            return "%s" % (v[1] if len(v) > 1 else v[0],)
        return str(v)
    if tag == "arg":
        return "arg%d" % t[1]
    if tag == "call":
        c = t[1] if isinstance(t[1], str) else "fnptr"
        return "%s(%s)" % (c.split("::")[-1] if isinstance(c, str) else c, ", ".join(show(a, depth + 1, maxd) for a in t[2]))
    if tag == "bin":
        return "(%s %s %s)" % (show(t[2], depth + 1, maxd), t[1], show(t[3], depth + 1, maxd))
    if tag == "un":
        return "%s(%s)" % (t[1], show(t[2], depth + 1, maxd))
    if tag == "cast":
        return "cast(%s)" % show(t[2], depth + 1, maxd)
    if tag == "agg":
        return "%s[%s]" % (t[1] if isinstance(t[1], str) else t[1][-1], ", ".join(show(a, depth + 1, maxd) for a in t[2]))
    if tag == "proj":
        return "%s.%s" % (show(t[1], depth + 1, maxd), t[2] if isinstance(t[2], str) else ":".join(str(x) for x in t[2]))
    if tag == "ref":
        return "&%s" % show(t[2], depth + 1, maxd)
    if tag == "refplace":
        return "&_%d%s" % (t[2], "".join("." + str(x) for x in t[3]))
    if tag == "upd":
        return "upd(%s, %s := %s)" % (show(t[1], depth + 1, maxd), t[2], show(t[3], depth + 1, maxd))
    if tag == "mod":
        return "mod(%s by %s)" % (show(t[1], depth + 1, maxd), t[2][1])
    if tag == "phi":
        return "phi%s(%s)" % (t[1], ", ".join(show(a, depth + 1, maxd) for a in t[2]))
    return str(t[:2])
