"""Tiny exact polynomial arithmetic over named symbols (dict monomial -> Fraction), used to check algebraic
identities of straight-line expression DAGs (no solver, no execution: normal forms are compared)."""
from fractions import Fraction


class Poly:
    def __init__(self, terms=None):
        self.t = {k: v for k, v in (terms or {}).items() if v != 0}

    @staticmethod
    def const(c):
        return Poly({(): Fraction(c)})

    @staticmethod
    def sym(name):
        return Poly({((name, 1),): Fraction(1)})

    def __add__(self, o):
        r = dict(self.t)
        for k, v in o.t.items():
            r[k] = r.get(k, Fraction(0)) + v
        return Poly(r)

    def __neg__(self):
        return Poly({k: -v for k, v in self.t.items()})

    def __sub__(self, o):
        return self + (-o)

    def __mul__(self, o):
        r = {}
        for k1, v1 in self.t.items():
            for k2, v2 in o.t.items():
                d = dict(k1)
                for s, e in k2:
                    d[s] = d.get(s, 0) + e
                k = tuple(sorted(d.items()))
                r[k] = r.get(k, Fraction(0)) + v1 * v2
        return Poly(r)

    def reduce(self, rules):
        """rules: {symbol: Poly} meaning symbol^2 -> Poly (e.g. c^2 -> 1 - s^2)"""
        cur = self
        for _ in range(40):
            changed = False
            out = Poly()
            for k, v in cur.t.items():
                d = dict(k)
                hit = None
                for s in rules:
                    if d.get(s, 0) >= 2:
                        hit = s
                        break
                if hit is None:
                    out = out + Poly({k: v})
                    continue
                changed = True
                d[hit] -= 2
                rest = Poly({tuple(sorted((a, b) for a, b in d.items() if b > 0)): v})
                out = out + rest * rules[hit]
            cur = out
            if not changed:
                break
        return cur

    def is_zero(self):
        return not self.t

    def __eq__(self, o):
        return (self - o).is_zero()

    def __repr__(self):
        if not self.t:
            return "0"
        return " + ".join("%s*%s" % (v, "*".join("%s^%d" % se for se in k) or "1") for k, v in sorted(self.t.items()))


def subst(p, mapping):
    """replace symbols by polynomials"""
    out = Poly()
    for k, v in p.t.items():
        term = Poly.const(v)
        for s, e in k:
            base = mapping.get(s, Poly.sym(s))
            for _ in range(e):
                term = term * base
        out = out + term
    return out


def reduce_products(p, rules, rounds=60):
    """rules: {(symA, symB) sorted tuple: Poly}: rewrite one occurrence of symA*symB by the polynomial"""
    cur = p
    for _ in range(rounds):
        changed = False
        out = Poly()
        for k, v in cur.t.items():
            d = dict(k)
            hit = None
            for (a, b) in rules:
                if a == b:
                    if d.get(a, 0) >= 2:
                        hit = (a, b)
                        break
                elif d.get(a, 0) >= 1 and d.get(b, 0) >= 1:
                    hit = (a, b)
                    break
            if hit is None:
                out = out + Poly({k: v})
                continue
            changed = True
            d[hit[0]] -= 1
            d[hit[1]] -= 1
            rest = Poly({tuple(sorted((x, y) for x, y in d.items() if y > 0)): v})
            out = out + rest * rules[hit]
        cur = out
        if not changed:
            break
    return cur
