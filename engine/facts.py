"""Fact export (engine E1 driver side) and loading.

export(repo) hashes the sources of `repo`, re-uses /verif/.cache/<hash>/ when present, otherwise runs
`cargo +nightly check --lib --bins` in `repo` with the geofacts driver as RUSTC_WORKSPACE_WRAPPER into a
fresh target directory (removed afterwards) and stores the two fact files (lib geodesy, bin kp).
"""
import fcntl
import hashlib
import json
import os
import shutil
import subprocess
import sys
import tempfile
import time

VERIF = os.path.dirname(os.path.dirname(os.path.abspath(__file__)))
CACHE = os.path.join(VERIF, ".cache")
DRIVER_DIR = os.path.join(VERIF, "engine", "geofacts")
DRIVER = os.path.join(DRIVER_DIR, "target", "debug", "geofacts")


def _env():
    env = dict(os.environ)
    env["CARGO_NET_OFFLINE"] = "true"
    return env


def build_driver():
    """Build the geofacts driver if it is missing or older than its sources."""
    srcs = [os.path.join(DRIVER_DIR, "src", f) for f in os.listdir(os.path.join(DRIVER_DIR, "src"))]
    srcs.append(os.path.join(DRIVER_DIR, "Cargo.toml"))
    if os.path.exists(DRIVER) and all(os.path.getmtime(DRIVER) >= os.path.getmtime(s) for s in srcs):
        return
    r = subprocess.run(["cargo", "build", "--offline"], cwd=DRIVER_DIR, env=_env(),
                       stdout=subprocess.PIPE, stderr=subprocess.STDOUT, text=True)
    if r.returncode != 0 or not os.path.exists(DRIVER):
        sys.stderr.write(r.stdout)
        raise RuntimeError("geofacts driver failed to build")


def source_files(repo):
    out = []
    for root, dirs, files in os.walk(os.path.join(repo, "src")):
        dirs.sort()
        for f in sorted(files):
            if f.endswith(".rs"):
                out.append(os.path.join(root, f))
    for f in ("Cargo.toml", "Cargo.lock", "README.md"):
        p = os.path.join(repo, f)
        if os.path.exists(p):
            out.append(p)
    return out


def source_hash(repo):
    h = hashlib.sha256()
    for p in source_files(repo):
        h.update(os.path.relpath(p, repo).encode())
        h.update(b"\0")
        with open(p, "rb") as fh:
            h.update(hashlib.sha256(fh.read()).digest())
    # the driver's own sources are part of the key: a changed exporter must re-export
    for f in sorted(os.listdir(os.path.join(DRIVER_DIR, "src"))):
        with open(os.path.join(DRIVER_DIR, "src", f), "rb") as fh:
            h.update(hashlib.sha256(fh.read()).digest())
    return h.hexdigest()[:32]


def _nightly_sysroot():
    r = subprocess.run(["rustc", "+nightly", "--print", "sysroot"], stdout=subprocess.PIPE, text=True,
                       cwd="/", env=_env())
    return r.stdout.strip()


def export(repo="/repo", verbose=False):
    """Returns (dir, meta) where dir holds lib.json and kp.json for the current tree of `repo`."""
    repo = os.path.abspath(repo)
    os.makedirs(CACHE, exist_ok=True)
    key = source_hash(repo)
    dest = os.path.join(CACHE, key)
    meta_p = os.path.join(dest, "meta.json")
    if os.path.exists(meta_p):
        try:
            meta = json.load(open(meta_p))
            os.utime(meta_p, None)   # mark as recently used
            return dest, meta
        except (OSError, ValueError):
            pass
    build_driver()
    lock = open(os.path.join(CACHE, "export.lock"), "w")
    fcntl.flock(lock, fcntl.LOCK_EX)
    try:
        if os.path.exists(meta_p):
            return dest, json.load(open(meta_p))
        t0 = time.time()
        tgt = tempfile.mkdtemp(prefix="geofacts-tgt-")
        out = tempfile.mkdtemp(prefix="geofacts-out-")
        try:
            env = _env()
            sysroot = _nightly_sysroot()
            env["LD_LIBRARY_PATH"] = os.path.join(sysroot, "lib") + ":" + env.get("LD_LIBRARY_PATH", "")
            env["RUSTFLAGS"] = "-Zmir-opt-level=0 -Awarnings"
            env["RUSTC_WORKSPACE_WRAPPER"] = DRIVER
            env["GEOFACTS_OUT"] = out
            env["CARGO_TARGET_DIR"] = tgt
            env.pop("RUSTC_WRAPPER", None)
            r = subprocess.run(["cargo", "+nightly", "check", "--offline", "--lib", "--bins"], cwd=repo, env=env,
                               stdout=subprocess.PIPE, stderr=subprocess.STDOUT, text=True)
            if r.returncode != 0:
                raise RuntimeError("cargo check with geofacts failed in %s:\n%s" % (repo, r.stdout[-4000:]))
            files = os.listdir(out)
            lib = [f for f in files if f.startswith("geodesy-") and f.endswith(".json")]
            kp = [f for f in files if f.startswith("kp-") and f.endswith(".json")]
            if len(lib) != 1 or len(kp) != 1:
                raise RuntimeError("geofacts: expected one lib and one kp fact file, got %r" % files)
            tmpdest = tempfile.mkdtemp(prefix="tmp-", dir=CACHE)
            shutil.move(os.path.join(out, lib[0]), os.path.join(tmpdest, "lib.json"))
            shutil.move(os.path.join(out, kp[0]), os.path.join(tmpdest, "kp.json"))
            meta = {"hash": key, "repo": repo, "export_s": round(time.time() - t0, 2),
                    "files": {os.path.relpath(p, repo): hashlib.sha256(open(p, "rb").read()).hexdigest()
                              for p in source_files(repo)}}
            json.dump(meta, open(os.path.join(tmpdest, "meta.json"), "w"))
            if os.path.exists(dest):
                shutil.rmtree(dest)
            os.rename(tmpdest, dest)
        finally:
            shutil.rmtree(tgt, ignore_errors=True)
            shutil.rmtree(out, ignore_errors=True)
        _prune(keep=dest)
        return dest, meta
    finally:
        fcntl.flock(lock, fcntl.LOCK_UN)
        lock.close()


def _prune(keep, n=60, min_age_s=7200):
    """drop old cache entries: beyond the n most recently *used* ones and not used for half an hour (checks of
    several properties and the self-test's mutants run concurrently and must not lose their entry while loading)"""
    ents = []
    now = time.time()
    for d in os.listdir(CACHE):
        p = os.path.join(CACHE, d)
        mp = os.path.join(p, "meta.json")
        if os.path.isdir(p) and os.path.exists(mp):
            ents.append((os.path.getmtime(mp), p))
        elif os.path.isdir(p) and d.startswith("tmp-") and now - os.path.getmtime(p) > 3600:
            shutil.rmtree(p, ignore_errors=True)   # left behind by an interrupted export
    ents.sort(reverse=True)
    for m, p in ents[n:]:
        if p != keep and now - m > min_age_s:
            shutil.rmtree(p, ignore_errors=True)


class Facts:
    def __init__(self, d, meta=None, repo="/repo"):
        self.dir = d
        self.meta = meta or {}
        self.repo = repo
        self.lib = json.load(open(os.path.join(d, "lib.json")))
        self.kp = json.load(open(os.path.join(d, "kp.json")))
        self._fn = {}

    def fn(self, name, crate="lib"):
        from mir import Fn
        k = (crate, name)
        if k not in self._fn:
            src = self.lib if crate == "lib" else self.kp
            self._fn[k] = Fn(name, src["fns"][name], self)
        return self._fn[k]

    def has_fn(self, name, crate="lib"):
        src = self.lib if crate == "lib" else self.kp
        return name in src["fns"]

    def fn_names(self, crate="lib"):
        src = self.lib if crate == "lib" else self.kp
        return list(src["fns"].keys())

    def fns(self, crate="lib"):
        for n in self.fn_names(crate):
            yield self.fn(n, crate)

    def const(self, name, crate="lib"):
        src = self.lib if crate == "lib" else self.kp
        return src["consts"].get(name)

    def rel(self, path):
        """repo-relative file name"""
        if path.startswith(self.repo + "/"):
            return path[len(self.repo) + 1:]
        return path


def load(repo="/repo"):
    last = None
    for attempt in range(3):
        d, meta = export(repo)
        try:
            return Facts(d, meta, os.path.abspath(repo))
        except (OSError, ValueError) as e:
            # the cache entry vanished or is incomplete (concurrent pruning): export again
            last = e
            shutil.rmtree(d, ignore_errors=True)
    raise RuntimeError("fact files unreadable after re-export: %s" % last)


if __name__ == "__main__":
    repo = sys.argv[1] if len(sys.argv) > 1 else "/repo"
    t = time.time()
    d, meta = export(repo)
    print(d, meta.get("export_s"), round(time.time() - t, 2))
