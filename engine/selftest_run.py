"""Checker self-test: one-edit semantic mutants of /repo, each applied to a scratch copy (outside /repo and /verif,
removed afterwards); the rule named by the mutant must fire on the mutated instance.

A mutant is a JSON object {id, file, old, new, expect: substring of the violated obligation key, why}. The edit is an
exact string replacement that must match exactly once in the current tree (a mutant that no longer applies is
reported as `stale`, not as a failure of the property)."""
import concurrent.futures
import json
import os
import shutil
import subprocess
import sys
import tempfile

HERE = os.path.dirname(os.path.abspath(__file__))
VERIF = os.path.dirname(HERE)


def make_copy(repo="/repo"):
    d = tempfile.mkdtemp(prefix="geodesy-mutant-")
    shutil.copytree(os.path.join(repo, "src"), os.path.join(d, "src"))
    for f in ("Cargo.toml", "Cargo.lock", "README.md"):
        if os.path.exists(os.path.join(repo, f)):
            shutil.copy(os.path.join(repo, f), os.path.join(d, f))
    return d


def apply_edit(d, m):
    if "patch" in m:
        patch = m["patch"] if os.path.isabs(m["patch"]) else os.path.join(VERIF, m["patch"])
        subprocess.run(["git", "init", "-q"], cwd=d, stdout=subprocess.PIPE, stderr=subprocess.STDOUT)
        r = subprocess.run(["git", "apply", "--whitespace=nowarn", patch], cwd=d, stdout=subprocess.PIPE,
                           stderr=subprocess.STDOUT, text=True)
        if r.returncode != 0:
            return "stale: patch %s does not apply: %s" % (m["patch"], r.stdout[-200:])
        return None
    p = os.path.join(d, m["file"])
    s = open(p).read()
    n = s.count(m["old"])
    if n == 0 or (n != 1 and not m.get("first_only")):
        return "stale: pattern occurs %d times in %s" % (n, m["file"])
    open(p, "w").write(s.replace(m["old"], m["new"], 1))
    return None


def run_mutant(pid, m, repo="/repo"):
    d = make_copy(repo)
    try:
        err = apply_edit(d, m)
        if err:
            return m["id"], "stale", err
        r = subprocess.run([sys.executable, os.path.join(HERE, "check.py"), pid, "--repo", d, "--no-evidence",
                            "--tier", "quick"], stdout=subprocess.PIPE, stderr=subprocess.STDOUT, text=True)
        out = r.stdout
        keys = [l.split("key=", 1)[1].strip() for l in out.splitlines() if "key=" in l and "rule=" in l]
        if "fact export failed" in out:
            return m["id"], "nocompile", out[-600:]
        if m.get("silent"):
            # a behaviour-preserving edit: the check must stay silent
            if keys or r.returncode != 0:
                return m["id"], "false-alarm", "reported on a behaviour-preserving edit: %s" % (keys[:3],)
            return m["id"], "caught", "silent, as required"
        hit = [k for k in keys if m["expect"] in k]
        if hit:
            return m["id"], "caught", hit[0]
        if keys:
            # the mutated instance was reported, under another key than the one recorded with the mutant (e.g. the
            # function was renamed since): the checker fired, which is what the self-test asks
            return m["id"], "caught", keys[0] + " (expected " + m["expect"] + ")"
        return m["id"], "missed", "violations reported: %s" % (keys[:5],)
    finally:
        shutil.rmtree(d, ignore_errors=True)


def load_refactors():
    """behaviour-preserving edits (written by an independent sub-agent, /verif/refactors/*): every check must stay
    silent on each of them"""
    out = []
    d = os.path.join(VERIF, "refactors")
    if os.path.isdir(d):
        for r in sorted(os.listdir(d)):
            p = os.path.join(d, r, "patch.diff")
            if os.path.exists(p):
                out.append({"id": "refactor-" + r, "patch": os.path.join("refactors", r, "patch.diff"), "silent": True,
                            "expect": ""})
    return out


def load_mutants(pid):
    d = os.path.join(HERE, "selftest", pid)
    out = []
    if os.path.isdir(d):
        for f in sorted(os.listdir(d)):
            if f.endswith(".json"):
                m = json.load(open(os.path.join(d, f)))
                if isinstance(m, list):
                    out.extend(m)
                else:
                    out.append(m)
    return out


def run(pid, _dir=None, repo="/repo"):
    ms = load_mutants(pid) + load_refactors()
    run.last_summary = {"mutants": 0, "caught": 0, "stale": 0, "missed": 0, "results": []}
    if not ms:
        return 0
    results = []
    with concurrent.futures.ThreadPoolExecutor(max_workers=min(12, len(ms))) as ex:
        futs = [ex.submit(run_mutant, pid, m, repo) for m in ms]
        for fu in futs:
            results.append(fu.result())
    bad = 0
    for mid, status, info in results:
        print("selftest %s %s: %s  %s" % (pid, mid, status, info if status != "caught" else "[" + info + "]"))
        if status in ("missed", "nocompile", "false-alarm"):
            bad += 1
    print("selftest %s: %d mutants, %d caught, %d stale, %d missed" % (
        pid, len(results), sum(1 for r in results if r[1] == "caught"), sum(1 for r in results if r[1] == "stale"), bad))
    summary = {"mutants": len(results), "caught": sum(1 for r in results if r[1] == "caught"),
               "stale": sum(1 for r in results if r[1] == "stale"), "missed": bad,
               "results": [{"id": r[0], "status": r[1], "detail": r[2][:200]} for r in results]}
    run.last_summary = summary
    if bad:
        print("VIOLATION property=%s replay=%s" % (pid, os.path.join(HERE, "selftest", pid)))
        print("  reason=selftest: the checker failed to fire on its own mutant(s); the machinery is broken")
        return 1
    return 0


if __name__ == "__main__":
    # ad-hoc: python3 selftest_run.py <pid> <file> <old> <new>   (prints the violations on the mutated copy)
    pid, file, old, new = sys.argv[1:5]
    m = {"id": "adhoc", "file": file, "old": old, "new": new, "expect": sys.argv[5] if len(sys.argv) > 5 else ""}
    print(run_mutant(pid, m))
