"""Element-wise view of coordinate tuple values (Coor4D & friends) in the value graph, with one-level inlining of
local callees so that `Coor4D::raw(a, b, c, d)`, `Coor4D::geo(..)`, `ellps.cartesian(&c)` ... expose which result
element is which input."""
import mir

CT = "coordinate::tuple::CoordinateTuple::"
TUPLE_ACCESSORS = {"xy": 2, "xyz": 3, "xyzt": 4}
SCALAR_ACCESSORS = {"x": 0, "y": 1, "z": 2, "t": 3}
COOR_TYPES = ("coordinate::coor4d::Coor4D", "coordinate::coor3d::Coor3D", "coordinate::coor2d::Coor2D",
              "coordinate::coor32::Coor32")


def _pointee(x, f, point):
    x = mir.strip_refs(x)
    if x[0] == "refplace" and f is not None:
        return mir.strip_refs(f._deref(x, point))
    return x


def canon(t, f=None, point=None, depth=0):
    """canonicalise accessor projections: xyzt(&X).k -> X.elem:k ; x(&X) -> X.elem:0 ; X.0[k] -> X.elem:k"""
    if not isinstance(t, tuple) or depth > 50:
        return t
    if t[0] == "proj" and isinstance(t[2], tuple) and t[2][0] == "f":
        b = t[1]
        if b[0] == "call" and isinstance(b[1], str) and b[1].startswith(CT) and b[1][len(CT):] in TUPLE_ACCESSORS:
            if t[2][1] < TUPLE_ACCESSORS[b[1][len(CT):]]:
                return ("proj", canon(_pointee(b[2][0], f, point), f, point, depth + 1), ("elem", t[2][1]))
    if t[0] == "call" and isinstance(t[1], str) and t[1].startswith(CT) and t[1][len(CT):] in SCALAR_ACCESSORS \
            and len(t[2]) == 1:
        return ("proj", canon(_pointee(t[2][0], f, point), f, point, depth + 1),
                ("elem", SCALAR_ACCESSORS[t[1][len(CT):]]))
    if t[0] == "proj" and isinstance(t[2], tuple) and t[2][0] == "elem" and t[1][0] == "proj" and t[1][2] == ("f", 0):
        return ("proj", canon(t[1][1], f, point, depth + 1), t[2])
    if t[0] == "proj":
        return ("proj", canon(t[1], f, point, depth + 1), t[2])
    return t


def return_term(g):
    """term of the value returned by function g (phi over several returns)"""
    rets = []
    for bb in sorted(g.reachable()):
        if g.term(bb)["k"] == "return":
            rets.append(g.local_value(0, g.end_point(bb)))
    if not rets:
        return None
    if len(rets) == 1:
        return rets[0]
    return ("phi", ("ret", 0), tuple(rets))


def subst(t, amap, caller, point, depth=0):
    """rebuild callee term t with ('arg', n) replaced by amap[n], re-simplifying projections in the caller"""
    if not isinstance(t, tuple) or not t or depth > 60:
        return t
    tag = t[0]
    if tag == "arg":
        return amap.get(t[1], ("unknown", "arg"))
    if tag == "proj":
        b = subst(t[1], amap, caller, point, depth + 1)
        if t[2] == "deref":
            return caller._deref(b, point)
        return caller._proj1(b, t[2])
    if tag == "call":
        return ("call", t[1], tuple(subst(a, amap, caller, point, depth + 1) for a in t[2]), ("inl", t[3]))
    if tag in ("bin",):
        return (tag, t[1], subst(t[2], amap, caller, point, depth + 1), subst(t[3], amap, caller, point, depth + 1))
    if tag in ("un",):
        return (tag, t[1], subst(t[2], amap, caller, point, depth + 1))
    if tag == "cast":
        return (tag, t[1], subst(t[2], amap, caller, point, depth + 1), t[3])
    if tag == "agg":
        return (tag, t[1], tuple(subst(a, amap, caller, point, depth + 1) for a in t[2]))
    if tag == "ref":
        return (tag, t[1], subst(t[2], amap, caller, point, depth + 1))
    if tag == "upd":
        return (tag, subst(t[1], amap, caller, point, depth + 1), t[2], subst(t[3], amap, caller, point, depth + 1))
    if tag == "mod":
        return (tag, subst(t[1], amap, caller, point, depth + 1), t[2], t[3])
    if tag == "phi":
        return (tag, ("inl",) + tuple(t[1]), tuple(subst(a, amap, caller, point, depth + 1) for a in t[2]))
    if tag == "refplace":
        return ("unknown", "callee-local-ref")
    return t


def inline_call(f, t, point):
    """if t is a call of a local function with a body, return its result term expressed in caller terms"""
    if t[0] != "call" or not isinstance(t[1], str) or f.facts is None:
        return None
    if not f.facts.has_fn(t[1]):
        return None
    g = f.facts.fn(t[1])
    r = return_term(g)
    if r is None:
        return None
    amap = {i + 1: a for i, a in enumerate(t[2])}
    return subst(r, amap, f, point)


def elems(f, t, point, n=4, depth=0):
    """list of n element terms of the tuple-valued term t (opaque projections where unknown)"""
    t = mir.strip_refs(t)
    opaque = [("proj", t, ("elem", k)) for k in range(n)]
    if depth > 6:
        return opaque
    if t[0] == "refplace":
        return elems(f, f._deref(t, point), point, n, depth + 1)
    if t[0] == "agg":
        kind = t[1]
        if isinstance(kind, tuple) and kind[0] == "adt" and kind[1] in COOR_TYPES and len(t[2]) == 1:
            return elems(f, t[2][0], point, n, depth + 1)
        if kind == "array":
            out = list(t[2][:n])
            while len(out) < n:
                out.append(("unknown", "short-array"))
            return out
        return opaque
    if t[0] == "upd":
        base, path, val = t[1], t[2], t[3]
        e = elems(f, base, point, n, depth)
        if path is None:
            return [("unknown", "upd-anywhere")] * n
        p = list(path)
        if p and p[0] == ("f", 0):
            p = p[1:]
        if len(p) == 1 and p[0][0] == "elem" and len(p[0]) == 2 and p[0][1] is not None:
            k = p[0][1]
            if k < n:
                e = list(e)
                e[k] = val
            return e
        if not p:
            return elems(f, val, point, n, depth + 1)
        return [("unknown", "upd-dynamic")] * n
    if t[0] == "mod":
        callee = t[2][1] or ""
        e = list(elems(f, t[1], point, n, depth))
        tail = callee.split("::")[-1]
        hit = {"set_xy": 2, "set_xyz": 3, "set_xyzt": 4}.get(tail)
        if hit is not None and callee.startswith(CT):
            for k in range(min(hit, n)):
                e[k] = ("unknown", "mod:" + tail)
            return e
        return [("unknown", "mod:" + tail)] * n
    if t[0] == "loopphi":
        r = _loop_updated_elems(f, t, point, n, depth)
        if r is not None:
            return r
    if t[0] == "phi":
        cols = [elems(f, o, point, n, depth + 1) for o in t[2]]
        out = []
        for k in range(n):
            vals = []
            for c in cols:
                if c[k] not in vals:
                    vals.append(c[k])
            out.append(vals[0] if len(vals) == 1 else ("phi", ("elem", k), tuple(vals)))
        return out
    if t[0] == "call":
        r = inline_call(f, t, point)
        if r is not None:
            return elems(f, r, point, n, depth + 1)
    return opaque


def same_elem(a, b, f=None, point=None):
    return canon(a, f, point) == canon(b, f, point)


def look_through_calls(f, t, depth=0):
    """Resolve projections of the results of crate-local functions: `helper(op).Some.0.3` becomes the term the helper
    returns in that position (arms of the helper's result that are of another variant are dropped). Terms that are
    not such projections come back unchanged."""
    if not isinstance(t, tuple) or depth > 12:
        return t
    if t[0] == "ref":
        b = look_through_calls(f, t[2], depth + 1)
        return t if b is t[2] else ("ref", t[1], b)
    if t[0] == "call" and isinstance(t[1], str) and f.facts is not None and f.facts.has_fn(t[1]) and len(t) > 3:
        try:
            r = inline_call(f, t, None)
        except Exception:
            r = None
        return r if r is not None else t
    if t[0] != "proj":
        return t
    # `helper(..)?` : Try::branch(helper(..)).Continue.0 is helper(..).Ok.0 (or .Some.0 for an Option)
    if isinstance(t[2], tuple) and t[2][0] == "variant" and t[2][2] == "Continue":
        inner = mir.strip_refs(t[1])
        if inner[0] == "call" and isinstance(inner[1], str) and inner[1].endswith("Try>::branch") and inner[2]:
            src = mir.strip_refs(inner[2][0])
            if src[0] == "call" and isinstance(src[1], str) and f.facts is not None and f.facts.has_fn(src[1]):
                r = look_through_calls(f, src, depth + 1)
                if r is not src:
                    for vname, vidx in (("Ok", 0), ("Some", 1)):
                        p = _project(f, r, ("variant", vidx, vname))
                        if p is not None and not (p[0] == "proj" and p[1] is r):
                            return ("proj", p, ("variant", 0, "Continue")) if False else p
    b = look_through_calls(f, t[1], depth + 1)
    if b is t[1]:
        return t
    return _project(f, b, t[2])


def _project(f, b, pj):
    if b[0] == "phi":
        arms = []
        for a in b[2]:
            p = _project(f, a, pj)
            if p is not None:
                arms.append(p)
        if not arms:
            return None
        if len(arms) == 1:
            return arms[0]
        return ("phi", b[1], tuple(arms))
    if isinstance(pj, tuple) and pj[0] == "variant":
        if b[0] == "agg" and isinstance(b[1], tuple) and b[1][0] == "adt":
            # an aggregate of another variant cannot be projected to this one
            if b[1][-1] != pj[2]:
                return None
            return b
        return ("proj", b, pj)
    if pj == "deref":
        return b[2] if b[0] == "ref" else ("proj", b, pj)
    r = f._proj1(b, pj)
    return r


def _loop_updated_elems(f, t, point, n, depth):
    """elements of a tuple that an inner loop updates in place at induction indices `for j in a..b { c[j] = .. }`:
    the elements outside a..b are those of the value the loop started from; the others are unknown"""
    d = f.phi_def(t)
    if d is None or d[0] != "phi":
        return None

    def mentions(x):
        hit = []

        def v(y):
            if y == t:
                hit.append(1)
                return False
            return not hit
        mir.walk(x, v)
        return bool(hit)
    entry = [o for o in d[2] if not mentions(o)]
    latch = [o for o in d[2] if mentions(o)]
    if len(entry) != 1 or not latch:
        return None
    touched = set()

    def leaves(x, k=0):
        if x[0] == "phi" and k < 12:
            out = []
            for o in x[2]:
                out.extend(leaves(o, k + 1))
            return out
        return [x]
    from rules.decoder import loop_bounds
    for o in latch:
        for lf in leaves(o):
            if lf == t:
                continue
            x = lf
            while x[0] == "upd":
                path = x[2]
                if path is None:
                    return None
                p = list(path)
                if p and p[0] == ("f", 0):
                    p = p[1:]
                if len(p) != 1 or p[0][0] != "elem":
                    return None
                if len(p[0]) == 2 and p[0][1] is not None:
                    touched.add(p[0][1])
                elif len(p[0]) == 3:
                    lb = loop_bounds(f, p[0][2])
                    if lb is None:
                        return None
                    (lc, lo), (hc, hi) = lb
                    if lc or hc:
                        return None
                    touched |= set(range(int(lo), int(hi)))
                else:
                    return None
                x = x[1]
            if x != t:
                return None
    base = elems(f, entry[0], point, n, depth + 1)
    return [("unknown", "loop-updated") if k in touched else base[k] for k in range(n)]
