"""Per-tuple loops: natural loops in apply-reachable functions whose induction variable indexes a CoordinateSet
accessor inside the loop."""
import mir

CS = "coordinate::set::CoordinateSet::"
READS = ("get_coord", "xy", "xyz", "xyzt")
WRITES = ("set_coord", "set_xy", "set_xyz", "set_xyzt")


def is_cs_call(f, t):
    c = f.callee(t) or ""
    d = t.get("callee") or ""
    for cand in (c, d):
        if cand.startswith(CS):
            return cand[len(CS):]
    return None


class PTLoop:
    def __init__(self, f, lp):
        self.f = f
        self.lp = lp
        self.header = lp.header
        self.reads = []   # (bb, method)
        self.writes = []  # (bb, method)
        self.ind = None   # induction term
        self.iter_locals = set()
        self.foreign_index = []  # (bb, method, term) accessor calls in the loop whose index is not the induction var

    def key(self):
        return "%s/loop%d" % (self.f.name, self._ordinal)


def header_next(f, lp):
    t = f.term(lp.header)
    if t["k"] == "call" and (t.get("callee") or "").endswith("Iterator::next"):
        return t
    return None


def induction_terms(f, lp):
    """terms that denote the loop's induction value: next(..).Some.0 and, under Enumerate, its .0"""
    t = header_next(f, lp)
    if t is None:
        return []
    call = f.call_term(t, lp.header)
    some0 = ("proj", ("proj", call, ("variant", 1, "Some")), ("f", 0))
    out = [some0]
    full = t.get("callee_full", "")
    if "Enumerate<" in full:
        out.append(("proj", some0, ("f", 0)))
    return out


def per_tuple_loops(f):
    out = []
    loops = f.loops()
    for n, lp in enumerate(loops):
        ind = induction_terms(f, lp)
        if not ind:
            continue
        pt = PTLoop(f, lp)
        pt._ordinal = n
        t = header_next(f, lp)
        for a in t["args"]:
            pl = mir.op_place(a)
            if pl is not None:
                for (tl, path, m) in f.alias().get(pl["l"], ()):
                    pt.iter_locals.add(tl)
        for bb in sorted(lp.body):
            tt = f.term(bb)
            if tt["k"] != "call":
                continue
            m = is_cs_call(f, tt)
            if m is None or (m not in READS and m not in WRITES):
                continue
            if f.innermost_loop(bb) is not lp:
                continue
            idx = f.arg_terms(bb)[1]
            if idx in ind:
                if m in READS:
                    pt.reads.append((bb, m))
                else:
                    pt.writes.append((bb, m))
                pt.ind = idx
            else:
                pt.foreign_index.append((bb, m, idx))
        if pt.reads or pt.writes:
            out.append(pt)
    return out


def all_per_tuple_loops(cx):
    """(fn name, PTLoop) over apply-reachable functions + the stack/pushpop primitives reached from pipeline"""
    reg = cx.registry()
    names = sorted(reg.apply_reachable())
    out = []
    for name in names:
        if name.startswith(CS):
            continue  # trait default methods (stomp) are container code, not operator code
        f = cx.f.fn(name)
        for pt in per_tuple_loops(f):
            out.append(pt)
    return out


def mentions_loopphi(t, header, f=None):
    """set of locals l such that ('loopphi', (header, l)) or ('phi', (header, l), ..) occurs in t.
    With f given, a value modified in place by a call (`mod` term: the callee received a mutable alias) also depends
    on everything else that call was handed (e.g. mem::swap(&mut coord[k], &mut level[i]))."""
    found = set()
    seen_sites = set()
    seen_phis = set()

    def visit(x):
        if x[0] in ("loopphi", "phi") and x[1][0] == header:
            found.add(x[1][1])
            if x[0] == "phi":
                return True
        if f is not None and x[0] == "loopphi" and x[1][0] != header and x[1] not in seen_phis:
            # a value carried by an inner loop: look through to what it is built from
            seen_phis.add(x[1])
            d = f.phi_def(x)
            if d is not None and d[0] == "phi":
                for o in d[2]:
                    mir.walk(o, visit)
        if f is not None and x[0] == "mod" and isinstance(x[2], tuple) and isinstance(x[2][0], int):
            bb = x[2][0]
            if bb not in seen_sites:
                seen_sites.add(bb)
                tt = f.term(bb)
                if tt["k"] == "call":
                    c = f.call_term(tt, bb)
                    if c[0] == "call":
                        for a in c[2]:
                            mir.walk(a, visit)
        return True

    mir.walk(t, visit)
    return found


def iterator_entry_value(f, lp):
    """value of the iterator object of a `for` loop when the loop is entered (e.g. into_iter(Range[a, b]))"""
    t = header_next(f, lp)
    if t is None:
        return None
    x = f.operand(t["args"][0], f.end_point(lp.header))
    guard = 0
    while guard < 8:
        guard += 1
        if x[0] == "refplace":
            x = f.local_value(x[2], f.end_point(lp.header))
        elif x[0] == "ref":
            x = x[2]
        elif x[0] == "loopphi":
            d = f.phi_def(x)
            preds = f.header_preds(x[1][0])
            if d[0] != "phi":
                return None
            ops = [o for p, o in zip(preds, d[2]) if p not in lp.body]
            if len(ops) != 1:
                return None
            x = ops[0]
        elif x[0] == "mod":
            x = x[1]
        else:
            break
    return x
