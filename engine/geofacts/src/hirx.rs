// Resolved HIR -> JSON (expression trees with literal values, resolved paths and method callees)
use crate::json::J;
use crate::{path_str, span_json, ty_str};
use rustc_hir as hir;
use rustc_hir::def::Res;
use rustc_hir::def_id::LocalDefId;
use rustc_middle::ty::{TyCtxt, TypeckResults};

struct Cx<'tcx> {
    tcx: TyCtxt<'tcx>,
    tr: &'tcx TypeckResults<'tcx>,
}

pub fn body_json<'tcx>(tcx: TyCtxt<'tcx>, ldid: LocalDefId) -> J {
    let body = match tcx.hir_maybe_body_owned_by(ldid) {
        Some(b) => b,
        None => return J::Null,
    };
    let tr = tcx.typeck(ldid);
    let cx = Cx { tcx, tr };
    let mut params = Vec::new();
    for p in body.params {
        params.push(cx.pat(p.pat));
    }
    J::obj(vec![("params", J::Arr(params)), ("value", cx.expr(body.value))])
}

impl<'tcx> Cx<'tcx> {
    fn res(&self, res: Res) -> J {
        match res {
            Res::Def(kind, did) => J::obj(vec![
                ("res", J::s("def")),
                ("def_kind", J::Str(format!("{:?}", kind).split(['(', '{', ' ']).next().unwrap_or("").to_string())),
                ("path", J::Str(path_str(self.tcx, did))),
            ]),
            Res::Local(hid) => J::obj(vec![
                ("res", J::s("local")),
                ("id", J::Str(format!("{}", hid.local_id.as_u32()))),
                ("name", J::Str(self.tcx.hir_name(hid).to_string())),
            ]),
            Res::SelfCtor(_) => J::obj(vec![("res", J::s("selfctor"))]),
            Res::SelfTyAlias { .. } | Res::SelfTyParam { .. } => J::obj(vec![("res", J::s("selfty"))]),
            Res::PrimTy(p) => J::obj(vec![("res", J::s("prim")), ("name", J::Str(p.name_str().to_string()))]),
            _ => J::obj(vec![("res", J::s("other"))]),
        }
    }

    fn qpath(&self, q: &hir::QPath<'tcx>, hid: hir::HirId) -> J {
        let res = self.tr.qpath_res(q, hid);
        self.res(res)
    }

    fn lit(&self, l: &hir::Lit, negated: bool) -> J {
        use rustc_ast::LitKind;
        let sign = if negated { "-" } else { "" };
        match &l.node {
            LitKind::Str(s, _) => J::obj(vec![("lit", J::s("str")), ("v", J::Str(s.to_string()))]),
            LitKind::Int(v, _) => J::obj(vec![("lit", J::s("int")), ("v", J::Str(format!("{}{}", sign, v.get())))]),
            LitKind::Float(s, _) => J::obj(vec![("lit", J::s("float")), ("v", J::Str(format!("{}{}", sign, s)))]),
            LitKind::Bool(b) => J::obj(vec![("lit", J::s("bool")), ("v", J::Bool(*b))]),
            LitKind::Char(c) => J::obj(vec![("lit", J::s("char")), ("v", J::Str(c.to_string()))]),
            LitKind::Byte(b) => J::obj(vec![("lit", J::s("byte")), ("v", J::Int(*b as i128))]),
            LitKind::ByteStr(bs, _) => J::obj(vec![
                ("lit", J::s("bytestr")),
                ("v", J::Str(String::from_utf8_lossy(bs.as_byte_str()).to_string())),
            ]),
            _ => J::obj(vec![("lit", J::s("other"))]),
        }
    }

    fn pat(&self, p: &hir::Pat<'tcx>) -> J {
        use hir::PatKind::*;
        match &p.kind {
            Wild => J::obj(vec![("p", J::s("wild"))]),
            Binding(_mode, hid, ident, sub) => J::obj(vec![
                ("p", J::s("bind")),
                ("id", J::Str(format!("{}", hid.local_id.as_u32()))),
                ("name", J::Str(ident.name.to_string())),
                ("sub", sub.map(|s| self.pat(s)).unwrap_or(J::Null)),
            ]),
            Struct(q, fields, _) => {
                let fs: Vec<J> = fields
                    .iter()
                    .map(|f| J::obj(vec![("name", J::Str(f.ident.name.to_string())), ("pat", self.pat(f.pat))]))
                    .collect();
                J::obj(vec![("p", J::s("struct")), ("path", self.qpath(q, p.hir_id)), ("fields", J::Arr(fs))])
            }
            TupleStruct(q, pats, _) => J::obj(vec![
                ("p", J::s("tuplestruct")),
                ("path", self.qpath(q, p.hir_id)),
                ("pats", J::Arr(pats.iter().map(|x| self.pat(x)).collect())),
            ]),
            Or(pats) => J::obj(vec![("p", J::s("or")), ("pats", J::Arr(pats.iter().map(|x| self.pat(x)).collect()))]),
            Tuple(pats, _) => {
                J::obj(vec![("p", J::s("tuple")), ("pats", J::Arr(pats.iter().map(|x| self.pat(x)).collect()))])
            }
            Ref(inner, ..) | Box(inner) | Deref(inner) => J::obj(vec![("p", J::s("ref")), ("pat", self.pat(inner))]),
            Expr(pe) => match &pe.kind {
                hir::PatExprKind::Lit { lit, negated } => {
                    J::obj(vec![("p", J::s("lit")), ("lit", self.lit(lit, *negated))])
                }
                hir::PatExprKind::Path(q) => J::obj(vec![("p", J::s("path")), ("path", self.qpath(q, pe.hir_id))]),
            },
            Guard(inner, e) => {
                J::obj(vec![("p", J::s("guard")), ("pat", self.pat(inner)), ("cond", self.expr(e))])
            }
            Range(..) => J::obj(vec![("p", J::s("range"))]),
            Slice(a, m, b) => J::obj(vec![
                ("p", J::s("slice")),
                ("before", J::Arr(a.iter().map(|x| self.pat(x)).collect())),
                ("mid", m.map(|x| self.pat(x)).unwrap_or(J::Null)),
                ("after", J::Arr(b.iter().map(|x| self.pat(x)).collect())),
            ]),
            _ => J::obj(vec![("p", J::s("other"))]),
        }
    }

    fn block(&self, b: &hir::Block<'tcx>) -> J {
        let mut stmts = Vec::new();
        for s in b.stmts {
            match &s.kind {
                hir::StmtKind::Let(l) => {
                    stmts.push(J::obj(vec![
                        ("s", J::s("let")),
                        ("pat", self.pat(l.pat)),
                        ("init", l.init.map(|e| self.expr(e)).unwrap_or(J::Null)),
                        ("els", l.els.map(|b| self.block(b)).unwrap_or(J::Null)),
                        ("span", span_json(self.tcx, s.span)),
                    ]));
                }
                hir::StmtKind::Expr(e) | hir::StmtKind::Semi(e) => {
                    stmts.push(J::obj(vec![("s", J::s("expr")), ("e", self.expr(e))]));
                }
                hir::StmtKind::Item(_) => {}
            }
        }
        J::obj(vec![
            ("e", J::s("block")),
            ("stmts", J::Arr(stmts)),
            ("tail", b.expr.map(|e| self.expr(e)).unwrap_or(J::Null)),
            ("unsafe", J::Bool(matches!(b.rules, hir::BlockCheckMode::UnsafeBlock(_)))),
            ("span", span_json(self.tcx, b.span)),
        ])
    }

    fn exprs(&self, es: &[hir::Expr<'tcx>]) -> J {
        J::Arr(es.iter().map(|e| self.expr(e)).collect())
    }

    fn expr(&self, e: &hir::Expr<'tcx>) -> J {
        use hir::ExprKind::*;
        let mut f: Vec<(&str, J)> = Vec::new();
        match &e.kind {
            Array(es) => {
                f.push(("e", J::s("array")));
                f.push(("elems", self.exprs(es)));
            }
            Call(callee, args) => {
                f.push(("e", J::s("call")));
                f.push(("f", self.expr(callee)));
                f.push(("args", self.exprs(args)));
            }
            MethodCall(seg, recv, args, _) => {
                f.push(("e", J::s("mcall")));
                f.push(("method", J::Str(seg.ident.name.to_string())));
                if let Some(did) = self.tr.type_dependent_def_id(e.hir_id) {
                    f.push(("callee", J::Str(path_str(self.tcx, did))));
                }
                f.push(("recv", self.expr(recv)));
                f.push(("args", self.exprs(args)));
            }
            Tup(es) => {
                f.push(("e", J::s("tup")));
                f.push(("elems", self.exprs(es)));
            }
            Binary(op, a, b) => {
                f.push(("e", J::s("bin")));
                f.push(("op", J::Str(format!("{:?}", op.node))));
                f.push(("a", self.expr(a)));
                f.push(("b", self.expr(b)));
                if let Some(did) = self.tr.type_dependent_def_id(e.hir_id) {
                    f.push(("callee", J::Str(path_str(self.tcx, did))));
                }
            }
            Unary(op, a) => {
                f.push(("e", J::s("un")));
                f.push(("op", J::Str(format!("{:?}", op))));
                f.push(("a", self.expr(a)));
            }
            Lit(l) => {
                f.push(("e", J::s("lit")));
                f.push(("lit", self.lit(l, false)));
            }
            Cast(a, _) => {
                f.push(("e", J::s("cast")));
                f.push(("a", self.expr(a)));
                f.push(("to", J::Str(ty_str(self.tr.expr_ty(e)))));
            }
            Type(a, _) | DropTemps(a) | Use(a, _) => return self.expr(a),
            Let(l) => {
                f.push(("e", J::s("let")));
                f.push(("pat", self.pat(l.pat)));
                f.push(("init", self.expr(l.init)));
            }
            If(c, t, el) => {
                f.push(("e", J::s("if")));
                f.push(("cond", self.expr(c)));
                f.push(("then", self.expr(t)));
                f.push(("else", el.map(|x| self.expr(x)).unwrap_or(J::Null)));
            }
            Loop(b, _, src, _) => {
                f.push(("e", J::s("loop")));
                f.push(("source", J::Str(format!("{:?}", src))));
                f.push(("body", self.block(b)));
            }
            Match(scrut, arms, src) => {
                f.push(("e", J::s("match")));
                f.push(("source", J::Str(format!("{:?}", src).split(['(', '{']).next().unwrap_or("").to_string())));
                f.push(("scrut", self.expr(scrut)));
                let mut aj = Vec::new();
                for a in *arms {
                    aj.push(J::obj(vec![
                        ("pat", self.pat(a.pat)),
                        ("guard", a.guard.map(|g| self.expr(g)).unwrap_or(J::Null)),
                        ("body", self.expr(a.body)),
                    ]));
                }
                f.push(("arms", J::Arr(aj)));
            }
            Closure(c) => {
                f.push(("e", J::s("closure")));
                f.push(("def", J::Str(path_str(self.tcx, c.def_id.to_def_id()))));
                let body = self.tcx.hir_body(c.body);
                let inner_tr = self.tcx.typeck(c.def_id);
                let icx = Cx { tcx: self.tcx, tr: inner_tr };
                let mut params = Vec::new();
                for p in body.params {
                    params.push(icx.pat(p.pat));
                }
                f.push(("params", J::Arr(params)));
                f.push(("body", icx.expr(body.value)));
            }
            Block(b, _) => return self.block(b),
            Assign(l, r, _) => {
                f.push(("e", J::s("assign")));
                f.push(("lhs", self.expr(l)));
                f.push(("rhs", self.expr(r)));
            }
            AssignOp(op, l, r) => {
                f.push(("e", J::s("assignop")));
                f.push(("op", J::Str(format!("{:?}", op.node))));
                f.push(("lhs", self.expr(l)));
                f.push(("rhs", self.expr(r)));
                if let Some(did) = self.tr.type_dependent_def_id(e.hir_id) {
                    f.push(("callee", J::Str(path_str(self.tcx, did))));
                }
            }
            Field(a, ident) => {
                f.push(("e", J::s("field")));
                f.push(("a", self.expr(a)));
                f.push(("name", J::Str(ident.name.to_string())));
            }
            Index(a, i, _) => {
                f.push(("e", J::s("index")));
                f.push(("a", self.expr(a)));
                f.push(("i", self.expr(i)));
                if let Some(did) = self.tr.type_dependent_def_id(e.hir_id) {
                    f.push(("callee", J::Str(path_str(self.tcx, did))));
                }
                f.push(("a_ty", J::Str(ty_str(self.tr.expr_ty_adjusted(a)))));
            }
            Path(q) => {
                f.push(("e", J::s("path")));
                f.push(("path", self.qpath(q, e.hir_id)));
            }
            AddrOf(_, m, a) => {
                f.push(("e", J::s("addr")));
                f.push(("mut", J::Bool(m.is_mut())));
                f.push(("a", self.expr(a)));
            }
            Break(_, v) => {
                f.push(("e", J::s("break")));
                f.push(("v", v.map(|x| self.expr(x)).unwrap_or(J::Null)));
            }
            Continue(_) => f.push(("e", J::s("continue"))),
            Ret(v) => {
                f.push(("e", J::s("ret")));
                f.push(("v", v.map(|x| self.expr(x)).unwrap_or(J::Null)));
            }
            Struct(q, fields, tail) => {
                f.push(("e", J::s("struct")));
                f.push(("path", self.qpath(q, e.hir_id)));
                let fs: Vec<J> = fields
                    .iter()
                    .map(|fl| J::obj(vec![("name", J::Str(fl.ident.name.to_string())), ("v", self.expr(fl.expr))]))
                    .collect();
                f.push(("fields", J::Arr(fs)));
                if let hir::StructTailExpr::Base(b) = tail {
                    f.push(("base", self.expr(b)));
                }
            }
            Repeat(a, n) => {
                f.push(("e", J::s("repeat")));
                f.push(("a", self.expr(a)));
                let _ = n;
            }
            ConstBlock(_) => f.push(("e", J::s("constblock"))),
            _ => f.push(("e", J::s("other"))),
        }
        f.push(("ty", J::Str(ty_str(self.tr.expr_ty(e)))));
        f.push(("span", span_json(self.tcx, e.span)));
        J::obj(f)
    }
}
