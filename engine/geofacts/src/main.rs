// geofacts: rustc_private fact exporter for the static checks under /verif.
//
// Invoked by cargo as RUSTC_WORKSPACE_WRAPPER: argv = [geofacts, rustc, <rustc args...>].
// It compiles exactly as rustc would and, for workspace members only, writes one JSON
// fact file per compilation unit to $GEOFACTS_OUT/<crate>-<kind>-<pid>.json
// (MIR at the session's opt level, resolved HIR of every body, const initialisers,
// ADT layouts, trait impls, fn signatures).
#![feature(rustc_private)]
#![allow(clippy::all)]

extern crate rustc_abi;
extern crate rustc_ast;
extern crate rustc_driver;
extern crate rustc_hir;
extern crate rustc_interface;
extern crate rustc_middle;
extern crate rustc_session;
extern crate rustc_span;

mod hirx;
mod json;
mod mirx;

use json::J;
use rustc_driver::Compilation;
use rustc_hir::def::DefKind;
use rustc_middle::ty::TyCtxt;

struct Cb;

impl rustc_driver::Callbacks for Cb {
    fn after_analysis<'tcx>(
        &mut self,
        _compiler: &rustc_interface::interface::Compiler,
        tcx: TyCtxt<'tcx>,
    ) -> Compilation {
        export(tcx);
        Compilation::Continue
    }
}

pub fn span_json<'tcx>(tcx: TyCtxt<'tcx>, span: rustc_span::Span) -> J {
    let sm = tcx.sess.source_map();
    let root = span.source_callsite();
    let lo = sm.lookup_char_pos(root.lo());
    let hi = sm.lookup_char_pos(root.hi());
    let file = match &lo.file.name {
        rustc_span::FileName::Real(r) => match r.local_path() {
            Some(p) => p.to_string_lossy().to_string(),
            None => format!("{:?}", r),
        },
        other => format!("{:?}", other),
    };
    let exp = if span.from_expansion() {
        if let Some(k) = span.desugaring_kind() {
            J::Str(format!("desugar:{:?}", k))
        } else {
            let mut names = Vec::new();
            for e in span.macro_backtrace() {
                names.push(format!("{}", e.kind.descr()));
            }
            J::Str(format!("macro:{}", names.join("<")))
        }
    } else {
        J::Null
    };
    J::obj(vec![
        ("file", J::Str(file)),
        ("line", J::Int(lo.line as i128)),
        ("col", J::Int(lo.col.0 as i128 + 1)),
        ("eline", J::Int(hi.line as i128)),
        ("exp", exp),
    ])
}

pub fn ty_str<'tcx>(ty: rustc_middle::ty::Ty<'tcx>) -> String {
    rustc_middle::ty::print::with_no_trimmed_paths!(format!("{}", ty))
}

pub fn path_str<'tcx>(tcx: TyCtxt<'tcx>, did: rustc_hir::def_id::DefId) -> String {
    rustc_middle::ty::print::with_no_trimmed_paths!(tcx.def_path_str(did))
}

fn export<'tcx>(tcx: TyCtxt<'tcx>) {
    let out_dir = match std::env::var("GEOFACTS_OUT") {
        Ok(d) => d,
        Err(_) => return,
    };
    let crate_name = tcx.crate_name(rustc_hir::def_id::LOCAL_CRATE).to_string();
    let crate_types: Vec<String> =
        tcx.crate_types().iter().map(|c| format!("{:?}", c)).collect();
    let is_test = tcx.sess.opts.test;

    let mut fns: Vec<(String, J)> = Vec::new();
    let mut consts: Vec<(String, J)> = Vec::new();

    for ldid in tcx.hir_body_owners() {
        let did = ldid.to_def_id();
        let kind = tcx.def_kind(did);
        let name = path_str(tcx, did);
        match kind {
            DefKind::Fn | DefKind::AssocFn | DefKind::Closure => {
                let mut fields: Vec<(&str, J)> = Vec::new();
                fields.push(("kind", J::Str(format!("{:?}", kind))));
                fields.push(("span", span_json(tcx, tcx.def_span(did))));
                if matches!(kind, DefKind::Fn | DefKind::AssocFn) {
                    let vis = tcx.visibility(did);
                    fields.push(("vis", J::Str(format!("{:?}", vis))));
                    let sig = tcx.fn_sig(did).instantiate_identity().skip_norm_wip();
                    fields.push((
                        "sig",
                        J::Str(rustc_middle::ty::print::with_no_trimmed_paths!(format!(
                            "{}",
                            sig
                        ))),
                    ));
                    if let Some(parent) = tcx.opt_parent(did) {
                        if matches!(tcx.def_kind(parent), DefKind::Impl { .. }) {
                            let self_ty = tcx.type_of(parent).instantiate_identity().skip_norm_wip();
                            fields.push(("impl_self", J::Str(ty_str(self_ty))));
                            if let Some(tr) = tcx.impl_opt_trait_ref(parent) {
                                let tr = tr.instantiate_identity().skip_norm_wip();
                                fields.push(("impl_trait", J::Str(path_str(tcx, tr.def_id))));
                            }
                        } else if matches!(tcx.def_kind(parent), DefKind::Trait) {
                            fields.push(("trait_default", J::Str(path_str(tcx, parent))));
                        }
                    }
                }
                fields.push(("mir", mirx::body_json(tcx, ldid)));
                fields.push(("hir", hirx::body_json(tcx, ldid)));
                fns.push((name, J::obj(fields)));
            }
            DefKind::Const { .. } | DefKind::Static { .. } | DefKind::AssocConst { .. } => {
                let ty = tcx.type_of(did).instantiate_identity().skip_norm_wip();
                let mut fields: Vec<(&str, J)> = Vec::new();
                fields.push(("kind", J::Str(format!("{:?}", kind))));
                fields.push(("ty", J::Str(ty_str(ty))));
                fields.push(("span", span_json(tcx, tcx.def_span(did))));
                fields.push(("hir", hirx::body_json(tcx, ldid)));
                // the compiler's own evaluation of integer constants (robust against `const fn` / arithmetic spellings)
                if ty.is_integral() && matches!(kind, DefKind::Const { .. } | DefKind::AssocConst { .. }) {
                    if let Ok(val) = tcx.const_eval_poly(did) {
                        if let Some(si) = val.try_to_scalar_int() {
                            let bits = si.to_bits(si.size());
                            fields.push(("eval", J::Str(format!("{}", bits))));
                        }
                    }
                }
                consts.push((name, J::obj(fields)));
            }
            _ => {}
        }
    }

    // ADTs, traits, impls
    let mut adts: Vec<(String, J)> = Vec::new();
    let mut impls: Vec<J> = Vec::new();
    let mut traits: Vec<(String, J)> = Vec::new();
    let typing_env = rustc_middle::ty::TypingEnv::fully_monomorphized();
    for id in tcx.hir_free_items() {
        let did = id.owner_id.to_def_id();
        match tcx.def_kind(did) {
            DefKind::Struct | DefKind::Enum | DefKind::Union => {
                let adt = tcx.adt_def(did);
                let mut variants = Vec::new();
                for v in adt.variants() {
                    let mut fs = Vec::new();
                    for f in v.fields.iter() {
                        let fty = tcx.type_of(f.did).instantiate_identity().skip_norm_wip();
                        fs.push(J::obj(vec![
                            ("name", J::Str(f.name.to_string())),
                            ("ty", J::Str(ty_str(fty))),
                            ("vis", J::Str(format!("{:?}", f.vis))),
                        ]));
                    }
                    variants.push(J::obj(vec![
                        ("name", J::Str(v.name.to_string())),
                        ("fields", J::Arr(fs)),
                    ]));
                }
                let generics = tcx.generics_of(did);
                let self_ty = tcx.type_of(did).instantiate_identity().skip_norm_wip();
                let freeze = if generics.is_empty() {
                    J::Bool(self_ty.is_freeze(tcx, typing_env))
                } else {
                    J::Null
                };
                adts.push((
                    path_str(tcx, did),
                    J::obj(vec![
                        ("kind", J::Str(format!("{:?}", tcx.def_kind(did)))),
                        ("vis", J::Str(format!("{:?}", tcx.visibility(did)))),
                        ("variants", J::Arr(variants)),
                        ("freeze", freeze),
                        ("span", span_json(tcx, tcx.def_span(did))),
                    ]),
                ));
            }
            DefKind::Trait => {
                let mut methods = Vec::new();
                for item in tcx.associated_items(did).in_definition_order() {
                    if matches!(item.kind, rustc_middle::ty::AssocKind::Fn { .. }) {
                        let sig = tcx.fn_sig(item.def_id).instantiate_identity().skip_norm_wip();
                        methods.push(J::obj(vec![
                            ("name", J::Str(item.name().to_string())),
                            (
                                "sig",
                                J::Str(rustc_middle::ty::print::with_no_trimmed_paths!(format!(
                                    "{}",
                                    sig
                                ))),
                            ),
                            ("has_default", J::Bool(item.defaultness(tcx).has_value())),
                        ]));
                    }
                }
                traits.push((path_str(tcx, did), J::obj(vec![("methods", J::Arr(methods))])));
            }
            DefKind::Impl { .. } => {
                let self_ty = tcx.type_of(did).instantiate_identity().skip_norm_wip();
                let tr = tcx
                    .impl_opt_trait_ref(did)
                    .map(|t| path_str(tcx, t.instantiate_identity().skip_norm_wip().def_id));
                let mut methods = Vec::new();
                for item in tcx.associated_items(did).in_definition_order() {
                    methods.push(J::Str(item.name().to_string()));
                }
                impls.push(J::obj(vec![
                    ("self", J::Str(ty_str(self_ty))),
                    ("trait", tr.map(J::Str).unwrap_or(J::Null)),
                    ("items", J::Arr(methods)),
                    ("span", span_json(tcx, tcx.def_span(did))),
                ]));
            }
            _ => {}
        }
    }

    let nfns = fns.len();
    let root = J::obj(vec![
        ("crate", J::Str(crate_name.clone())),
        ("crate_types", J::Arr(crate_types.iter().cloned().map(J::Str).collect())),
        ("is_test", J::Bool(is_test)),
        ("n_fns", J::Int(nfns as i128)),
        ("fns", J::Obj(fns)),
        ("consts", J::Obj(consts)),
        ("adts", J::Obj(adts)),
        ("traits", J::Obj(traits)),
        ("impls", J::Arr(impls)),
    ]);
    let kind = if is_test {
        "test".to_string()
    } else {
        crate_types.join("+").to_lowercase()
    };
    let path = format!("{}/{}-{}-{}.json", out_dir, crate_name, kind, std::process::id());
    let tmp = format!("{}.tmp", path);
    let mut s = String::new();
    root.write(&mut s);
    std::fs::write(&tmp, s).expect("geofacts: cannot write fact file");
    std::fs::rename(&tmp, &path).expect("geofacts: cannot rename fact file");
}

fn main() {
    let mut args: Vec<String> = std::env::args().collect();
    // RUSTC_WORKSPACE_WRAPPER: argv[1] is the path of the real rustc; drop it.
    if args.len() > 1 && (args[1].ends_with("rustc") || args[1].contains("/rustc")) {
        args.remove(1);
    }
    let mut cb = Cb;
    rustc_driver::run_compiler(&args, &mut cb);
}
