// MIR -> JSON
use crate::json::J;
use crate::{path_str, span_json, ty_str};
use rustc_hir::def_id::LocalDefId;
use rustc_middle::mir::*;
use rustc_middle::ty::{self, Instance, TyCtxt, TypingEnv};

pub fn body_json<'tcx>(tcx: TyCtxt<'tcx>, ldid: LocalDefId) -> J {
    let did = ldid.to_def_id();
    let body = tcx.optimized_mir(did);
    let mut fields = one_body(tcx, body, did);
    // promoted constants of this body
    let promoted = tcx.promoted_mir(did);
    let mut ps = Vec::new();
    for p in promoted.iter() {
        ps.push(J::Obj(
            one_body(tcx, p, did).into_iter().map(|(k, v)| (k.to_string(), v)).collect(),
        ));
    }
    fields.push(("promoted", J::Arr(ps)));
    J::Obj(fields.into_iter().map(|(k, v)| (k.to_string(), v)).collect())
}

fn one_body<'tcx>(
    tcx: TyCtxt<'tcx>,
    body: &Body<'tcx>,
    did: rustc_hir::def_id::DefId,
) -> Vec<(&'static str, J)> {
    let typing_env = TypingEnv::post_analysis(tcx, did);
    let mut locals = Vec::new();
    for (_l, decl) in body.local_decls.iter_enumerated() {
        locals.push(J::obj(vec![
            ("ty", J::Str(ty_str(decl.ty))),
            ("mut", J::Bool(decl.mutability.is_mut())),
        ]));
    }
    let mut dbg = Vec::new();
    for v in body.var_debug_info.iter() {
        let val = match &v.value {
            VarDebugInfoContents::Place(p) => place_json(tcx, p),
            VarDebugInfoContents::Const(c) => J::obj(vec![("const", const_json(tcx, typing_env, &c.const_))]),
        };
        dbg.push(J::obj(vec![
            ("name", J::Str(v.name.to_string())),
            ("value", val),
            ("arg", v.argument_index.map(|i| J::Int(i as i128)).unwrap_or(J::Null)),
            ("span", span_json(tcx, v.source_info.span)),
        ]));
    }
    let mut blocks = Vec::new();
    for (_bb, data) in body.basic_blocks.iter_enumerated() {
        let mut stmts = Vec::new();
        for s in data.statements.iter() {
            if let Some(j) = stmt_json(tcx, typing_env, body, s) {
                stmts.push(j);
            }
        }
        let term = term_json(tcx, typing_env, body, data.terminator());
        blocks.push(J::obj(vec![
            ("stmts", J::Arr(stmts)),
            ("term", term),
            ("cleanup", J::Bool(data.is_cleanup)),
        ]));
    }
    vec![
        ("arg_count", J::Int(body.arg_count as i128)),
        ("locals", J::Arr(locals)),
        ("debug", J::Arr(dbg)),
        ("blocks", J::Arr(blocks)),
    ]
}

fn place_json<'tcx>(tcx: TyCtxt<'tcx>, p: &Place<'tcx>) -> J {
    let mut proj = Vec::new();
    for e in p.projection.iter() {
        proj.push(match e {
            ProjectionElem::Deref => J::s("deref"),
            ProjectionElem::Field(f, ty) => {
                J::obj(vec![("f", J::Int(f.index() as i128)), ("ty", J::Str(ty_str(ty)))])
            }
            ProjectionElem::Index(l) => J::obj(vec![("idx", J::Int(l.index() as i128))]),
            ProjectionElem::ConstantIndex { offset, min_length, from_end } => J::obj(vec![
                ("cidx", J::Int(offset as i128)),
                ("min_len", J::Int(min_length as i128)),
                ("from_end", J::Bool(from_end)),
            ]),
            ProjectionElem::Subslice { from, to, from_end } => J::obj(vec![
                ("sub_from", J::Int(from as i128)),
                ("sub_to", J::Int(to as i128)),
                ("from_end", J::Bool(from_end)),
            ]),
            ProjectionElem::Downcast(name, idx) => J::obj(vec![
                ("variant", J::Int(idx.index() as i128)),
                ("vname", name.map(|s| J::Str(s.to_string())).unwrap_or(J::Null)),
            ]),
            ProjectionElem::OpaqueCast(_) => J::s("opaque"),
            ProjectionElem::UnwrapUnsafeBinder(_) => J::s("unwrap_binder"),
        });
    }
    let _ = tcx;
    J::obj(vec![("l", J::Int(p.local.index() as i128)), ("p", J::Arr(proj))])
}

fn scalar_json<'tcx>(tcx: TyCtxt<'tcx>, s: rustc_middle::mir::interpret::Scalar, ty: ty::Ty<'tcx>) -> J {
    use rustc_middle::mir::interpret::Scalar;
    match s {
        Scalar::Int(i) => {
            let size = i.size();
            let bits = i.to_bits(size);
            match ty.kind() {
                ty::Bool => J::obj(vec![("bool", J::Bool(bits != 0))]),
                ty::Char => J::obj(vec![(
                    "char",
                    J::Str(char::from_u32(bits as u32).map(|c| c.to_string()).unwrap_or_default()),
                )]),
                ty::Int(_) => {
                    let v = i.to_int(size);
                    J::obj(vec![("int", J::Int(v))])
                }
                ty::Uint(_) => J::obj(vec![("int", J::Int(bits as i128))]),
                ty::Float(ft) => {
                    let (val, bitw) = match ft.bit_width() {
                        32 => (f32::from_bits(bits as u32) as f64, 32),
                        64 => (f64::from_bits(bits as u64), 64),
                        w => (f64::NAN, w),
                    };
                    J::obj(vec![
                        ("float", J::Str(format!("{:?}", val))),
                        ("bits", J::Str(format!("{:#x}", bits))),
                        ("width", J::Int(bitw as i128)),
                    ])
                }
                _ => J::obj(vec![("raw", J::Str(format!("{:#x}", bits)))]),
            }
        }
        Scalar::Ptr(p, _) => {
            // pointer to a static or allocation
            let (prov, _off) = p.into_raw_parts();
            let alloc_id = prov.alloc_id();
            match tcx.try_get_global_alloc(alloc_id) {
                Some(rustc_middle::mir::interpret::GlobalAlloc::Static(d)) => {
                    J::obj(vec![("static", J::Str(path_str(tcx, d)))])
                }
                Some(rustc_middle::mir::interpret::GlobalAlloc::Function { instance }) => {
                    J::obj(vec![("fnptr", J::Str(path_str(tcx, instance.def_id())))])
                }
                _ => J::obj(vec![("ptr", J::s("alloc"))]),
            }
        }
    }
}

pub fn const_json<'tcx>(tcx: TyCtxt<'tcx>, typing_env: TypingEnv<'tcx>, c: &Const<'tcx>) -> J {
    let ty = c.ty();
    let mut fields: Vec<(&str, J)> = vec![("ty", J::Str(ty_str(ty)))];
    // function items
    if let ty::FnDef(fdid, args) = ty.kind() {
        fields.push(("fn", J::Str(path_str(tcx, *fdid))));
        fields.push((
            "fn_full",
            J::Str(rustc_middle::ty::print::with_no_trimmed_paths!(
                tcx.def_path_str_with_args(*fdid, args)
            )),
        ));
        if let Ok(Some(inst)) = Instance::try_resolve(tcx, typing_env, *fdid, args) {
            fields.push(("fn_resolved", J::Str(path_str(tcx, inst.def_id()))));
        }
        return J::obj(fields);
    }
    let mut val: Option<ConstValue> = None;
    match c {
        Const::Val(v, _) => val = Some(*v),
        Const::Unevaluated(u, _) => {
            fields.push(("path", J::Str(path_str(tcx, u.def))));
            if let Some(p) = u.promoted {
                fields.push(("promoted", J::Int(p.index() as i128)));
            } else if !c.has_non_region_param_public() {
                if let Ok(v) = c.eval(tcx, typing_env, rustc_span::DUMMY_SP) {
                    val = Some(v);
                }
            }
        }
        Const::Ty(_, tc) => {
            fields.push(("tyconst", J::Str(format!("{:?}", tc))));
            if !c.has_non_region_param_public() {
                if let Ok(v) = c.eval(tcx, typing_env, rustc_span::DUMMY_SP) {
                    val = Some(v);
                }
            }
        }
    }
    if let Some(v) = val {
        match v {
            ConstValue::Scalar(s) => fields.push(("v", scalar_json(tcx, s, ty))),
            ConstValue::ZeroSized => fields.push(("v", J::s("zst"))),
            ConstValue::Slice { .. } => {
                let is_str = matches!(ty.kind(), ty::Ref(_, inner, _) if inner.is_str());
                if is_str {
                    if let Some(bytes) = v.try_get_slice_bytes_for_diagnostics(tcx) {
                        fields.push((
                            "v",
                            J::obj(vec![("str", J::Str(String::from_utf8_lossy(bytes).to_string()))]),
                        ));
                    }
                } else {
                    fields.push(("v", J::s("slice")));
                }
            }
            ConstValue::Indirect { .. } => {
                let is_str = matches!(ty.kind(), ty::Ref(_, inner, _) if inner.is_str());
                if is_str {
                    if let Some(bytes) = v.try_get_slice_bytes_for_diagnostics(tcx) {
                        fields.push((
                            "v",
                            J::obj(vec![("str", J::Str(String::from_utf8_lossy(bytes).to_string()))]),
                        ));
                    }
                } else {
                    fields.push(("v", J::s("indirect")));
                }
            }
        }
    }
    J::obj(fields)
}

trait HasParam {
    fn has_non_region_param_public(&self) -> bool;
}
impl<'tcx> HasParam for Const<'tcx> {
    fn has_non_region_param_public(&self) -> bool {
        use rustc_middle::ty::TypeVisitableExt;
        match self {
            Const::Unevaluated(u, t) => u.args.has_non_region_param() || t.has_non_region_param(),
            Const::Ty(t, c) => t.has_non_region_param() || c.has_non_region_param(),
            Const::Val(_, t) => t.has_non_region_param(),
        }
    }
}

fn operand_json<'tcx>(tcx: TyCtxt<'tcx>, typing_env: TypingEnv<'tcx>, o: &Operand<'tcx>) -> J {
    match o {
        Operand::Copy(p) => J::obj(vec![("copy", place_json(tcx, p))]),
        Operand::Move(p) => J::obj(vec![("move", place_json(tcx, p))]),
        Operand::Constant(c) => J::obj(vec![("const", const_json(tcx, typing_env, &c.const_))]),
        #[allow(unreachable_patterns)]
        _ => J::obj(vec![("other", J::Str(format!("{:?}", o)))]),
    }
}

fn rvalue_json<'tcx>(
    tcx: TyCtxt<'tcx>,
    typing_env: TypingEnv<'tcx>,
    body: &Body<'tcx>,
    rv: &Rvalue<'tcx>,
) -> J {
    let _ = body;
    match rv {
        Rvalue::Use(o, ..) => J::obj(vec![("k", J::s("use")), ("a", operand_json(tcx, typing_env, o))]),
        Rvalue::Repeat(o, n) => J::obj(vec![
            ("k", J::s("repeat")),
            ("a", operand_json(tcx, typing_env, o)),
            ("n", J::Str(format!("{:?}", n))),
        ]),
        Rvalue::Ref(_, bk, p) => J::obj(vec![
            ("k", J::s("ref")),
            ("mut", J::Bool(matches!(bk, BorrowKind::Mut { .. }))),
            ("place", place_json(tcx, p)),
        ]),
        Rvalue::RawPtr(kind, p) => J::obj(vec![
            ("k", J::s("rawptr")),
            ("kind", J::Str(format!("{:?}", kind))),
            ("place", place_json(tcx, p)),
        ]),
        Rvalue::ThreadLocalRef(d) => {
            J::obj(vec![("k", J::s("tls")), ("static", J::Str(path_str(tcx, *d)))])
        }
        Rvalue::Cast(kind, o, ty) => J::obj(vec![
            ("k", J::s("cast")),
            ("kind", J::Str(format!("{:?}", kind))),
            ("a", operand_json(tcx, typing_env, o)),
            ("ty", J::Str(ty_str(*ty))),
        ]),
        Rvalue::BinaryOp(op, ab) => J::obj(vec![
            ("k", J::s("bin")),
            ("op", J::Str(format!("{:?}", op))),
            ("a", operand_json(tcx, typing_env, &ab.0)),
            ("b", operand_json(tcx, typing_env, &ab.1)),
        ]),
        Rvalue::UnaryOp(op, o) => J::obj(vec![
            ("k", J::s("un")),
            ("op", J::Str(format!("{:?}", op))),
            ("a", operand_json(tcx, typing_env, o)),
        ]),
        Rvalue::Discriminant(p) => J::obj(vec![("k", J::s("discr")), ("place", place_json(tcx, p))]),
        Rvalue::Aggregate(kind, ops) => {
            let mut fields: Vec<(&str, J)> = vec![("k", J::s("agg"))];
            match &**kind {
                AggregateKind::Array(t) => {
                    fields.push(("agg", J::s("array")));
                    fields.push(("elem_ty", J::Str(ty_str(*t))));
                }
                AggregateKind::Tuple => fields.push(("agg", J::s("tuple"))),
                AggregateKind::Adt(did, variant, _args, _, active) => {
                    fields.push(("agg", J::s("adt")));
                    fields.push(("adt", J::Str(path_str(tcx, *did))));
                    fields.push(("variant", J::Int(variant.index() as i128)));
                    let adt = tcx.adt_def(*did);
                    let v = adt.variant(*variant);
                    fields.push(("vname", J::Str(v.name.to_string())));
                    let names: Vec<J> =
                        v.fields.iter().map(|f| J::Str(f.name.to_string())).collect();
                    fields.push(("fields", J::Arr(names)));
                    if let Some(a) = active {
                        fields.push(("active", J::Int(a.index() as i128)));
                    }
                }
                AggregateKind::Closure(did, _) => {
                    fields.push(("agg", J::s("closure")));
                    fields.push(("closure", J::Str(path_str(tcx, *did))));
                }
                other => {
                    fields.push(("agg", J::Str(format!("{:?}", other))));
                }
            }
            let opsj: Vec<J> = ops.iter().map(|o| operand_json(tcx, typing_env, o)).collect();
            fields.push(("ops", J::Arr(opsj)));
            J::obj(fields)
        }
        Rvalue::CopyForDeref(p) => J::obj(vec![
            ("k", J::s("use")),
            ("a", J::obj(vec![("copy", place_json(tcx, p))])),
            ("deref_copy", J::Bool(true)),
        ]),
        other => J::obj(vec![("k", J::s("other")), ("dbg", J::Str(format!("{:?}", other)))]),
    }
}

fn stmt_json<'tcx>(
    tcx: TyCtxt<'tcx>,
    typing_env: TypingEnv<'tcx>,
    body: &Body<'tcx>,
    s: &Statement<'tcx>,
) -> Option<J> {
    let span = span_json(tcx, s.source_info.span);
    match &s.kind {
        StatementKind::Assign(b) => {
            let (p, rv) = &**b;
            Some(J::obj(vec![
                ("k", J::s("assign")),
                ("place", place_json(tcx, p)),
                ("rv", rvalue_json(tcx, typing_env, body, rv)),
                ("span", span),
            ]))
        }
        StatementKind::SetDiscriminant { place, variant_index } => Some(J::obj(vec![
            ("k", J::s("setdiscr")),
            ("place", place_json(tcx, place)),
            ("variant", J::Int(variant_index.index() as i128)),
            ("span", span),
        ])),
        StatementKind::Intrinsic(i) => Some(J::obj(vec![
            ("k", J::s("intrinsic")),
            ("dbg", J::Str(format!("{:?}", i))),
            ("span", span),
        ])),
        StatementKind::StorageLive(_)
        | StatementKind::StorageDead(_)
        | StatementKind::Nop
        | StatementKind::FakeRead(_)
        | StatementKind::PlaceMention(_)
        | StatementKind::AscribeUserType(..)
        | StatementKind::Coverage(..)
        | StatementKind::ConstEvalCounter
        | StatementKind::BackwardIncompatibleDropHint { .. } => None,
        #[allow(unreachable_patterns)]
        _ => None,
    }
}

fn unwind_json(u: &UnwindAction) -> J {
    match u {
        UnwindAction::Cleanup(bb) => J::Int(bb.index() as i128),
        _ => J::Null,
    }
}

fn term_json<'tcx>(
    tcx: TyCtxt<'tcx>,
    typing_env: TypingEnv<'tcx>,
    body: &Body<'tcx>,
    t: &Terminator<'tcx>,
) -> J {
    let span = span_json(tcx, t.source_info.span);
    match &t.kind {
        TerminatorKind::Goto { target } => {
            J::obj(vec![("k", J::s("goto")), ("target", J::Int(target.index() as i128)), ("span", span)])
        }
        TerminatorKind::SwitchInt { discr, targets } => {
            let mut ts = Vec::new();
            for (v, bb) in targets.iter() {
                ts.push(J::Arr(vec![J::Int(v as i128), J::Int(bb.index() as i128)]));
            }
            let dty = discr.ty(body, tcx);
            J::obj(vec![
                ("k", J::s("switch")),
                ("discr", operand_json(tcx, typing_env, discr)),
                ("discr_ty", J::Str(ty_str(dty))),
                ("targets", J::Arr(ts)),
                ("otherwise", J::Int(targets.otherwise().index() as i128)),
                ("span", span),
            ])
        }
        TerminatorKind::Return => J::obj(vec![("k", J::s("return")), ("span", span)]),
        TerminatorKind::Unreachable => J::obj(vec![("k", J::s("unreachable")), ("span", span)]),
        TerminatorKind::UnwindResume => J::obj(vec![("k", J::s("resume")), ("span", span)]),
        TerminatorKind::UnwindTerminate(_) => J::obj(vec![("k", J::s("terminate")), ("span", span)]),
        TerminatorKind::Drop { place, target, unwind, .. } => J::obj(vec![
            ("k", J::s("drop")),
            ("place", place_json(tcx, place)),
            ("target", J::Int(target.index() as i128)),
            ("unwind", unwind_json(unwind)),
            ("span", span),
        ]),
        TerminatorKind::Call { func, args, destination, target, unwind, fn_span, .. } => {
            let mut fields: Vec<(&str, J)> = vec![("k", J::s("call"))];
            let fty = func.ty(body, tcx);
            match fty.kind() {
                ty::FnDef(fdid, gargs) => {
                    fields.push(("callee", J::Str(path_str(tcx, *fdid))));
                    fields.push((
                        "callee_full",
                        J::Str(rustc_middle::ty::print::with_no_trimmed_paths!(
                            tcx.def_path_str_with_args(*fdid, gargs)
                        )),
                    ));
                    let mut ga = Vec::new();
                    for a in gargs.iter() {
                        if let Some(t) = a.as_type() {
                            ga.push(J::Str(ty_str(t)));
                        }
                    }
                    fields.push(("targs", J::Arr(ga)));
                    match Instance::try_resolve(tcx, typing_env, *fdid, gargs) {
                        Ok(Some(inst)) => {
                            fields.push(("resolved", J::Str(path_str(tcx, inst.def_id()))));
                            let kind = match inst.def {
                                ty::InstanceKind::Item(_) => "item",
                                ty::InstanceKind::Virtual(..) => "virtual",
                                ty::InstanceKind::Intrinsic(_) => "intrinsic",
                                ty::InstanceKind::FnPtrShim(..) => "fnptrshim",
                                ty::InstanceKind::ClosureOnceShim { .. } => "closureonce",
                                ty::InstanceKind::ReifyShim(..) => "reify",
                                ty::InstanceKind::CloneShim(..) => "cloneshim",
                                ty::InstanceKind::DropGlue(..) => "dropglue",
                                _ => "othershim",
                            };
                            fields.push(("inst", J::s(kind)));
                            fields.push(("resolved_local", J::Bool(inst.def_id().is_local())));
                        }
                        _ => {
                            fields.push(("resolved", J::Null));
                        }
                    }
                }
                _ => {
                    fields.push(("callee", J::Null));
                    fields.push(("fnptr", operand_json(tcx, typing_env, func)));
                    fields.push(("fnptr_ty", J::Str(ty_str(fty))));
                }
            }
            let aj: Vec<J> = args.iter().map(|a| operand_json(tcx, typing_env, &a.node)).collect();
            fields.push(("args", J::Arr(aj)));
            fields.push(("dest", place_json(tcx, destination)));
            fields.push(("target", target.map(|t| J::Int(t.index() as i128)).unwrap_or(J::Null)));
            fields.push(("unwind", unwind_json(unwind)));
            fields.push(("span", span));
            fields.push(("fn_span", span_json(tcx, *fn_span)));
            J::obj(fields)
        }
        TerminatorKind::Assert { cond, expected, msg, target, unwind } => {
            let kind = match &**msg {
                AssertKind::BoundsCheck { .. } => "BoundsCheck".to_string(),
                AssertKind::Overflow(op, ..) => format!("Overflow({:?})", op),
                AssertKind::OverflowNeg(_) => "OverflowNeg".to_string(),
                AssertKind::DivisionByZero(_) => "DivisionByZero".to_string(),
                AssertKind::RemainderByZero(_) => "RemainderByZero".to_string(),
                other => format!("{:?}", other).split('(').next().unwrap_or("").to_string(),
            };
            let mut fields: Vec<(&str, J)> = vec![
                ("k", J::s("assert")),
                ("cond", operand_json(tcx, typing_env, cond)),
                ("expected", J::Bool(*expected)),
                ("msg", J::Str(kind)),
                ("target", J::Int(target.index() as i128)),
                ("unwind", unwind_json(unwind)),
                ("span", span),
            ];
            if let AssertKind::BoundsCheck { len, index } = &**msg {
                fields.push(("len", operand_json(tcx, typing_env, len)));
                fields.push(("index", operand_json(tcx, typing_env, index)));
            }
            if let AssertKind::DivisionByZero(o) | AssertKind::RemainderByZero(o) = &**msg {
                fields.push(("divisor", operand_json(tcx, typing_env, o)));
            }
            J::obj(fields)
        }
        other => J::obj(vec![
            ("k", J::s("other")),
            ("dbg", J::Str(format!("{:?}", other).chars().take(200).collect())),
            ("span", span),
        ]),
    }
}
