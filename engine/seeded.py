#!/usr/bin/env python3
"""Seeded changes (written by independent sub-agents): confirmation and detection runs.

  seeded.py confirm <srcdir> <id>   confirm a candidate (patch.diff, demo.rs, meta.json in <srcdir>) in a scratch
                                    worktree of /repo: it must apply, compile, pass the pinned test suite, and the demo
                                    must fail with the change and pass without it; on success it is stored as
                                    /verif/seeded/<id>/
  seeded.py detect [<id>...]        apply each stored change to a scratch copy of /repo (never to /repo itself), run the
                                    quick checks of all claimed properties, and record which obligations fire
"""
import json
import os
import shutil
import subprocess
import sys
import tempfile

HERE = os.path.dirname(os.path.abspath(__file__))
VERIF = os.path.dirname(HERE)
SEEDED = os.path.join(VERIF, "seeded")


def sh(cmd, cwd=None, env=None, timeout=3600):
    e = dict(os.environ)
    e["CARGO_NET_OFFLINE"] = "true"
    if env:
        e.update(env)
    r = subprocess.run(cmd, cwd=cwd, env=e, shell=isinstance(cmd, str), stdout=subprocess.PIPE,
                       stderr=subprocess.STDOUT, text=True, timeout=timeout)
    return r.returncode, r.stdout


def confirm(src, sid, slot="0"):
    wt = "/tmp/seedconf-%s" % slot
    tgt = "/tmp/seedconf-%s-target" % slot
    log = {}
    if os.path.exists(wt):
        sh("git -C /repo worktree remove --force %s" % wt)
    rc, out = sh("git -C /repo worktree add -f --detach %s HEAD" % wt)
    if rc != 0:
        return False, {"error": out[-500:]}
    try:
        patch = os.path.join(src, "patch.diff")
        rc, out = sh(["git", "apply", "--whitespace=nowarn", patch], cwd=wt)
        if rc != 0:
            rc, out = sh(["git", "apply", "--3way", "--whitespace=nowarn", patch], cwd=wt)
        if rc != 0:
            return False, {"error": "patch does not apply to /repo HEAD: " + out[-400:]}
        env = {"CARGO_TARGET_DIR": tgt}
        rc, out = sh("cargo nextest run --workspace --no-fail-fast --test-threads 8 --offline 2>&1 | tail -5", cwd=wt, env=env)
        log["tests_with_change"] = out.strip().splitlines()[-1] if out.strip() else ""
        if "137 passed" not in out or "failed" in out.split("Summary")[-1]:
            return False, {"error": "test suite does not pass with the change", "tail": out[-600:]}
        os.makedirs(os.path.join(wt, "examples"), exist_ok=True)
        shutil.copy(os.path.join(src, "demo.rs"), os.path.join(wt, "examples", "seeded_demo.rs"))
        rc1, out1 = sh("timeout 300 cargo run --offline -q --example seeded_demo 2>&1 | tail -15", cwd=wt, env=env)
        rc1, out1b = sh("timeout 300 cargo run --offline -q --example seeded_demo >/dev/null 2>&1; echo rc=$?", cwd=wt, env=env)
        log["demo_with_change"] = out1b.strip()
        with_fails = "rc=0" not in out1b
        rcr, outr = sh(["git", "apply", "-R", "--whitespace=nowarn", patch], cwd=wt)
        if rcr != 0:
            return False, {"error": "patch applied only by 3-way merge and cannot be reversed: re-base it first", "log": log}
        import time as _t
        _t.sleep(1.1)
        for line in open(patch):
            if line.startswith("+++ b/"):
                sh(["touch", line[6:].strip()], cwd=wt)
        rc2, out2b = sh("timeout 300 cargo run --offline -q --example seeded_demo >/dev/null 2>&1; echo rc=$?", cwd=wt, env=env)
        log["demo_without_change"] = out2b.strip()
        without_passes = "rc=0" in out2b
        if not (with_fails and without_passes):
            return False, {"error": "demo does not discriminate", "log": log, "out": out1[-500:]}
        dst = os.path.join(SEEDED, sid)
        os.makedirs(dst, exist_ok=True)
        # store the patch as it applies to the current /repo HEAD
        sh(["git", "apply", "--whitespace=nowarn", patch], cwd=wt)
        rc, diff = sh("git diff -- src", cwd=wt)
        open(os.path.join(dst, "patch.diff"), "w").write(diff)
        shutil.copy(os.path.join(src, "demo.rs"), os.path.join(dst, "demo.rs"))
        meta = json.load(open(os.path.join(src, "meta.json")))
        rc, head = sh("git -C /repo rev-parse --short HEAD")
        meta["confirmed"] = {"repo_head": head.strip(), "ran": [
            "git worktree add <scratch> HEAD; git apply patch.diff",
            "cargo nextest run --workspace --offline  -> " + log["tests_with_change"],
            "cargo run --example seeded_demo (with change) -> " + log["demo_with_change"],
            "git apply -R patch.diff; cargo run --example seeded_demo (without change) -> " + log["demo_without_change"]]}
        json.dump(meta, open(os.path.join(dst, "meta.json"), "w"), indent=1)
        return True, log
    finally:
        sh("git -C /repo worktree remove --force %s" % wt)


def claimed():
    man = json.load(open(os.path.join(VERIF, "MANIFEST.json")))
    return [c["property_id"] for c in man["checks"]]


def detect(sid, props=None):
    import selftest_run
    d = selftest_run.make_copy("/repo")
    res = {}
    try:
        rc, out = sh(["git", "init", "-q"], cwd=d)
        rc, out = sh(["git", "apply", "--whitespace=nowarn", os.path.join(SEEDED, sid, "patch.diff")], cwd=d)
        if rc != 0:
            return {"error": "patch does not apply: " + out[-300:]}
        for pid in props or claimed():
            r = subprocess.run([sys.executable, os.path.join(HERE, "check.py"), pid, "--repo", d, "--no-evidence"],
                               stdout=subprocess.PIPE, stderr=subprocess.STDOUT, text=True)
            keys = [l.split("key=", 1)[1].strip() for l in r.stdout.splitlines() if "key=" in l and "rule=" in l]
            if "fact export failed" in r.stdout:
                res[pid] = ["EXPORT FAILED"]
            elif keys:
                res[pid] = keys
    finally:
        shutil.rmtree(d, ignore_errors=True)
    return res


if __name__ == "__main__":
    cmd = sys.argv[1]
    if cmd == "confirm":
        ok, info = confirm(sys.argv[2], sys.argv[3], sys.argv[4] if len(sys.argv) > 4 else "0")
        print("CONFIRMED" if ok else "REJECTED", sys.argv[3], json.dumps(info)[:700])
    elif cmd == "detect":
        import re
        ids = sys.argv[2:] or sorted(x for x in os.listdir(SEEDED) if re.match(r"^C\d\d-\d+$", x))
        import concurrent.futures
        with concurrent.futures.ThreadPoolExecutor(max_workers=8) as ex:
            futs = {sid: ex.submit(detect, sid) for sid in ids if os.path.isdir(os.path.join(SEEDED, sid))}
            for sid, fu in futs.items():
                res = fu.result()
                meta = json.load(open(os.path.join(SEEDED, sid, "meta.json")))
                own = meta.get("property")
                caught_own = bool(res.get(own))
                json.dump(res, open(os.path.join(SEEDED, sid, "detect.json"), "w"), indent=1)
                print("%-28s %s own=%s %s" % (sid, "CAUGHT" if res and "error" not in res else "missed",
                      "yes" if caught_own else "no", {k: v[:2] for k, v in res.items()} if isinstance(res, dict) else res))
