"""Folding of HIR constant initialisers into Python values (exact: float literals become Fractions)."""
from fractions import Fraction


class Unfoldable(Exception):
    pass


def parse_float_lit(s):
    """Rust float/int literal text -> Fraction (exact decimal value)"""
    t = s.replace("_", "")
    for suf in ("f64", "f32", "usize", "isize", "u64", "i64", "u32", "i32", "u8", "i8", "u16", "i16"):
        if t.endswith(suf):
            t = t[: -len(suf)]
    if t.endswith("."):
        t += "0"
    return Fraction(t)


def fold(e, facts=None, crate="lib", depth=0):
    """HIR expr JSON -> python value.
    arrays -> list, tuples -> tuple, struct -> dict with '__struct', ctor call -> dict with '__ctor' and 'args',
    unresolved path -> {'__path': p}; numbers -> Fraction (floats) or int."""
    if e is None:
        return None
    k = e.get("e")
    if k == "lit":
        l = e["lit"]
        if l["lit"] == "str":
            return l["v"]
        if l["lit"] == "int":
            return int(l["v"])
        if l["lit"] == "float":
            return parse_float_lit(l["v"])
        if l["lit"] in ("bool",):
            return l["v"]
        if l["lit"] == "char":
            return l["v"]
        raise Unfoldable("lit %r" % l)
    if k == "array":
        return [fold(x, facts, crate, depth + 1) for x in e["elems"]]
    if k == "tup":
        return tuple(fold(x, facts, crate, depth + 1) for x in e["elems"])
    if k == "struct":
        d = {"__struct": e["path"].get("path")}
        for f in e["fields"]:
            d[f["name"]] = fold(f["v"], facts, crate, depth + 1)
        return d
    if k == "call":
        f = e["f"]
        if f.get("e") == "path":
            p = f["path"].get("path")
            return {"__ctor": p, "args": [fold(x, facts, crate, depth + 1) for x in e["args"]]}
        raise Unfoldable("call of non-path")
    if k == "path":
        p = e["path"]
        if p.get("res") == "def":
            path = p["path"]
            # named constant of the same crate: fold through
            if facts is not None and depth < 8:
                c = facts.const(path, crate)
                if c is not None and c.get("hir"):
                    try:
                        return fold(c["hir"]["value"], facts, crate, depth + 1)
                    except Unfoldable:
                        pass
            return {"__path": path}
        return {"__path": None}
    if k == "un":
        a = fold(e["a"], facts, crate, depth + 1)
        if e["op"] == "Neg" and isinstance(a, (int, Fraction)):
            return -a
        raise Unfoldable("unary %s" % e["op"])
    if k == "bin":
        a = fold(e["a"], facts, crate, depth + 1)
        b = fold(e["b"], facts, crate, depth + 1)
        if isinstance(a, (int, Fraction)) and isinstance(b, (int, Fraction)):
            op = e["op"]
            a = Fraction(a)
            b = Fraction(b)
            if op == "Add":
                return a + b
            if op == "Sub":
                return a - b
            if op == "Mul":
                return a * b
            if op == "Div":
                if b == 0:
                    raise Unfoldable("division by zero")
                return a / b
        raise Unfoldable("binary %s" % e["op"])
    if k == "addr":
        return fold(e["a"], facts, crate, depth + 1)
    if k == "cast":
        return fold(e["a"], facts, crate, depth + 1)
    if k == "block" and not e["stmts"] and e["tail"]:
        return fold(e["tail"], facts, crate, depth + 1)
    raise Unfoldable("expr kind %s" % k)


def const_value(facts, name, crate="lib"):
    c = facts.const(name, crate)
    if c is None:
        return None
    if "eval" in c:
        # integer constant as evaluated by the compiler (however it is spelled: literal, arithmetic, const fn)
        v = int(c["eval"])
        ty = c.get("ty", "")
        if ty.startswith("i"):
            bits = {"i8": 8, "i16": 16, "i32": 32, "i64": 64, "i128": 128, "isize": 64}.get(ty, 64)
            if v >= 1 << (bits - 1):
                v -= 1 << bits
        return v
    return fold(c["hir"]["value"], facts, crate)


def find_consts(facts, suffix, crate="lib"):
    src = facts.lib if crate == "lib" else facts.kp
    return [n for n in src["consts"] if n == suffix or n.endswith("::" + suffix)]
