"""R-ARG-SELECTION: argument selection defects at calls of the crate's own functions.

At a call `g(a, b)` of a function declared `fn g(x: T, y: T)`, an argument that is a plain named variable of the
caller whose name is the name of *another* parameter of g of the same type (`qs(e, sinphi)` for `fn qs(sinphi: f64,
e: f64)`, `chase(&locals, globals, key)` for `fn chase(globals, locals, key)`) is an exchanged argument: the types
agree, so nothing else notices. The rule is purely a who-is-passed-where check over resolved call sites; it says
nothing about calls whose arguments are expressions or differently named variables."""
import mir
from rulebase import rule


def arg_name(f, op):
    """name of the caller's variable an argument is (a copy of / a reference to), if it is one"""
    pl = mir.op_place(op)
    if pl is None or [x for x in pl["p"] if x != "deref"]:
        return None
    l = pl["l"]
    for _ in range(4):
        nm = f.name_of_local.get(l)
        if nm:
            return nm
        defs = f.defs().get(l, ())
        if len(defs) != 1:
            return None
        b, i = defs[0][0], defs[0][1]
        if i is None or i >= len(f.stmts(b)):
            return None
        s = f.stmts(b)[i]
        if s["k"] != "assign":
            return None
        rv = s["rv"]
        if rv["k"] in ("use", "cast"):
            p = mir.op_place(rv["a"])
        elif rv["k"] in ("ref", "rawptr"):
            p = rv["place"]
        else:
            return None
        if p is None or [x for x in p["p"] if x != "deref"]:
            return None
        l = p["l"]
    return None


SCOPE = {
    "C01": ("inner_op::", "math::", "ellipsoid::"),
    "C04": ("op::", "token::"),
    "C05": ("inner_op::", "math::"),
    "C06": ("ellipsoid::", "math::"),
    "C08": ("grid::", "inner_op::gridshift", "inner_op::deformation"),
    "C12": ("inner_op::stack", "inner_op::pushpop", "inner_op::pipeline"),
    "C14": ("inner_op::", "ellipsoid::", "math::"),
}


@rule("R-ARG-SELECTION", sorted(SCOPE))
def r_arg_selection(cx):
    scope = SCOPE.get(cx.pid, ())
    sites = 0
    bad = 0
    for name in sorted(cx.f.lib["fns"]):
        if "::tests::" in name or not name.lstrip("<").startswith(scope) and not any(s in name for s in scope):
            continue
        f = cx.f.fn(name)
        for bb, t in f.calls():
            c = f.callee(t)
            if not c or not cx.f.has_fn(c):
                continue
            g = cx.f.fn(c)
            pn = [g.name_of_local.get(i) for i in range(1, g.nargs + 1)]
            pt = [str(g.local_ty(i)) for i in range(1, g.nargs + 1)]
            if len(t["args"]) != len(pn) or len(pn) < 2:
                continue
            an = [arg_name(f, a) for a in t["args"]]
            sites += 1
            for k, nm in enumerate(an):
                if nm is None or nm == pn[k]:
                    continue
                for j, p in enumerate(pn):
                    if j != k and p == nm and pt[j] == pt[k]:
                        bad += 1
                        cx.ob("R-ARG-SELECTION", "%s/%s/arg%d" % (name, c.rsplit("::", 1)[-1], k), False,
                              "%s calls %s(%s) with its variable `%s` in the position of the parameter `%s`, while the "
                              "callee has a parameter named `%s` of the same type in another position: exchanged "
                              "arguments" % (name, c, ", ".join(str(x) for x in pn), nm, pn[k], nm),
                              cx.where(t["span"]))
    cx.count("R-ARG-SELECTION", "call_sites", sites)
    cx.ob("R-ARG-SELECTION", "summary", True,
          "%d calls of crate functions with two or more parameters: no argument is a variable named like another "
          "parameter of the same type" % sites, nontrivial=sites > 0)


@rule("R-DEFAULTED-FIELD", ["C05"])
def r_defaulted_field(cx):
    """A struct built with `..Default::default()` silently defaults every field not spelled out. Where the function
    building it has a parameter of the same name and type as such a defaulted field (`fn new(.., ellps: &Ellipsoid)`
    building `Jacobian { .., ..Default::default() }` without `ellps`), the caller's value is dropped on the floor: the
    scale factors are then computed on the default ellipsoid, whatever ellipsoid the projection used."""
    n = 0
    for name in sorted(cx.f.lib["fns"]):
        if "::tests::" in name or not name.startswith(("math::", "inner_op::", "ellipsoid::", "op::", "grid::", "coordinate::")):
            continue
        f = cx.f.fn(name)
        argnames = {f.name_of_local.get(i): str(f.local_ty(i)).replace("&", "").strip() for i in range(1, f.nargs + 1)}
        for bb, i, s in f.all_stmts():
            if s["k"] != "assign" or s["rv"]["k"] != "agg" or s["rv"].get("agg") != "adt":
                continue
            adt = s["rv"].get("adt")
            info = cx.f.lib["adts"].get(adt) or next((v for k, v in cx.f.lib["adts"].items() if k.endswith("::" + str(adt))), None)
            if info is None or len(info["variants"]) != 1:
                continue
            fields = info["variants"][0]["fields"]
            ops = s["rv"].get("ops", [])
            if len(ops) != len(fields):
                continue
            vals = [f.operand(o, (bb, i)) for o in ops]
            defaulted = []
            for fd, v in zip(fields, vals):
                v0 = mir.strip_refs(v)
                if v0[0] == "proj" and v0[1][0] == "call" and isinstance(v0[1][1], str) and v0[1][1].endswith("Default>::default"):
                    defaulted.append(fd)
            if not defaulted:
                continue
            n += 1
            lost = [fd["name"] for fd in defaulted if fd["name"] in argnames and
                    argnames[fd["name"]] == str(fd.get("ty", "")).replace("&", "").strip()]
            cx.ob("R-DEFAULTED-FIELD", "%s/%s" % (name, str(adt).rsplit("::", 1)[-1]), not lost,
                  "%s: no field left to ..Default::default() has a like-named parameter" % name if not lost else
                  "%s builds %s with ..Default::default() and leaves the field(s) %s to the default although it has "
                  "parameter(s) of that name and type: the caller's value is ignored" % (name, adt, ", ".join(lost)),
                  cx.where(s.get("span") or f.d["span"]))
    cx.ob("R-DEFAULTED-FIELD", "summary", True, "%d struct literals completed from Default::default() examined" % n,
          nontrivial=False)
    cx.count("R-DEFAULTED-FIELD", "struct_updates", n)
