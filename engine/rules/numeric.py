"""Numeric shape rules.

R-UNIT-DIVISOR (C06): a floating point division by `1 - x*x` where x is a product/quotient of sines and cosines only
(so |x| = 1 is attained on a non-empty set of valid inputs: x is the sine of an azimuth, a direction cosine ...)
must be guarded by a test of the divisor (or of x). Unguarded, the operation yields 0/0 = NaN or +-inf exactly on
that set - for the inverse geodesic problem that set is the equator, where the property demands the equatorial arc.
Divisors of the form 1 - (e*sin)^2 with a non-trigonometric factor (the eccentricity) are not judged."""
import mir
import slicing
from rulebase import rule

TRIG = ("::sin", "::cos", "::sin_cos")


def _is_one(t):
    return t[0] == "const" and isinstance(t[2], tuple) and t[2][0] == "float" and float(t[2][1]) == 1.0


def _factors(t, out):
    t = mir.strip_refs(t)
    if t[0] == "bin" and t[1] in ("Mul", "Div"):
        _factors(t[2], out)
        _factors(t[3], out)
    elif t[0] == "un" and t[1] == "Neg":
        _factors(t[2], out)
    else:
        out.append(t)


def _unit_bounded(t, depth=0):
    """t is a sine/cosine value, or a hypot of products of such (a norm of direction cosines)"""
    t = mir.strip_refs(t)
    if t[0] == "proj" and t[1][0] == "call":
        t = t[1]
    if t[0] == "call" and isinstance(t[1], str):
        if t[1].endswith(TRIG):
            return True
        if t[1].endswith("::hypot") and depth < 3:
            return all(_all_unit(a, depth + 1) for a in t[2])
    return False


def _all_unit(t, depth=0):
    t = mir.strip_refs(t)
    if t[0] == "bin" and t[1] in ("Add", "Sub"):
        return _all_unit(t[2], depth) and _all_unit(t[3], depth)
    fs = []
    _factors(t, fs)
    return bool(fs) and all(_unit_bounded(x, depth) for x in fs)


def _guarded(f, bb, divisor_local):
    """the block is control dependent on a comparison that reads the divisor local"""
    cd = slicing.control_deps(f)
    seen = set()
    work = [bb]
    while work:
        b = work.pop()
        for a in cd.get(b, ()):
            if a in seen:
                continue
            seen.add(a)
            work.append(a)
            t = f.term(a)
            if t["k"] != "switch":
                continue
            pl = mir.op_place(t["discr"])
            if pl is None:
                continue
            # the discriminant is a comparison `divisor <op> const` computed in the same block
            for s in f.stmts(a):
                if s["k"] == "assign" and s["place"]["l"] == pl["l"] and s["rv"]["k"] == "bin" and \
                        s["rv"].get("op") in ("Eq", "Ne", "Lt", "Le", "Gt", "Ge"):
                    for side in ("a", "b"):
                        q = mir.op_place(s["rv"][side])
                        if q is not None and _root_local(f, q["l"]) == divisor_local:
                            return True
    return False


@rule("R-UNIT-DIVISOR", ["C06"])
def r_unit_divisor(cx):
    ndiv = 0
    nform = 0
    for name in sorted(cx.f.lib["fns"]):
        if "::tests::" in name:
            continue
        f = cx.f.fn(name)
        site = 0
        for bb, i, s in f.all_stmts():
            if s["k"] != "assign" or s["rv"]["k"] != "bin" or s["rv"].get("op") != "Div":
                continue
            if "f64" not in str(f.local_ty(s["place"]["l"])) and "f32" not in str(f.local_ty(s["place"]["l"])):
                continue
            ndiv += 1
            d = f.operand(s["rv"]["b"], (bb, i))
            if not (d[0] == "bin" and d[1] == "Sub" and _is_one(d[2]) and d[3][0] == "bin" and d[3][1] == "Mul"
                    and d[3][2] == d[3][3]):
                continue
            nform += 1
            x = d[3][2]
            attains = _all_unit(x)
            dl = mir.op_place(s["rv"]["b"])
            ok = (not attains) or (dl is not None and _guarded(f, bb, _root_local(f, dl["l"])))
            cx.ob("R-UNIT-DIVISOR", "%s/div%d" % (name, site), ok,
                  ("division by 1 - x*x in %s: x has a non-trigonometric factor (|x| = 1 is not attained)" % name
                   if not attains else "division by 1 - x*x in %s is guarded by a test of the divisor" % name) if ok else
                  "%s divides by 1 - x*x where x is a product of sines and cosines (|x| = 1 is attained, e.g. on the "
                  "equator for the azimuth sine of a geodesic) without testing the divisor: the result is NaN there" % name,
                  cx.where(s.get("span") or f.d["span"]))
            site += 1
    cx.count("R-UNIT-DIVISOR", "float_divisions", ndiv)
    cx.count("R-UNIT-DIVISOR", "one_minus_square_divisors", nform)


def _root_local(f, l):
    """follow `_t = copy/move _x` chains back to the named local the temporary was loaded from"""
    for _ in range(6):
        defs = f.defs().get(l, ())
        if len(defs) != 1:
            return l
        bb, i = defs[0][0], defs[0][1]
        if i is None or i >= len(f.stmts(bb)):
            return l
        s = f.stmts(bb)[i]
        if s["k"] == "assign" and s["rv"]["k"] == "use":
            p = mir.op_place(s["rv"]["a"])
            if p is not None and not p["p"]:
                l = p["l"]
                continue
        return l
    return l


# ---------------------------------------------------------------------------------------------------------------------
# R-SIGN-CARRIER (C16, C19, C20): the sign of a sexagesimal / packed angle survives a zero degrees field

SIGN_FNS = ("::signum", "::copysign", "::is_sign_negative", "::is_sign_positive")


def _float_abs_args(t):
    """arguments X of f64::abs(X) occurring in the additive/multiplicative skeleton of t"""
    out = []

    def v(x):
        if x[0] == "call" and isinstance(x[1], str) and x[1].endswith("::abs") and "f64" in x[1] and x[2]:
            out.append(x[2][0])
            return False
        return True

    mir.walk(t, v)
    return out


@rule("R-SIGN-CARRIER", ["C16", "C19", "C20"])
def r_sign_carrier(cx):
    """Where an angle is assembled as  sign * (|X| + minutes/60 + ...)  from a floating point field X, the sign is
    taken from X's sign bit (signum, copysign, is_sign_negative) - not from an ordered comparison: X = -0.0 (as in
    `-0:30:36`, or the ISO 6709 value -0030.6) compares equal to zero, and the negative sign of an angle with zero
    whole degrees would be lost."""
    import elems as E
    n = 0
    for name in sorted(cx.f.lib["fns"]):
        if not name.startswith("math::angular::") or "::tests::" in name or "{closure" in name:
            continue
        f = cx.f.fn(name)
        rt = E.return_term(f)
        if rt is None:
            continue
        muls = []

        def v(x):
            if x[0] == "bin" and x[1] == "Mul":
                muls.append(x)
            return True

        mir.walk(rt, v)
        judged = False
        for m in muls:
            for mag, sgn in ((m[2], m[3]), (m[3], m[2])):
                if not (mag[0] == "bin" and mag[1] == "Add"):
                    continue
                xs = _float_abs_args(mag)
                if not xs or _float_abs_args(sgn):
                    continue
                X = xs[0]
                if judged:
                    continue
                judged = True
                n += 1
                carriers = []

                def w(y):
                    if y[0] == "call" and isinstance(y[1], str) and y[1].endswith(SIGN_FNS) and y[2] and y[2][0] == X:
                        carriers.append(y)
                    return True

                mir.walk(sgn, w)
                ok = bool(carriers)
                cx.ob("R-SIGN-CARRIER", name, ok,
                      "%s takes the sign of the angle from the sign bit of the field whose magnitude it uses" % name if ok
                      else "%s builds sign * (|x| + ...) but derives the sign from a comparison of x with zero (or not "
                           "from x at all): for x = -0.0 (`-0:30`) the sign is lost" % name, cx.where(f.d["span"]))
    cx.count("R-SIGN-CARRIER", "assembled_angles", n)
    # the packed ISO 6709 encodings: f64 -> f64 converters are odd functions, written as signum(x) * g(|x|)
    k = 0
    for name in sorted(cx.f.lib["fns"]):
        if not name.startswith("math::angular::") or "::tests::" in name or "{closure" in name:
            continue
        short = name.rsplit("::", 1)[-1]
        f = cx.f.fn(name)
        if short.startswith("normalize") or f.nargs != 1 or str(f.local_ty(1)) != "f64" or str(f.local_ty(0)) != "f64":
            continue
        k += 1
        rt = E.return_term(f)
        for _ in range(3):
            if rt is not None and rt[0] == "call":
                r2 = E.inline_call(f, rt, f.end_point(rt[3]) if isinstance(rt[3], int) else None)
                if r2 is None:
                    break
                rt = r2
            else:
                break
        ok = False
        if rt is not None and rt[0] == "bin" and rt[1] == "Mul":
            for side in (rt[2], rt[3]):
                s0 = mir.strip_refs(side)
                if s0[0] == "call" and isinstance(s0[1], str) and s0[1].endswith(SIGN_FNS) and s0[2] and \
                        mir.strip_refs(s0[2][0]) == ("arg", 1):
                    ok = True
        cx.ob("R-SIGN-CARRIER", name + "/odd", ok,
              "%s = signum(x) * g(|x|): the sign bit of the input is the sign of the result" % name if ok else
              "%s is not of the form signum(x) * g(|x|): the sign of an input with zero whole degrees (e.g. -0030.6) "
              "passes through a value that cannot hold it" % name, cx.where(f.d["span"]))
    cx.count("R-SIGN-CARRIER", "packed_converters", k)
