"""Numeric shape rules.

R-UNIT-DIVISOR (C06): a floating point division by `1 - x*x` where x is a product/quotient of sines and cosines only
(so |x| = 1 is attained on a non-empty set of valid inputs: x is the sine of an azimuth, a direction cosine ...)
must be guarded by a test of the divisor (or of x). Unguarded, the operation yields 0/0 = NaN or +-inf exactly on
that set - for the inverse geodesic problem that set is the equator, where the property demands the equatorial arc.
Divisors of the form 1 - (e*sin)^2 with a non-trigonometric factor (the eccentricity) are not judged."""
import mir
import slicing
from rulebase import rule

TRIG = ("::sin", "::cos", "::sin_cos")


def _is_one(t):
    return t[0] == "const" and isinstance(t[2], tuple) and t[2][0] == "float" and float(t[2][1]) == 1.0


def _factors(t, out):
    t = mir.strip_refs(t)
    if t[0] == "bin" and t[1] in ("Mul", "Div"):
        _factors(t[2], out)
        _factors(t[3], out)
    elif t[0] == "un" and t[1] == "Neg":
        _factors(t[2], out)
    else:
        out.append(t)


def _unit_bounded(t, depth=0):
    """t is a sine/cosine value, or a hypot of products of such (a norm of direction cosines)"""
    t = mir.strip_refs(t)
    if t[0] == "proj" and t[1][0] == "call":
        t = t[1]
    if t[0] == "call" and isinstance(t[1], str):
        if t[1].endswith(TRIG):
            return True
        if t[1].endswith("::hypot") and depth < 3:
            return all(_all_unit(a, depth + 1) for a in t[2])
    return False


def _all_unit(t, depth=0):
    t = mir.strip_refs(t)
    if t[0] == "bin" and t[1] in ("Add", "Sub"):
        return _all_unit(t[2], depth) and _all_unit(t[3], depth)
    fs = []
    _factors(t, fs)
    return bool(fs) and all(_unit_bounded(x, depth) for x in fs)


def _guarded(f, bb, divisor_local):
    """the block is control dependent on a comparison that reads the divisor local"""
    cd = slicing.control_deps(f)
    seen = set()
    work = [bb]
    while work:
        b = work.pop()
        for a in cd.get(b, ()):
            if a in seen:
                continue
            seen.add(a)
            work.append(a)
            t = f.term(a)
            if t["k"] != "switch":
                continue
            pl = mir.op_place(t["discr"])
            if pl is None:
                continue
            # the discriminant is a comparison `divisor <op> const` computed in the same block
            for s in f.stmts(a):
                if s["k"] == "assign" and s["place"]["l"] == pl["l"] and s["rv"]["k"] == "bin" and \
                        s["rv"].get("op") in ("Eq", "Ne", "Lt", "Le", "Gt", "Ge"):
                    for side in ("a", "b"):
                        q = mir.op_place(s["rv"][side])
                        if q is not None and _root_local(f, q["l"]) == divisor_local:
                            return True
    return False


@rule("R-UNIT-DIVISOR", ["C06"])
def r_unit_divisor(cx):
    ndiv = 0
    nform = 0
    for name in sorted(cx.f.lib["fns"]):
        if "::tests::" in name:
            continue
        f = cx.f.fn(name)
        site = 0
        for bb, i, s in f.all_stmts():
            if s["k"] != "assign" or s["rv"]["k"] != "bin" or s["rv"].get("op") != "Div":
                continue
            if "f64" not in str(f.local_ty(s["place"]["l"])) and "f32" not in str(f.local_ty(s["place"]["l"])):
                continue
            ndiv += 1
            d = f.operand(s["rv"]["b"], (bb, i))
            if not (d[0] == "bin" and d[1] == "Sub" and _is_one(d[2]) and d[3][0] == "bin" and d[3][1] == "Mul"
                    and d[3][2] == d[3][3]):
                continue
            nform += 1
            x = d[3][2]
            attains = _all_unit(x)
            dl = mir.op_place(s["rv"]["b"])
            ok = (not attains) or (dl is not None and _guarded(f, bb, _root_local(f, dl["l"])))
            cx.ob("R-UNIT-DIVISOR", "%s/div%d" % (name, site), ok,
                  ("division by 1 - x*x in %s: x has a non-trigonometric factor (|x| = 1 is not attained)" % name
                   if not attains else "division by 1 - x*x in %s is guarded by a test of the divisor" % name) if ok else
                  "%s divides by 1 - x*x where x is a product of sines and cosines (|x| = 1 is attained, e.g. on the "
                  "equator for the azimuth sine of a geodesic) without testing the divisor: the result is NaN there" % name,
                  cx.where(s.get("span") or f.d["span"]))
            site += 1
    cx.count("R-UNIT-DIVISOR", "float_divisions", ndiv)
    cx.count("R-UNIT-DIVISOR", "one_minus_square_divisors", nform)


def _root_local(f, l):
    """follow `_t = copy/move _x` chains back to the named local the temporary was loaded from"""
    for _ in range(6):
        defs = f.defs().get(l, ())
        if len(defs) != 1:
            return l
        bb, i = defs[0][0], defs[0][1]
        if i is None or i >= len(f.stmts(bb)):
            return l
        s = f.stmts(bb)[i]
        if s["k"] == "assign" and s["rv"]["k"] == "use":
            p = mir.op_place(s["rv"]["a"])
            if p is not None and not p["p"]:
                l = p["l"]
                continue
        return l
    return l


# ---------------------------------------------------------------------------------------------------------------------
# R-SIGN-CARRIER (C16, C19, C20): the sign of a sexagesimal / packed angle survives a zero degrees field

SIGN_FNS = ("::signum", "::copysign", "::is_sign_negative", "::is_sign_positive")


def _float_abs_args(t):
    """arguments X of f64::abs(X) occurring in the additive/multiplicative skeleton of t"""
    out = []

    def v(x):
        if x[0] == "call" and isinstance(x[1], str) and x[1].endswith("::abs") and "f64" in x[1] and x[2]:
            out.append(x[2][0])
            return False
        return True

    mir.walk(t, v)
    return out


@rule("R-SIGN-CARRIER", ["C16", "C19", "C20", "C13"])
def r_sign_carrier(cx):
    """Where an angle is assembled as  sign * (|X| + minutes/60 + ...)  from a floating point field X, the sign is
    taken from X's sign bit (signum, copysign, is_sign_negative) - not from an ordered comparison: X = -0.0 (as in
    `-0:30:36`, or the ISO 6709 value -0030.6) compares equal to zero, and the negative sign of an angle with zero
    whole degrees would be lost."""
    import elems as E
    n = 0
    for name in sorted(cx.f.lib["fns"]):
        if not name.startswith("math::angular::") or "::tests::" in name or "{closure" in name:
            continue
        f = cx.f.fn(name)
        rt = E.return_term(f)
        if rt is None:
            continue
        muls = []

        def v(x):
            if x[0] == "bin" and x[1] == "Mul":
                muls.append(x)
            return True

        mir.walk(rt, v)
        judged = False
        for m in muls:
            for mag, sgn in ((m[2], m[3]), (m[3], m[2])):
                if not (mag[0] == "bin" and mag[1] == "Add"):
                    continue
                xs = _float_abs_args(mag)
                if not xs or _float_abs_args(sgn):
                    continue
                X = xs[0]
                if judged:
                    continue
                judged = True
                n += 1
                carriers = []

                def w(y):
                    if y[0] == "call" and isinstance(y[1], str) and y[1].endswith(SIGN_FNS) and y[2] and y[2][0] == X:
                        carriers.append(y)
                    return True

                mir.walk(sgn, w)
                ok = bool(carriers)
                cx.ob("R-SIGN-CARRIER", name, ok,
                      "%s takes the sign of the angle from the sign bit of the field whose magnitude it uses" % name if ok
                      else "%s builds sign * (|x| + ...) but derives the sign from a comparison of x with zero (or not "
                           "from x at all): for x = -0.0 (`-0:30`) the sign is lost" % name, cx.where(f.d["span"]))
    cx.count("R-SIGN-CARRIER", "assembled_angles", n)
    # the hemisphere letter: every value parse_sexagesimal returns (other than NaN) carries the sign taken from the
    # suffix - plain decimals with a letter (`9.5W`) as well as D:M:S values
    if cx.f.has_fn("math::angular::parse_sexagesimal"):
        f = cx.f.fn("math::angular::parse_sexagesimal")
        rt = E.return_term(f)
        leaves = []

        def lv(x, d=0):
            x = mir.strip_refs(x)
            if x[0] == "phi" and d < 12:
                for o in x[2]:
                    lv(o, d + 1)
            else:
                leaves.append(x)
        if rt is not None:
            lv(rt)

        def is_pm_one(y):
            if y[0] != "phi":
                return False
            vals = set()
            for o in y[2]:
                o = mir.strip_refs(o)
                vv = _fnum(o)
                if vv is None:
                    return False
                vals.add(vv)
            return vals == {1.0, -1.0}
        bad = []
        valued = 0
        for lf in leaves:
            vv = _fnum(lf)
            if vv is not None and vv != vv:
                continue        # NaN: rejected text
            if lf[0] == "const" and "NAN" in str(lf[2]).upper():
                continue
            valued += 1
            hit = []
            mir.walk(lf, lambda y: (hit.append(1) if isinstance(y, tuple) and y and is_pm_one(y) else None) or True)
            if not hit:
                bad.append(lf)
        ok = valued > 0 and not bad
        cx.ob("R-SIGN-CARRIER", "math::angular::parse_sexagesimal/suffix", ok,
              "every value parse_sexagesimal returns is multiplied by the sign of the hemisphere letter" if ok else
              "parse_sexagesimal returns a value that does not carry the sign taken from the N/S/E/W suffix (the letter is "
              "stripped, the sign dropped): `lon_0=9.5W` reads as +9.5", cx.where(f.d["span"]))
    # the packed ISO 6709 encodings: f64 -> f64 converters are odd functions, written as signum(x) * g(|x|)
    k = 0
    for name in sorted(cx.f.lib["fns"]):
        if not name.startswith("math::angular::") or "::tests::" in name or "{closure" in name:
            continue
        short = name.rsplit("::", 1)[-1]
        f = cx.f.fn(name)
        if short.startswith("normalize") or f.nargs != 1 or str(f.local_ty(1)) != "f64" or str(f.local_ty(0)) != "f64":
            continue
        k += 1
        rt = E.return_term(f)
        for _ in range(3):
            if rt is not None and rt[0] == "call":
                r2 = E.inline_call(f, rt, f.end_point(rt[3]) if isinstance(rt[3], int) else None)
                if r2 is None:
                    break
                rt = r2
            else:
                break
        ok = False
        if rt is not None and rt[0] == "bin" and rt[1] == "Mul":
            for side in (rt[2], rt[3]):
                s0 = mir.strip_refs(side)
                if s0[0] == "call" and isinstance(s0[1], str) and s0[1].endswith(SIGN_FNS) and s0[2] and \
                        mir.strip_refs(s0[2][0]) == ("arg", 1):
                    other = rt[3] if side is rt[2] else rt[2]
                    # ... and the magnitude g depends on x through |x| only (x.fract(), x % 1.0 keep the sign of x)
                    raw = []

                    def scan(y, depth=0):
                        y = mir.strip_refs(y)
                        if depth > 60 or raw:
                            return
                        if y == ("arg", 1):
                            raw.append(1)
                            return
                        if y[0] == "call" and isinstance(y[1], str) and y[1].rsplit("::", 1)[-1] in ("abs",) and y[2] and \
                                mir.strip_refs(y[2][0]) == ("arg", 1):
                            return
                        for z in y[1:]:
                            if isinstance(z, tuple) and z and isinstance(z[0], str):
                                scan(z, depth + 1)
                            elif isinstance(z, tuple):
                                for w in z:
                                    if isinstance(w, tuple) and w and isinstance(w[0], str):
                                        scan(w, depth + 1)
                    scan(other)
                    ok = not raw
        cx.ob("R-SIGN-CARRIER", name + "/odd", ok,
              "%s = signum(x) * g(|x|): the sign bit of the input is the sign of the result" % name if ok else
              "%s is not of the form signum(x) * g(|x|): the sign of an input with zero whole degrees (e.g. -0030.6) "
              "passes through a value that cannot hold it" % name, cx.where(f.d["span"]))
    cx.count("R-SIGN-CARRIER", "packed_converters", k)


# ---------------------------------------------------------------------------------------------------------------------
# R-ITER-CAP-AGREE (C06, C10): the non-convergence test of the geodesic operator can fire

@rule("R-ITER-CAP-AGREE", ["C06", "C10", "C14"])
def r_iter_cap_agree(cx):
    """geodesic_inv reports the number of iterations it used in element 3 of its result, capped by the bound N of its
    loop (`while i < N`). The geodesic operator declares non-convergence when that element exceeds a threshold T.
    The two constants live in different modules and must agree: T < N (otherwise the test can never fire and an
    unconverged result is returned as valid), and the value tested is the element as returned (not yet overwritten)."""
    import elems as E
    g = cx.f.fn("ellipsoid::geodesics::Geodesics::geodesic_inv")
    import pertuple
    caps = []   # (cap, header of the capped loop)
    for lp in g.loops():
        for bb in sorted(lp.body):
            t = g.term(bb)
            if t["k"] != "switch":
                continue
            c = g.operand(t["discr"], g.end_point(bb))
            if c[0] == "bin" and c[1] in ("Lt", "Le") and c[3][0] == "const" and isinstance(c[3][2], int) and \
                    c[2][0] in ("loopphi", "phi"):
                caps.append((c[3][2] + (1 if c[1] == "Le" else 0), lp.header))
        # `for _ in a..b` with constant bounds
        x = pertuple.iterator_entry_value(g, lp)
        if x is not None and x[0] == "call" and isinstance(x[1], str) and x[1].endswith("into_iter"):
            r = mir.strip_refs(x[2][0])
            if r[0] == "agg" and "Range" in str(r[1]) and len(r[2]) == 2 and all(
                    y[0] == "const" and isinstance(y[2], int) for y in r[2]):
                caps.append((r[2][1][2] - r[2][0][2] + (1 if "Inclusive" in str(r[1]) else 0), lp.header))
            # `a..=b` is built by RangeInclusive::new(a, b)
            if r[0] == "call" and isinstance(r[1], str) and r[1].endswith("RangeInclusive::<Idx>::new") and len(r[2]) == 2 and all(
                    y[0] == "const" and isinstance(y[2], int) for y in r[2]):
                caps.append((r[2][1][2] - r[2][0][2] + 1, lp.header))
    rt = E.return_term(g)
    es = E.elems(g, rt, None) if rt is not None else None
    counter_ok = False
    if es is not None and caps:
        h = caps[0][1]
        counter_ok = bool(pertuple.mentions_loopphi(es[3], h, g))
    cx.ob("R-ITER-CAP-AGREE", "geodesic_inv/reports-count", bool(caps) and counter_ok,
          "geodesic_inv iterates under a constant cap (%s) and returns its iteration counter in element 3" % (
              caps[0][0] if caps else "?") if caps and counter_ok else
          "geodesic_inv: no constant iteration cap found, or element 3 of the result is not the iteration counter",
          cx.where(g.d["span"]))
    n = 0
    for fn in ("inner_op::geodesic::inv",):
        f = cx.f.fn(fn)
        for bb in sorted(f.reachable()):
            t = f.term(bb)
            if t["k"] != "switch":
                continue
            c = f.operand(t["discr"], f.end_point(bb))
            if not (c[0] == "bin" and c[1] in ("Gt", "Ge") and c[3][0] == "const"):
                continue
            lhs = c[2]
            calls = []

            def v(y):
                if y[0] == "call" and isinstance(y[1], str) and y[1].endswith("Geodesics::geodesic_inv"):
                    calls.append(y)
                return True
            mir.walk(lhs, v)
            if not calls:
                continue
            n += 1
            T = _fnum(c[3])
            direct = lhs[0] == "proj" and lhs[2] == ("elem", 3) and lhs[1][0] == "call"
            N = caps[0][0] if caps else None
            near = T is not None and N is not None and (N - T) <= max(10, 0.01 * N)
            ok = direct and T is not None and N is not None and 0 <= T < N and near
            cx.ob("R-ITER-CAP-AGREE", "%s/threshold" % fn, ok,
                  "the operator's non-convergence threshold %s is below geodesic_inv's iteration cap %s and tests the "
                  "returned count" % (T, N) if ok else
                  "the geodesic operator tests non-convergence as `count > %s` but %s: an unconverged solution is returned "
                  "as valid" % (T, ("geodesic_inv never iterates more than %s times" % N) if direct else
                                "the value tested is not element 3 as returned by geodesic_inv")
                  if not (direct and T is not None and N is not None and 0 <= T < N) else
                  "the geodesic operator declares non-convergence for `count > %s` while geodesic_inv iterates up to %s "
                  "times: solutions that converge in between are valid results of the ellipsoid's method but NaN from "
                  "the operator" % (T, N), cx.where(t["span"]))
    if n == 0:
        cx.ob("R-ITER-CAP-AGREE", "inner_op::geodesic::inv/threshold", False,
              "the geodesic operator does not test the iteration count returned by geodesic_inv: non-convergence is "
              "not detected", cx.where(cx.f.fn("inner_op::geodesic::inv").d["span"]))
    cx.count("R-ITER-CAP-AGREE", "threshold_tests", n)


def _fnum(t):
    if t[0] == "const":
        v = t[2]
        if isinstance(v, tuple) and v and v[0] == "float":
            return float(v[1])
        if isinstance(v, (int, float)) and not isinstance(v, bool):
            return float(v)
    return None


# ---------------------------------------------------------------------------------------------------------------------
# R-ANGLE-RANGE (C19): angle normalisation returns an equivalent angle in the stated range

import math

ANGLE_RANGES = {
    "math::angular::normalize_symmetric": (-math.pi, math.pi),
    "math::angular::normalize_positive": (0.0, 2 * math.pi),
}


def _const_val(t):
    """numeric value of a constant expression (literals, PI, products and sums of them)"""
    v = _fnum(t)
    if v is not None:
        return v
    if t[0] == "bin" and t[1] in ("Mul", "Add", "Sub", "Div"):
        a, b = _const_val(t[2]), _const_val(t[3])
        if a is None or b is None:
            return None
        return {"Mul": a * b, "Add": a + b, "Sub": a - b, "Div": a / b if b else None}[t[1]]
    if t[0] == "un" and t[1] == "Neg":
        a = _const_val(t[2])
        return -a if a is not None else None
    return None


def _affine_in(t, R, sgn):
    """t as (coefficient of R, constant) under the assumption signum(R) = sgn; None if not affine in R"""
    if t == R:
        return (1.0, 0.0)
    c = _const_val(t)
    if c is not None:
        return (0.0, c)
    if t[0] == "call" and isinstance(t[1], str) and t[1].endswith("::signum") and t[2] and t[2][0] == R:
        return (0.0, float(sgn))
    if t[0] == "bin":
        a, b = _affine_in(t[2], R, sgn), _affine_in(t[3], R, sgn)
        if a is None or b is None:
            return None
        if t[1] == "Add":
            return (a[0] + b[0], a[1] + b[1])
        if t[1] == "Sub":
            return (a[0] - b[0], a[1] - b[1])
        if t[1] == "Mul":
            if a[0] == 0.0:
                return (a[1] * b[0], a[1] * b[1])
            if b[0] == 0.0:
                return (b[1] * a[0], b[1] * a[1])
            return None
    if t[0] == "un" and t[1] == "Neg":
        a = _affine_in(t[2], R, sgn)
        return (-a[0], -a[1]) if a else None
    return None


@rule("R-ANGLE-RANGE", ["C19"])
def r_angle_range(cx):
    """normalize_symmetric / normalize_positive reduce the angle with `%` (remainder R = (x + d) % m, whose sign follows
    the dividend: R in (-m, m)) and then shift it. By case analysis on the sign of R (interval arithmetic on the
    affine forms of the returned expressions, branch conditions `R < 0` respected) every returned value lies in the
    documented range, and differs from the input by a multiple of 2 pi."""
    n = 0
    for name, (lo, hi) in sorted(ANGLE_RANGES.items()):
        f = cx.f.fn(name)
        where = cx.where(f.d["span"])
        # the remainder term
        rems = []
        for bb, i, s in f.all_stmts():
            if s["k"] == "assign" and s["rv"]["k"] == "bin" and s["rv"].get("op") == "Rem":
                rems.append(f.rvalue(s["rv"], (bb, i)))
        if len(rems) != 1:
            cx.ob("R-ANGLE-RANGE", name, False, "%s: expected exactly one `%%` reduction, found %d" % (name, len(rems)), where)
            continue
        R = rems[0]
        m = _const_val(R[3])
        dvd = _affine_in(R[2], ("arg", 1), 1)
        if m is None or m <= 0 or dvd is None or dvd[0] != 1.0:
            cx.ob("R-ANGLE-RANGE", name, False, "%s: the reduction is not (angle + d) %% m with constant m > 0" % name, where)
            continue
        d = dvd[1]
        n += 1
        bad = None
        for sgn, (rlo, rhi) in ((1, (0.0, m)), (-1, (-m, 0.0))):
            for (rb, ri, kind, path, payload) in f.defs().get(0, ()):
                if kind != "full":
                    bad = bad or "the return value is not assigned by plain assignments"
                    continue
                # is this assignment feasible under the sign assumption? look at dominating `R < 0` tests
                feasible = True
                for gb in sorted(f.reachable()):
                    t = f.term(gb)
                    if t["k"] != "switch":
                        continue
                    c = f.operand(t["discr"], f.end_point(gb))
                    if c[0] == "bin" and c[1] in ("Lt", "Ge") and c[2] == R and _const_val(c[3]) == 0.0:
                        false_bb = [b for v, b in t["targets"] if v == 0]
                        true_bb = t["otherwise"]
                        neg_bb = true_bb if c[1] == "Lt" else (false_bb[0] if false_bb else None)
                        pos_bb = (false_bb[0] if false_bb else None) if c[1] == "Lt" else true_bb
                        if sgn == 1 and neg_bb is not None and f.dominates(neg_bb, rb) and len(f.pred[neg_bb]) == 1:
                            feasible = False
                        if sgn == -1 and pos_bb is not None and f.dominates(pos_bb, rb) and len(f.pred[pos_bb]) == 1:
                            feasible = False
                if not feasible:
                    continue
                v = f.rvalue(payload["rv"], (rb, ri))
                alts = v[2] if v[0] == "phi" else (v,)
                for alt in alts:
                    a = _affine_in(alt, R, sgn)
                    if a is None:
                        bad = bad or "a returned expression is not an affine function of the remainder"
                        continue
                    vals = (a[0] * rlo + a[1], a[0] * rhi + a[1])
                    eps = 1e-9
                    if min(vals) < lo - eps or max(vals) > hi + eps:
                        bad = bad or "for a %s remainder the result ranges over [%.4f, %.4f], outside [%.4f, %.4f]" % (
                            "non-negative" if sgn == 1 else "negative", min(vals), max(vals), lo, hi)
                    shift = (d + a[1]) / (2 * math.pi)
                    if a[0] != 1.0 or abs(shift - round(shift)) > 1e-9:
                        bad = bad or "the result differs from the input by %.4f, not a multiple of 2 pi" % (d + a[1])
        cx.ob("R-ANGLE-RANGE", name, bad is None,
              "%s returns input + 2 pi k within [%.4f, %.4f] for either sign of the remainder" % (name, lo, hi)
              if bad is None else "%s: %s" % (name, bad), where)
    cx.count("R-ANGLE-RANGE", "functions", n)


# ---------------------------------------------------------------------------------------------------------------------
# R-LAT-SHAPE (C06): every auxiliary latitude has a shape that is odd, fixes 0 and the poles

def _is_num(t, v):
    x = _fnum(t)
    return x is not None and x == v


def _series_shape(t, x, fidx):
    """t == x + fourier::sin(2*x, coeffs.<fidx>)  (either operand order); returns True/False"""
    if not (t[0] == "bin" and t[1] == "Add"):
        return False
    for a, b in ((t[2], t[3]), (t[3], t[2])):
        if a != x:
            continue
        b = mir.strip_refs(b)
        if b[0] == "call" and isinstance(b[1], str) and b[1].endswith("fourier::sin") and len(b[2]) == 2:
            arg, co = b[2]
            two_x = arg[0] == "bin" and arg[1] == "Mul" and ((_is_num(arg[2], 2.0) and arg[3] == x) or
                                                            (_is_num(arg[3], 2.0) and arg[2] == x))
            co = mir.strip_refs(co)
            while co[0] == "cast":
                co = mir.strip_refs(co[2])
            right_set = co[0] == "proj" and co[2] == ("f", fidx)
            return two_x and right_set
    return False


@rule("R-LAT-SHAPE", ["C06"])
def r_lat_shape(cx):
    """Each conversion between the geographic latitude and an auxiliary latitude (Latitudes::latitude_*) has one of
    the shapes that make it odd, zero at the equator and pi/2 at the pole by construction:
      series:  phi + S(2 phi)  with S = math::fourier::sin, a sine series in *even* multiples of phi (vanishing at 0 and
               at +-pi/2), taken with the forward coefficient set for geographic -> auxiliary and with the inverse set
               for the way back; the rectifying latitude additionally scales by / divides by its constant factor;
      closed:  atan(c * tan phi), atan(tan phi / c) or atan2(tan phi, c) with c free of phi;
      isometric pair: gudermannian^-1(phi) - e atanh(e sin phi) and atan(sinhpsi_to_tanphi(sinh psi, e)) (odd; the
               isometric latitude is unbounded at the poles).
    Oddness of fourier::sin, the gudermannian and sinhpsi_to_tanphi in their first argument is a stated summary."""
    import elems as E
    n = 0
    x = ("arg", 2)
    for name in sorted(cx.f.lib["fns"]):
        short = name.rsplit("::", 1)[-1]
        if not name.startswith("ellipsoid::latitudes::Latitudes::latitude_") or "coefficients" in short:
            continue
        f = cx.f.fn(name)
        rt = E.return_term(f)
        n += 1
        ok = False
        what = "unrecognised"
        if rt is not None:
            to_aux = short.startswith("latitude_geographic_to_")
            fidx = 0 if to_aux else 1
            t = rt
            # series, possibly scaled (rectifying): k * (x + S(2x))  or  with x := arg / k
            if _series_shape(t, x, fidx):
                ok, what = True, "series"
            elif t[0] == "bin" and t[1] == "Mul" and any(_series_shape(s, x, fidx) for s in (t[2], t[3])) and \
                    not any(_mentions_term2(s, x) for s in (t[2], t[3]) if not _series_shape(s, x, fidx)):
                ok, what = True, "scaled series"
            elif t[0] == "bin" and t[1] == "Add":
                # (x / k) + S(2 (x / k))
                for a in (t[2], t[3]):
                    if a[0] == "bin" and a[1] == "Div" and a[2] == x and not _mentions_term2(a[3], x) and _series_shape(t, a, fidx):
                        ok, what = True, "series in the scaled argument"
            if not ok and t[0] == "call" and isinstance(t[1], str) and t[1].endswith("::atan") and len(t[2]) == 1:
                u = t[2][0]
                if u[0] == "bin" and u[1] in ("Mul", "Div"):
                    tans = [s for s in (u[2], u[3]) if s[0] == "call" and isinstance(s[1], str) and s[1].endswith("::tan") and s[2] and s[2][0] == x]
                    others = [s for s in (u[2], u[3]) if s not in tans]
                    if len(tans) == 1 and len(others) == 1 and not _mentions_term2(others[0], x) and \
                            (u[1] == "Mul" or u[2] == tans[0]):
                        ok, what = True, "atan(c tan phi)"
                if u[0] == "call" and isinstance(u[1], str) and u[1].endswith("sinhpsi_to_tanphi") and u[2] and \
                        u[2][0][0] == "call" and u[2][0][1].endswith("::sinh") and u[2][0][2][0] == x:
                    ok, what = True, "isometric inverse"
            if not ok and t[0] == "call" and isinstance(t[1], str) and t[1].endswith("::atan2") and len(t[2]) == 2:
                y, xx = t[2]
                if y[0] == "call" and y[1].endswith("::tan") and y[2][0] == x and not _mentions_term2(xx, x):
                    ok, what = True, "atan2(tan phi, c)"
            if not ok and t[0] == "bin" and t[1] == "Sub" and short == "latitude_geographic_to_isometric":
                a, b = t[2], t[3]
                g = a[0] == "call" and isinstance(a[1], str) and a[1].endswith("gudermannian::inv") and a[2][0] == x
                sins = []

                def v(y):
                    if y[0] == "call" and isinstance(y[1], str) and y[1].endswith("::sin") and y[2] and y[2][0] == x:
                        sins.append(y)
                    return True
                mir.walk(b, v)
                at = [1 for y in [b] if _has_call(b, "::atanh")]
                if g and sins and at:
                    ok, what = True, "isometric"
        cx.ob("R-LAT-SHAPE", short, ok,
              "%s has the shape `%s`: odd, and (except for the isometric pair) 0 at the equator and pi/2 at the pole" % (short, what)
              if ok else
              "%s does not have one of the shapes that make an auxiliary latitude odd and fix the equator and the poles "
              "(phi + S(2 phi) with the %s coefficient set, atan(c tan phi), the isometric pair): %s" % (
                  short, "forward" if short.startswith("latitude_geographic_to_") else "inverse",
                  mir.show(rt)[:90] if rt is not None else "no single returned expression"), cx.where(f.d["span"]))
    cx.count("R-LAT-SHAPE", "conversions", n)


def _mentions_term2(t, needle):
    hit = []

    def v(x):
        if x == needle:
            hit.append(1)
            return False
        return not hit
    mir.walk(t, v)
    return bool(hit)


def _has_call(t, suffix):
    hit = []

    def v(x):
        if x[0] == "call" and isinstance(x[1], str) and x[1].endswith(suffix):
            hit.append(1)
        return True
    mir.walk(t, v)
    return bool(hit)


# ---------------------------------------------------------------------------------------------------------------------
# R-LAT-ARG-KIND (C01, C05): what is handed to an auxiliary-latitude conversion is an angle

ANGLE_MAKERS = ("::asin", "::acos", "::atan", "::atan2", "::to_radians", "gudermannian::fwd")


@rule("R-LAT-ARG-KIND", ["C01", "C05"])
def r_lat_arg_kind(cx):
    """Every call of Latitudes::latitude_*(x, ..) in the operators passes an *angle* x: a coordinate or parameter, the
    result of an inverse trigonometric function, or a sum / signed multiple of such. An arithmetic expression made of
    lengths and ratios only (`1 - rho^2 / (a^2 qp)`: the *sine* of the authalic latitude) is not an angle; handing it
    to the conversion silently treats a sine as the angle itself."""
    n = 0
    for name in sorted(cx.f.lib["fns"]):
        if not name.startswith("inner_op::") or "::tests::" in name:
            continue
        f = cx.f.fn(name)
        k = 0
        for bb, t in f.calls():
            c = t.get("callee") or f.callee(t) or ""
            if "Latitudes::latitude_" not in c or "coefficients" in c:
                continue
            a = f.arg_terms(bb)
            if len(a) < 2:
                continue
            x = a[1]
            n += 1
            ok = _is_angle(x)
            cx.ob("R-LAT-ARG-KIND", "%s/call%d" % (name, k), ok,
                  "%s passes an angle to %s" % (name, c.rsplit("::", 1)[-1]) if ok else
                  "%s passes the arithmetic expression %s to %s: no inverse trigonometric function, coordinate or "
                  "angular parameter enters it, so it is a ratio (a sine), not the angle the conversion expects" % (
                      name, mir.show(x)[:70], c.rsplit("::", 1)[-1]), cx.where(t["span"]))
            k += 1
    cx.count("R-LAT-ARG-KIND", "calls", n)


K_PP = "op::parsed_parameters::ParsedParameters"


def _is_read(y):
    return y[0] == "call" and isinstance(y[1], str) and (
        y[1].endswith(("get_coord", "::xy", "::xyz", "::xyzt")) or y[1].startswith(K_PP + "::"))


def _has_coord_read(t):
    hit = []

    def v(y):
        if y[0] == "call" and isinstance(y[1], str) and y[1].endswith(("get_coord", "::xy", "::xyz", "::xyzt")):
            hit.append(1)
            return False
        return not hit
    mir.walk(t, v)
    return bool(hit)


def _is_angle(t, depth=0):
    """angle-ness flows through sums, negation and multiplication by a scalar that does not depend on the tuple"""
    t = mir.strip_refs(t)
    if depth > 30:
        return False
    if t[0] == "cast":
        return _is_angle(t[2], depth + 1)
    if t[0] == "call" and isinstance(t[1], str):
        if t[1].endswith(ANGLE_MAKERS):
            return True
        if _is_read(t):
            return True
        if t[1].rsplit("::", 1)[-1] in ("clone", "unwrap", "unwrap_or", "copysign", "abs", "neg") and t[2]:
            return _is_angle(t[2][0], depth + 1)
        return False
    if t[0] == "proj":
        return _is_angle(t[1], depth + 1)
    if t[0] == "un":
        return _is_angle(t[2], depth + 1)
    if t[0] == "phi":
        return all(_is_angle(x, depth + 1) for x in t[2])
    if t[0] == "bin":
        a, b = t[2], t[3]
        if t[1] in ("Add", "Sub"):
            return _is_angle(a, depth + 1) or _is_angle(b, depth + 1)
        if t[1] == "Mul":
            return (_is_angle(a, depth + 1) and not _has_coord_read(b)) or (_is_angle(b, depth + 1) and not _has_coord_read(a))
        if t[1] == "Div":
            return _is_angle(a, depth + 1) and not _has_coord_read(b)
    return False


# ---------------------------------------------------------------------------------------------------------------------
# R-ELLPS-IDENTITIES (C06): derived shape parameters satisfy their defining identities, as rational functions of (a, f)

def _ratfun(f, t, facts, depth=0):
    """term -> (numerator Poly, denominator Poly, squared?) over the symbols a, f; None if not rational.
    `sqrt(X)` is only accepted at the top (handled by the caller)."""
    from poly import Poly
    import elems as E
    t = mir.strip_refs(t)
    if depth > 40:
        return None
    v = _fnum(t)
    if v is not None:
        from fractions import Fraction
        return (Poly.const(Fraction(v).limit_denominator(10**9)), Poly.const(1))
    if t[0] == "cast":
        return _ratfun(f, t[2], facts, depth + 1)
    if t[0] == "un" and t[1] == "Neg":
        r = _ratfun(f, t[2], facts, depth + 1)
        return None if r is None else (Poly.const(0) - r[0], r[1])
    if t[0] == "bin" and t[1] in ("Add", "Sub", "Mul", "Div"):
        a, b = _ratfun(f, t[2], facts, depth + 1), _ratfun(f, t[3], facts, depth + 1)
        if a is None or b is None:
            return None
        if t[1] == "Add":
            return (a[0] * b[1] + b[0] * a[1], a[1] * b[1])
        if t[1] == "Sub":
            return (a[0] * b[1] - b[0] * a[1], a[1] * b[1])
        if t[1] == "Mul":
            return (a[0] * b[0], a[1] * b[1])
        return (a[0] * b[1], a[1] * b[0])
    if t[0] == "call" and isinstance(t[1], str):
        tail = t[1].rsplit("::", 1)[-1]
        if "EllipsoidBase" in t[1] or t[1].startswith("ellipsoid::"):
            if tail in ("semimajor_axis", "a"):
                return (Poly.sym("a"), Poly.const(1))
            if tail in ("flattening", "f"):
                return (Poly.sym("f"), Poly.const(1))
            if facts.has_fn("ellipsoid::EllipsoidBase::" + tail):
                g = facts.fn("ellipsoid::EllipsoidBase::" + tail)
                rt = E.return_term(g)
                if rt is not None and rt[0] != "phi":
                    return _ratfun(g, rt, facts, depth + 1)
            return None
        if tail == "recip" and t[2]:
            r = _ratfun(f, t[2][0], facts, depth + 1)
            return None if r is None else (r[1], r[0])
        if tail == "powi" and len(t[2]) == 2 and t[2][1][0] == "const" and isinstance(t[2][1][2], int) and 0 <= t[2][1][2] <= 6:
            r = _ratfun(f, t[2][0], facts, depth + 1)
            if r is None:
                return None
            n, d = Poly.const(1), Poly.const(1)
            for _ in range(t[2][1][2]):
                n, d = n * r[0], d * r[1]
            return (n, d)
    return None


@rule("R-ELLPS-IDENTITIES", ["C06"])
def r_ellps_identities(cx):
    """The derived parameters of EllipsoidBase are rational functions of the semimajor axis a and the flattening f (or
    square roots of such). Each is brought to a quotient of polynomials by inlining the accessors it calls, and
    compared - by cross multiplication, exactly - with its defining identity: b = a(1-f), second flattening
    f/(1-f) = (a-b)/b, third flattening f/(2-f) = (a-b)/(a+b), aspect ratio... , e^2 = f(2-f), e'^2 = e^2/(1-e^2),
    polar radius of curvature a/(1-f); for the square roots (e, e', linear eccentricity) the squares are compared."""
    from poly import Poly
    import elems as E
    a, f1 = Poly.sym("a"), Poly.sym("f")
    one, two = Poly.const(1), Poly.const(2)
    es = f1 * (two - f1)
    want = {
        "semiminor_axis": (a * (one - f1), one, False),
        "second_flattening": (f1, one - f1, False),
        "third_flattening": (f1, two - f1, False),
        "aspect_ratio": (one, one - f1, False),      # as implemented upstream: a/b
        "eccentricity_squared": (es, one, False),
        "eccentricity": (es, one, True),
        "second_eccentricity_squared": (es, (one - f1) * (one - f1), False),
        "second_eccentricity": (es, (one - f1) * (one - f1), True),
        "polar_radius_of_curvature": (a, one - f1, False),
    }
    n = 0
    for name, (wn, wd, squared) in sorted(want.items()):
        full = "ellipsoid::EllipsoidBase::" + name
        if not cx.f.has_fn(full):
            cx.ob("R-ELLPS-IDENTITIES", name, False, "anchor-missing: %s" % full)
            continue
        g = cx.f.fn(full)
        rt = E.return_term(g)
        n += 1
        ok = False
        why = "its value is not a rational function of a and f that the analysis can read"
        if rt is not None:
            t = mir.strip_refs(rt)
            sq = False
            if t[0] == "call" and isinstance(t[1], str) and t[1].endswith("::sqrt") and t[2]:
                t = t[2][0]
                sq = True
            r = _ratfun(g, t, cx.f)
            if r is not None and sq == squared:
                ok = (r[0] * wd) == (wn * r[1])
                why = "it is (%s) / (%s)" % (r[0], r[1])
            elif r is not None:
                why = "a square root is %s" % ("missing" if squared else "unexpected")
        cx.ob("R-ELLPS-IDENTITIES", name, ok,
              "%s satisfies its defining identity in (a, f)" % name if ok else
              "EllipsoidBase::%s does not satisfy its defining identity as a function of a and f: %s" % (name, why),
              cx.where(g.d["span"]))
    cx.count("R-ELLPS-IDENTITIES", "parameters", n)


# ---------------------------------------------------------------------------------------------------------------------
# R-RECTIFY-ROTATION (C05, C01): omerc's skew-to-rectified step is a rotation

def _fpoly(t, S, C, depth=0):
    """floating point expression -> polynomial; sin/cos of the rectification angle are the symbols S, C, every other
    non-arithmetic subterm is an opaque symbol"""
    from poly import Poly
    t = mir.strip_refs(t)
    if t == S:
        return Poly.sym("S")
    if t == C:
        return Poly.sym("C")
    if depth > 50:
        return Poly.sym(repr(t))
    v = _fnum(t)
    if v is not None:
        from fractions import Fraction
        return Poly.const(Fraction(v).limit_denominator(10**12))
    if t[0] == "cast":
        return _fpoly(t[2], S, C, depth + 1)
    if t[0] == "un" and t[1] == "Neg":
        return -_fpoly(t[2], S, C, depth + 1)
    if t[0] == "bin" and t[1] in ("Add", "Sub", "Mul"):
        a, b = _fpoly(t[2], S, C, depth + 1), _fpoly(t[3], S, C, depth + 1)
        return a + b if t[1] == "Add" else (a - b if t[1] == "Sub" else a * b)
    return Poly.sym(repr(t))


def _coef(p, sym):
    """coefficient polynomial of sym^1 in p, and the remainder; None if sym occurs with another power"""
    from poly import Poly
    co, rest = {}, {}
    for k, v in p.t.items():
        d = dict(k)
        e = d.pop(sym, 0)
        if e == 0:
            rest[k] = v
        elif e == 1:
            co[tuple(sorted(d.items()))] = v
        else:
            return None
    return Poly(co), Poly(rest)


@rule("R-RECTIFY-ROTATION", ["C05", "C01"])
def r_rectify_rotation(cx):
    """The oblique Mercator turns skew (u, v) coordinates into easting/northing - and back - by a rotation through
    gamma_c. Every pair of values written (forward: x, y) or every pair (u, v) recomputed (inverse) is, as a polynomial
    in S = sin(gamma_c), C = cos(gamma_c) and opaque symbols for everything else, of the form
        first  = C p + S q + ...,   second = C q - S p + ...     (up to a common sign):
    the rows (p, q), (q, -p) are orthogonal and of equal length, so the map is conformal; a sign slip in one of the four
    terms makes it a shear."""
    import pertuple
    import elems as E
    n = fns = 0
    for fn in ("inner_op::omerc::fwd", "inner_op::omerc::inv"):
        f = cx.f.fn(fn)
        # S, C: the two projections of sin_cos(gamma_c) that occur in products
        sincos = {}
        for bb, t in f.calls():
            if (f.callee(t) or "").endswith("::sin_cos"):
                ct = f.call_term(t, bb)
                sincos[bb] = (("proj", ct, ("f", 0)), ("proj", ct, ("f", 1)))
        pairs = []
        if fn.endswith("fwd"):
            from rules.projections import written_xy_terms
            for pt in pertuple.per_tuple_loops(f):
                for (bb, e, nn) in written_xy_terms(f, pt):
                    pairs.append((bb, e, nn, f.term(bb)["span"]))
        else:
            # the inverse: the two statements `v = .. cc .. sc`, `u = .. cc .. sc`: take the Sub/Add assignments in
            # the per-tuple loop that mention both projections of one sin_cos
            cands = []
            for bb, i, s in f.all_stmts():
                if s["k"] == "assign" and s["rv"]["k"] == "bin" and s["rv"].get("op") in ("Add", "Sub") and \
                        f.innermost_loop(bb) is not None and "f64" in str(f.local_ty(s["place"]["l"])):
                    t = f.rvalue(s["rv"], (bb, i))
                    for key, (S, C) in sincos.items():
                        if _mentions_term2(t, S) and _mentions_term2(t, C):
                            cands.append((bb, i, t, key, s.get("span")))
            # keep the minimal expressions (those that contain no other candidate): the rotation itself
            tops = [c for c in cands if not any(c is not d and c[2] != d[2] and _mentions_term2(c[2], d[2]) for d in cands)]
            by = {}
            for c in tops:
                by.setdefault(c[3], []).append(c)
            for key, cs in by.items():
                if len(cs) == 2:
                    pairs.append((cs[0][0], cs[0][2], cs[1][2], cs[0][4] or f.d["span"]))
        n_before = n
        for (bb, e, nn, span) in pairs:
            # the angle of the rotation: the pair mentions the sine and cosine of several angles (gamma_c, and gamma_0
            # inside u and v) - it is a rotation if it is one with respect to one of them
            cands = [(S, C) for key, (S, C) in sorted(sincos.items()) if
                     _mentions_term2(e, S) and _mentions_term2(e, C) and _mentions_term2(nn, S) and _mentions_term2(nn, C)]
            if not cands:
                continue
            n += 1
            ok = False
            why = "the expressions are not linear in sin/cos of the rectification angle"
            for S, C in cands:
                pe, pn = _fpoly(e, S, C), _fpoly(nn, S, C)
                ce, cn = (_coef(pe, "C"), _coef(pe, "S")), (_coef(pn, "C"), _coef(pn, "S"))
                if all(x is not None for x in ce + cn):
                    eC, eS, nC, nS = ce[0][0], ce[1][0], cn[0][0], cn[1][0]
                    dot = eC * nC + eS * nS
                    norm = (eC * eC + eS * eS) - (nC * nC + nS * nS)
                    if dot.is_zero() and norm.is_zero() and not (eC.is_zero() and eS.is_zero()):
                        ok = True
                    why = "its rows are not orthogonal / of equal length (a shear, not a rotation)"
            cx.ob("R-RECTIFY-ROTATION", "%s/pair%d" % (fn, n - 1), ok,
                  "%s: the step between skew and rectified coordinates is a rotation through gamma_c" % fn if ok else
                  "%s: the step between skew (u, v) and rectified coordinates is not a rotation: %s" % (fn, why),
                  cx.where(span))
        if n == n_before:
            cx.ob("R-RECTIFY-ROTATION", "%s/anchor" % fn, False,
                  "anchor-missing: no pair of values built from sin/cos of the rectification angle found in %s" % fn,
                  cx.where(f.d["span"]))
        else:
            fns += 1
    cx.count("R-RECTIFY-ROTATION", "functions", fns)


@rule("R-COINCIDENCE-BOTH", ["C06"])
def r_coincidence_both(cx):
    """geodesic_inv answers "distance 0, azimuths 0" without computing when the two points coincide. Two points coincide
    when they agree in longitude *and* latitude: every constant result the function returns early is decided by a test
    that looks at both coordinate differences - not at the longitude difference alone, which would give every pair of
    points on one meridian the distance 0."""
    import guards
    import elems as E
    name = "ellipsoid::geodesics::Geodesics::geodesic_inv"
    f = cx.f.fn(name)
    rt = E.return_term(f)
    rt = mir.strip_refs(rt) if rt is not None else None
    n = 0
    if rt is not None and rt[0] == "phi" and isinstance(rt[1][0], int):
        reach = f.reachable()
        preds = [p for p in f.pred[rt[1][0]] if p in reach]
        if len(preds) == len(rt[2]):
            for p, arm in zip(preds, rt[2]):
                arm = mir.strip_refs(arm)
                if not (arm[0] == "call" and all(_fnum(mir.strip_refs(x)) is not None for x in arm[2])):
                    continue
                n += 1
                facts = guards.edge_facts(f, p, rt[1][0])
                elems_seen = set()
                for at, tv in facts:
                    def vis(y):
                        if y[0] == "proj" and isinstance(y[2], tuple) and y[2][0] == "f" and mir.strip_refs(y[1])[0] == "call" and \
                                str(mir.strip_refs(y[1])[1]).rsplit("::", 1)[-1] == "xy":
                            arg = mir.strip_refs(mir.strip_refs(y[1])[2][0])
                            elems_seen.add((arg, y[2][1]))
                        return True
                    mir.walk(at, vis)
                which = {k for _, k in elems_seen}
                args_ = {a for a, _ in elems_seen}
                ok = which == {0, 1} and len(args_) >= 2
                cx.ob("R-COINCIDENCE-BOTH", "geodesic_inv/shortcut%d" % (n - 1), ok,
                      "the coincidence short-cut compares both the longitudes and the latitudes of the two points" if ok else
                      "geodesic_inv returns a constant result on a test that looks at %s only: two different points that "
                      "agree there (e.g. on one meridian) get distance 0" % (
                          "the longitudes" if which == {0} else "the latitudes" if which == {1} else "neither coordinate"),
                      cx.where(f.d["span"]))
    cx.count("R-COINCIDENCE-BOTH", "shortcuts", n)


@rule("R-AZIMUTH-ATAN2", ["C06", "C01"])
def r_azimuth_atan2(cx):
    """An azimuth ranges over the full circle: the azimuths the geodesic routines return (element 2 of geodesic_fwd's
    result, elements 0 and 1 of geodesic_inv's) are two-argument arctangents of their sine-like and cosine-like parts.
    `(s / c).atan()` only covers half of the circle - every line heading into the other half gets its azimuth turned by
    180 degrees."""
    import elems as E
    import guards
    n = 0
    for fn, idxs in (("ellipsoid::geodesics::Geodesics::geodesic_fwd", (2,)), ("ellipsoid::geodesics::Geodesics::geodesic_inv", (0, 1))):
        if not cx.f.has_fn(fn):
            cx.ob("R-AZIMUTH-ATAN2", fn, False, "anchor-missing: %s" % fn)
            continue
        f = cx.f.fn(fn)
        rt = E.return_term(f)
        raws = []
        if rt is not None:
            mir.walk(rt, lambda y: (raws.append(y) if y[0] == "call" and isinstance(y[1], str) and y[1].endswith("Coor4D::raw") and
                                    y not in raws else None) or True)
        for r in raws:
            for k in idxs:
                if k >= len(r[2]):
                    continue
                n += 1
                v = mir.strip_refs(r[2][k])
                # allow a normalisation around it (adding / subtracting constants, rem_euclid ...)
                for _ in range(4):
                    if v[0] == "bin" and v[1] in ("Add", "Sub") and _fnum(mir.strip_refs(v[3])) is not None:
                        v = mir.strip_refs(v[2])
                    elif v[0] == "call" and isinstance(v[1], str) and v[1].rsplit("::", 1)[-1] in ("rem_euclid", "to_degrees", "to_radians") and v[2]:
                        v = mir.strip_refs(v[2][0])
                    else:
                        break
                kind = v[1].rsplit("::", 1)[-1] if v[0] == "call" and isinstance(v[1], str) else v[0]
                ok = kind == "atan2"
                cx.ob("R-AZIMUTH-ATAN2", "%s/elem%d" % (fn.rsplit("::", 1)[-1], k), ok,
                      "%s: element %d is an atan2" % (fn.rsplit("::", 1)[-1], k) if ok else
                      "%s returns an azimuth (element %d) computed by `%s`, not by a two-argument arctangent: lines heading "
                      "into the other half of the circle get an azimuth that is off by 180 degrees" % (
                          fn.rsplit("::", 1)[-1], k, kind), cx.where(f.d["span"]))
        # ... and so is every other angle of the solution that is recovered from a sine-like and a cosine-like part (the
        # angular separation sigma, the longitude difference): Vincenty's `tan x = s / c` transcribed as `(s / c).atan()`
        # loses the quadrant as soon as the line is longer than a quarter of the circumference
        q = 0
        for bb, t in f.calls():
            if (f.callee(t) or "").rsplit("::", 1)[-1] != "atan" or "f64" not in (f.callee(t) or ""):
                continue
            a = mir.strip_refs(f.arg_terms(bb)[0])
            if a[0] == "bin" and a[1] == "Div":
                q += 1
                cx.ob("R-AZIMUTH-ATAN2", "%s/quotient-atan%d" % (fn.rsplit("::", 1)[-1], q - 1), False,
                      "%s recovers an angle as the one-argument arctangent of a quotient: where the divisor is negative (lines "
                      "spanning more than 90 degrees of arc) the angle is off by 180 degrees" % fn.rsplit("::", 1)[-1],
                      cx.where(t["span"]))
    cx.count("R-AZIMUTH-ATAN2", "azimuths", n)


@rule("R-NONCONVERGENCE-FIRST", ["C10", "C06"])
def r_nonconvergence_first(cx):
    """The geodesic routines flag a solution that did not converge by an iteration count above 990 in element 3 of their
    result. The operator looks at that flag before it writes anything but NaN: every value written in the per-tuple loops
    of inner_op::geodesic (and every count) is dominated by the converged side of the `[3] > 990` test on the result of
    that iteration - in the `reversible` format as well."""
    import guards
    import pertuple
    n = 0
    for fn in ("inner_op::geodesic::fwd", "inner_op::geodesic::inv"):
        if not cx.f.has_fn(fn):
            cx.ob("R-NONCONVERGENCE-FIRST", "%s/anchor" % fn, False, "anchor-missing: %s" % fn)
            continue
        f = cx.f.fn(fn)
        for pt in pertuple.per_tuple_loops(f):
            from rules.loops import classify_write
            for wn, (bb, m) in enumerate(sorted(pt.writes)):
                if classify_write(f, bb, m) == "nan":
                    continue
                n += 1
                ok = False
                for at, tv in guards.branch_facts(f, bb):
                    at = mir.strip_refs(at)
                    if at[0] == "bin" and at[1] in ("Gt", "Ge") and not tv and _fnum(mir.strip_refs(at[3])) is not None and \
                            _fnum(mir.strip_refs(at[3])) >= 100:
                        l = mir.strip_refs(at[2])
                        if l[0] == "proj" and isinstance(l[2], tuple) and l[2][0] == "elem":
                            ok = True
                    if at[0] == "bin" and at[1] in ("Lt", "Le") and tv and _fnum(mir.strip_refs(at[3])) is not None and \
                            _fnum(mir.strip_refs(at[3])) >= 100:
                        ok = True
                cx.ob("R-NONCONVERGENCE-FIRST", "%s/write%d" % (fn.rsplit("::", 2)[-2] + "::" + fn.rsplit("::", 1)[-1], wn), ok,
                      "the value is written only where the iteration is known to have converged" if ok else
                      "%s writes a result (and counts the tuple) without having looked at the non-convergence flag of the "
                      "geodesic solution first: for nearly antipodal points a garbage azimuth and distance come out looking "
                      "valid" % fn, cx.where(f.term(bb)["span"]))
    cx.count("R-NONCONVERGENCE-FIRST", "value_writes", n)


@rule("R-FULL-CIRCLE", ["C14", "C06"])
def r_full_circle(cx):
    """A direction turned round is `(azimuth + 180) mod 360`: where the geodesic operator adds 180 (degrees) to an azimuth
    and reduces the sum, the modulus is the full circle."""
    n = 0
    for fn in sorted(cx.f.lib["fns"]):
        if not fn.startswith("inner_op::geodesic::") or "tests" in fn:
            continue
        f = cx.f.fn(fn)
        for bb, i, st in f.all_stmts():
            if not (st["k"] == "assign" and st["rv"]["k"] == "bin" and st["rv"].get("op") == "Rem"):
                continue
            v = f.rvalue(st["rv"], (bb, i))
            l, r = mir.strip_refs(v[2]), mir.strip_refs(v[3])
            if not (l[0] == "bin" and l[1] in ("Add", "Sub") and _fnum(mir.strip_refs(l[3])) == 180 and _fnum(r) is not None):
                continue
            n += 1
            cx.ob("R-FULL-CIRCLE", "%s/rem%d" % (fn.rsplit("::", 1)[-1], n - 1), _fnum(r) == 360,
                  "the reversed azimuth is reduced modulo 360" if _fnum(r) == 360 else
                  "%s reduces `azimuth + 180` modulo %s: for azimuths in the other half of the circle the reversed direction "
                  "collapses onto the direction itself" % (fn, _fnum(r)), cx.where(st.get("span")))
    cx.count("R-FULL-CIRCLE", "reductions", n)
