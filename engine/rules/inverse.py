"""Inverse-undoes-forward structural rules (C01, C07): R-ITER-DEAD, R-PAIRING, R-CLONE-AGREE, R-ONCE, R-TRANSPOSE,
R-ALIAS-WIRING."""
import keys as K
import mir
import pertuple
from rulebase import rule, spec
from rules.grids import shape
from rules.loops import header_phi, is_const_num
from rules.panics import scope_functions
from rules.projections import strip_transparent


def _leaves_loop(f, lp, succ):
    if succ not in lp.body:
        return True
    reach = f.reach_from([succ], avoid=[lp.header])
    return not any(l in reach for l in lp.latches) and lp.header not in f.succ[succ]


@rule("R-ITER-DEAD", ["C01"])
def r_iter_dead(cx):
    """a convergence test |a - b| < eps that is evaluated before a and b were updated in the first iteration, on
    values that start out equal, stops the iteration before it does anything"""
    n = 0
    for name in scope_functions(cx):
        f = cx.f.fn(name)
        k = 0
        for lp in f.loops():
            h = lp.header
            for bb in sorted(lp.body):
                sw = f.term(bb)
                if sw["k"] != "switch":
                    continue
                c = f.operand(sw["discr"], f.end_point(bb))
                if c[0] != "bin" or c[1] not in ("Lt", "Le"):
                    continue
                lhs = mir.strip_refs(c[2])
                if not (lhs[0] == "call" and isinstance(lhs[1], str) and lhs[1].split("::")[-1] in ("abs", "hypot")):
                    continue
                true_succ = sw["otherwise"]
                if not _leaves_loop(f, lp, true_succ):
                    continue
                n += 1
                dead = False
                why = "the tested difference is computed from values updated in the same pass"
                d = mir.strip_refs(lhs[2][0])
                if lhs[1].endswith("abs") and d[0] == "bin" and d[1] == "Sub":
                    a, b = d[2], d[3]
                    if a[0] == "loopphi" and b[0] == "loopphi" and a[1][0] == h and b[1][0] == h:
                        va, pa = header_phi(f, h, a[1][1])
                        vb, pb = header_phi(f, h, b[1][1])
                        if va is not None and vb is not None:
                            ea = [o for p, o in zip(pa, va[2]) if p not in lp.body]
                            eb = [o for p, o in zip(pb, vb[2]) if p not in lp.body]
                            if ea and eb and ea == eb:
                                dead = True
                                why = "`%s` and `%s` both start from the same value and are compared before the first " \
                                      "update: |x - x| < eps holds at once" % (f.lname(a[1][1]), f.lname(b[1][1]))
                cx.ob("R-ITER-DEAD", "%s/convergence%d" % (name, k), not dead,
                      "convergence test in %s: %s" % (name, why) if not dead else
                      "the iteration in %s never runs: %s, so the un-iterated initial guess is returned" % (name, why),
                      cx.where(sw["span"]))
                k += 1
    cx.count("R-ITER-DEAD", "convergence_tests", n)


@rule("R-PAIRING", ["C01"])
def r_pairing(cx):
    reg = cx.registry()
    ops = spec("operators.json")["operators"]
    n = 0
    for cpath, c in sorted(reg.ctors.items()):
        for name in c.names:
            n += 1
            sp = ops.get(name, {})
            if sp.get("placeholder"):
                continue
            where = cx.where(cx.f.fn(cpath).d["span"])
            one_way = bool(sp.get("one_way"))
            if one_way:
                ok = c.inv_kind == "None"
                cx.ob("R-PAIRING", "%s/one-way" % name, ok,
                      "%s is documented as one-way and registers no inverse" % name if ok else
                      "%s is documented as one-way but registers an inverse (%s)" % (name, c.inv), where)
                continue
            ok = c.inv_kind == "Some" and c.inv is not None and c.fwd is not None and c.inv != c.fwd
            cx.ob("R-PAIRING", "%s/pair" % name, ok,
                  "%s registers distinct forward and inverse functions (%s / %s)" % (name, c.fwd, c.inv) if ok else
                  "%s is documented as invertible but registers forward=%s inverse=%s (%s)" % (
                      name, c.fwd, c.inv, c.inv_kind), where)
    cx.count("R-PAIRING", "registry_rows", n)


def prelude_values(f):
    """name -> shape of the value of each user variable defined before the first per-tuple loop, when that value is
    computed in straight-line code from parameters only. A conditional value (`let DD = if .. {..} else {..}`) is
    not compared itself (two clones may legitimately write the same choice in different ways); where it is the value
    of a named variable it enters the expressions that use it as the atom ("var", name)."""
    pts = pertuple.per_tuple_loops(f)
    if not pts:
        return {}
    first = min(p.header for p in pts)
    vals = []
    for l, nm in f.name_of_local.items():
        if l <= f.nargs:
            continue
        defs = f.defs().get(l, ())
        if not defs or any(f.innermost_loop(r[0]) is not None for r in defs):
            continue
        dom = all(f.dominates(r[0], first) for r in defs)
        v = f.local_value(l, (first, 0))
        if v[0] == "unknown":
            if not dom:
                # assigned in the arms of a conditional and dead at the loop: its value is the join after the arms
                v = _join_value(f, l, defs, first)
                if v is None:
                    continue
            else:
                # dead at the header: take the value right after its last definition
                last = max(defs, key=lambda r: (r[0], r[1]))
                v = f._def_value_fwd(l, last)
        elif not dom and v[0] != "phi":
            continue
        vals.append((nm, shape(v)))
    named_phi = {}
    for nm, v in vals:
        if v[0] == "phi":
            named_phi.setdefault(v, set()).add(nm)

    def atoms(t):
        if not isinstance(t, tuple):
            return t
        if t and t[0] == "phi" and t in named_phi and len(named_phi[t]) == 1:
            return ("var", next(iter(named_phi[t])))
        return tuple(atoms(x) for x in t)

    out = {}
    for nm, v in vals:
        if v[0] == "phi":
            continue
        v = atoms(v)
        bad = []

        def visit(x):
            if x[0] in ("phi", "loopphi", "unknown", "mod"):
                bad.append(x)
            if x[0] == "arg" and x[1] == 3:
                bad.append(x)
            return True

        mir.walk(v, visit)
        if bad:
            continue
        out.setdefault(nm, []).append(v)
    return {k: v[0] for k, v in out.items() if len(v) == 1}


def _join_value(f, l, defs, first):
    """value of local `l` at the first block that is dominated by none of its definitions but post-joins them: the
    nearest block dominating `first` that all definitions reach; evaluated there if the local is live"""
    blocks = {r[0] for r in defs}
    b = first
    seen = set()
    cand = None
    while b is not None and b not in seen:
        seen.add(b)
        if any(f.dominates(b, d) for d in blocks):
            break
        cand = b
        nb = f.idom().get(b)
        b = None if nb == b else nb
    if cand is None:
        return None
    v = f.local_value(l, (cand, 0))
    return v if v[0] == "phi" else None


@rule("R-CLONE-AGREE", ["C01"])
def r_clone_agree(cx):
    """where the forward and the inverse function of an operator each recompute a like-named constant from the
    parameters in straight-line code, the two computations are the same expression"""
    reg = cx.registry()
    n = 0
    for cpath, c in sorted(reg.ctors.items()):
        if not c.fwd or not c.inv or c.fwd == c.inv:
            continue
        a = prelude_values(cx.f.fn(c.fwd))
        b = prelude_values(cx.f.fn(c.inv))
        for nm in sorted(set(a) & set(b)):
            n += 1
            ok = a[nm] == b[nm]
            cx.ob("R-CLONE-AGREE", "%s/%s" % (c.names[0], nm), ok,
                  "%s: forward and inverse compute `%s` by the same expression" % (c.names[0], nm) if ok else
                  "%s: forward and inverse compute the constant `%s` by different expressions: the inverse then inverts a "
                  "different mapping than the forward computes" % (c.names[0], nm),
                  cx.where(cx.f.fn(c.inv).d["span"]))
    # like-named boolean switches built with `||` / `&&` (short-circuit joins are not compared as expressions above):
    # the forward and the inverse function must at least build them from the same atoms
    import guards
    m_ = 0
    for cpath, c in sorted(reg.ctors.items()):
        if not c.fwd or not c.inv or c.fwd == c.inv:
            continue
        sets = {}
        for role, fn in (("fwd", c.fwd), ("inv", c.inv)):
            f = cx.f.fn(fn)
            pts = pertuple.per_tuple_loops(f)
            if not pts:
                continue
            first = min(p.header for p in pts)
            for l, nm in f.name_of_local.items():
                if l <= f.nargs or "bool" != str(f.local_ty(l)):
                    continue
                defs = f.defs().get(l, ())
                if not defs or any(f.innermost_loop(r[0]) is not None for r in defs):
                    continue
                v = f.local_value(l, (first, 0))
                if v[0] == "unknown":
                    v = _join_value(f, l, defs, first)
                if (v is None or v[0] == "unknown") and len(defs) == 1:
                    v = f._def_value_fwd(l, defs[0])      # dead at the loop, defined once: its value at the definition
                if v is None or v[0] == "unknown":
                    # dead at the loop: evaluate it where the arms that define it join
                    import slicing
                    ip = slicing.ipdom(f)
                    blocks = sorted({r[0] for r in defs})
                    dom = None
                    for cand in sorted(f.reachable()):
                        if all(f.dominates(cand, b) for b in blocks) and f.term(cand)["k"] == "switch":
                            if dom is None or f.dominates(dom, cand):
                                dom = cand
                    j = ip.get(dom) if dom is not None else None
                    v = f.local_value(l, (j, 0)) if j is not None and j != -1 else None
                if v is None or mir.strip_refs(v)[0] in ("unknown", "loopphi", "mod"):
                    continue
                ats = frozenset(shape(a) for a in guards.atoms(f, v))
                sets.setdefault(nm, {})[role] = ats
        for nm, d in sorted(sets.items()):
            if "fwd" in d and "inv" in d:
                m_ += 1
                ok = d["fwd"] == d["inv"]
                cx.ob("R-CLONE-AGREE", "%s/%s/atoms" % (c.names[0], nm), ok,
                      "%s: forward and inverse build the switch `%s` from the same tests" % (c.names[0], nm) if ok else
                      "%s: the switch `%s` is built from different tests in the forward and in the inverse function (one of "
                      "them forgets a case): the inverse then undoes another variant of the mapping than the forward applied"
                      % (c.names[0], nm), cx.where(cx.f.fn(c.inv).d["span"]))
    cx.count("R-CLONE-AGREE", "cloned_switches", m_)
    cx.count("R-CLONE-AGREE", "cloned_bindings", n)


# ---------------------------------------------------------------------------------------------------------------------
# C07

@rule("R-ONCE", ["C07"])
def r_once(cx):
    """in a constructor, an accumulating update `v = v + rate * dt` whose target and right-hand side do not depend on
    the loop variable must not sit inside a loop (it would be applied once per pass)"""
    reg = cx.registry()
    n = 0
    for cpath, c in sorted(reg.ctors.items()):
        if "helmert" not in c.names:
            continue
        f = cx.f.fn(cpath)
        for lp in f.loops():
            ind = pertuple.induction_terms(f, lp)
            for l in f.loop_carried(lp.header):
                if l in _iter_locals(f, lp):
                    continue
                v, preds = header_phi(f, lp.header, l)
                if v is None:
                    continue
                for p, o in zip(preds, v[2]):
                    if p not in lp.body:
                        continue
                    # whole-variable accumulation: carry + expr, expr independent of the induction variable
                    if o[0] == "bin" and o[1] in ("Add", "Sub") and o[2] == ("loopphi", (lp.header, l)):
                        dep = _mentions_terms(o[3], ind)
                        n += 1
                        cx.ob("R-ONCE", "%s/%s" % (cpath, f.lname(l)), dep,
                              "%s: the loop update of `%s` depends on the loop variable" % (cpath, f.lname(l)) if dep else
                              "%s: `%s` is advanced inside a loop by an amount that does not depend on the loop variable: "
                              "the update is applied once per pass (three times for the three axes) instead of once" % (
                                  cpath, f.lname(l)), cx.where(f.term(lp.header)["span"]))
                    elif o[0] == "upd":
                        n += 1
                        cx.ob("R-ONCE", "%s/%s" % (cpath, f.lname(l)), True,
                              "%s: `%s` is updated element-wise by the loop variable" % (cpath, f.lname(l)),
                              cx.where(f.term(lp.header)["span"]), nontrivial=False)
    if n == 0:
        # no loop in the constructor carries a value around (e.g. the updates are written through `iter_mut`, or
        # unrolled): nothing can be applied once per pass
        cx.ob("R-ONCE", "helmert/no-carried-update", True, "helmert: no constructor loop carries an accumulated value",
              cx.where(cx.f.fn(sorted(c for c, k in reg.ctors.items() if "helmert" in k.names)[0]).d["span"]), nontrivial=False)
    cx.count("R-ONCE", "constructors", sum(1 for c, k in reg.ctors.items() if "helmert" in k.names))


def _iter_locals(f, lp):
    t = pertuple.header_next(f, lp)
    out = set()
    if t is not None:
        for a in t["args"]:
            pl = mir.op_place(a)
            if pl is not None:
                for (tl, path, m) in f.alias().get(pl["l"], ()):
                    out.add(tl)
    return out


def _mentions_terms(t, needles):
    found = []

    def visit(x):
        if x in needles:
            found.append(1)
            return False
        return True

    mir.walk(t, visit)
    return bool(found)


@rule("R-TRANSPOSE", ["C07"])
def r_transpose(cx):
    name = "inner_op::helmert::rotation_matrix"
    if not cx.f.has_fn(name):
        cx.ob("R-TRANSPOSE", "anchor", False, "anchor-missing: %s" % name)
        return
    f = cx.f.fn(name)
    mats = []
    for bb in sorted(f.reachable()):
        if f.term(bb)["k"] != "return":
            continue
        v = f.local_value(0, f.end_point(bb))
        for leaf in _phi_leaves(v):
            m = _matrix(leaf)
            if m is not None and m not in mats:
                mats.append(m)
    cx.count("R-TRANSPOSE", "returned_matrices", len(mats))
    if len(mats) != 2:
        cx.ob("R-TRANSPOSE", "two-conventions", False,
              "rotation_matrix should return one matrix per convention, found %d distinct 3x3 aggregates" % len(mats),
              cx.where(f.d["span"]))
        return
    a, b = mats
    ok = all(a[i][j] == b[j][i] for i in range(3) for j in range(3))
    cx.ob("R-TRANSPOSE", "transposes", ok,
          "the position_vector and coordinate_frame matrices are element-wise transposes of each other" if ok else
          "the two matrices returned by rotation_matrix are not transposes of each other", cx.where(f.d["span"]))
    # which one is returned under position_vector (arg 3)?
    diag = all(a[i][i] == b[i][i] for i in range(3))
    cx.ob("R-TRANSPOSE", "same-diagonal", diag, "both conventions share the diagonal" if diag else
          "the diagonals of the two conventions differ", cx.where(f.d["span"]), nontrivial=False)


def _phi_leaves(t, depth=0):
    if t[0] == "phi" and depth < 8:
        out = []
        for o in t[2]:
            out.extend(_phi_leaves(o, depth + 1))
        return out
    return [t]


def _matrix(t):
    t = mir.strip_refs(t)
    if t[0] == "agg" and t[1] == "array" and len(t[2]) == 3:
        rows = []
        for r in t[2]:
            r = mir.strip_refs(r)
            if r[0] == "agg" and r[1] == "array" and len(r[2]) == 3:
                rows.append(tuple(shape(x) for x in r[2]))
            else:
                return None
        return tuple(rows)
    return None


@rule("R-ALIAS-WIRING", ["C07"])
def r_alias_wiring(cx):
    """helmert::new: element i of T/DT/R/DR comes from the i'th scalar alias or the i'th element of the list alias;
    S and DS from (scale|s) and (scale_trend|ds)"""
    want = spec("helmert_aliases.json")
    cpath = "inner_op::helmert::new"
    if not cx.f.has_fn(cpath):
        cx.ob("R-ALIAS-WIRING", "anchor", False, "anchor-missing: helmert::new")
        return
    f = cx.f.fn(cpath)
    ins = {key: val for (bb, m, key, val) in K.inserts_in(cx.f, f) if m in ("series", "real") and val is not None}
    n = 0
    for stored, spec_row in want["vectors"].items():
        v = ins.get(stored)
        if v is None:
            cx.ob("R-ALIAS-WIRING", "%s/stored" % stored, False, "helmert::new does not store %s" % stored)
            continue
        for i in range(3):
            n += 1
            keys_seen = _param_keys(cx, f, v, i)
            exp = {spec_row["scalars"][i], "%s[%d]" % (spec_row["list"], i)}
            ok = keys_seen == exp
            cx.ob("R-ALIAS-WIRING", "%s[%d]" % (stored, i), ok,
                  "%s[%d] is taken from %s" % (stored, i, " or ".join(sorted(exp))) if ok else
                  "%s[%d] must come from %s, but is wired to %s" % (stored, i, " or ".join(sorted(exp)), sorted(keys_seen)),
                  cx.where(f.d["span"]))
    for stored, row in want["scalars"].items():
        v = ins.get(stored)
        n += 1
        keys_seen = _param_keys(cx, f, v, None) if v is not None else set()
        exp = set(row)
        ok = keys_seen == exp
        cx.ob("R-ALIAS-WIRING", stored, ok, "%s is taken from %s" % (stored, " or ".join(sorted(exp))) if ok else
              "%s must come from %s, but is wired to %s" % (stored, " or ".join(sorted(exp)), sorted(keys_seen)),
              cx.where(f.d["span"]))
    cx.count("R-ALIAS-WIRING", "elements", n)


def _param_keys(cx, f, v, i):
    """parameter keys that feed element i (or the scalar when i is None) of the value term v, looking only at the
    value's initial construction (not at later rate updates)"""
    t = mir.strip_refs(v)
    # Vec::from(array) / array
    for _ in range(4):
        if t[0] == "call" and isinstance(t[1], str) and t[1].split("::")[-1] in ("from", "into", "to_vec") and t[2]:
            t = mir.strip_refs(t[2][0])
    if i is not None:
        # look through the t_obs update loop: take the entry value of a loop phi
        t = _entry_of(f, t)
        if t[0] == "agg" and t[1] == "array" and i < len(t[2]):
            t = t[2][i]
        else:
            return {"?"}
    else:
        t = _entry_of(f, t)
    # values handed back by a local helper (`explicit_or_element(&params, "x", translation[0])?`)
    import elems as E

    def root_call(y):
        y = mir.strip_refs(y)
        for _ in range(8):
            if y[0] == "proj":
                y = mir.strip_refs(y[1])
            elif y[0] == "call" and isinstance(y[1], str) and y[1].endswith("Try>::branch") and y[2]:
                y = mir.strip_refs(y[2][0])
            else:
                break
        return y[1] if y[0] == "call" and isinstance(y[1], str) else None

    def deep_look(y, depth=0):
        if not isinstance(y, tuple) or depth > 6:
            return y
        rc = root_call(y)
        y2 = y
        if rc is not None and cx.f.has_fn(rc) and not rc.startswith(K.PP + "::") and rc.startswith("inner_op::"):
            y2 = E.look_through_calls(f, y)
            if y2 is not y:
                return y2
        if y2[0] in ("bin",):
            return (y2[0], y2[1], deep_look(y2[2], depth + 1), deep_look(y2[3], depth + 1))
        if y2[0] == "phi":
            return (y2[0], y2[1], tuple(deep_look(o, depth + 1) for o in y2[2]))
        if y2[0] == "call" and len(y2) > 2:
            return (y2[0], y2[1], tuple(deep_look(o, depth + 1) for o in y2[2])) + tuple(y2[3:])
        return y2
    t = deep_look(t)
    keys = set()

    def visit(x):
        if x[0] == "call" and isinstance(x[1], str) and x[1] == K.PP + "::real":
            k = K._const_key(x[2][1])
            if k:
                keys.add(k)
        if x[0] == "proj" and isinstance(x[2], tuple) and x[2][0] == "elem" and len(x[2]) == 2:
            inner = strip_transparent(x[1])
            src = None
            for c in _calls(inner):
                if c[1] == K.PP + "::series":
                    src = K._const_key(c[2][1])
            if src:
                keys.add("%s[%d]" % (src, x[2][1]))
                return False
        return True

    mir.walk(t, visit)
    return keys


def _calls(t):
    out = []

    def visit(x):
        if x[0] == "call" and isinstance(x[1], str):
            out.append(x)
        return True

    mir.walk(t, visit)
    return out


def _entry_of(f, t, depth=0):
    """initial value of a variable that is later updated (in the t_obs block): strip phis / updates down to the
    first construction"""
    t = mir.strip_refs(t)
    if depth > 10:
        return t
    if t[0] == "phi":
        # prefer the operand that is not an update of another
        for o in t[2]:
            o2 = _entry_of(f, o, depth + 1)
            if o2[0] in ("agg", "bin", "call", "const"):
                cands = [_entry_of(f, x, depth + 1) for x in t[2]]
                cands.sort(key=lambda x: len(repr(x)))
                return cands[0]
        return t
    if t[0] == "loopphi":
        d = f.phi_def(t)
        preds = f.header_preds(t[1][0])
        lps = [l for l in f.loops() if l.header == t[1][0]]
        if d[0] == "phi" and lps:
            ops = [o for p, o in zip(preds, d[2]) if p not in lps[0].body]
            if ops:
                return _entry_of(f, ops[0], depth + 1)
        return t
    if t[0] == "upd":
        return _entry_of(f, t[1], depth + 1)
    if t[0] == "bin" and t[1] in ("Add",) and t[2][0] in ("loopphi", "phi", "bin"):
        # S += DS * dt  : the entry value is the left operand's entry
        inner = _entry_of(f, t[2], depth + 1)
        return inner
    return t


@rule("R-ROT-ORTHOGONAL", ["C07"])
def r_rot_orthogonal(cx):
    """exact mode: the matrix built by rotation_matrix is a proper rotation, i.e. R * R^T = I and det R = +1 as
    polynomial identities in (sin, cos) of the three angles modulo sin^2 + cos^2 = 1 (normal-form comparison)"""
    from poly import Poly
    name = "inner_op::helmert::rotation_matrix"
    if not cx.f.has_fn(name):
        cx.ob("R-ROT-ORTHOGONAL", "anchor", False, "anchor-missing: %s" % name)
        return
    f = cx.f.fn(name)
    mats = []
    import guards
    import elems as E
    rt0 = E.return_term(f)
    if rt0 is not None:
        # the matrix returned in exact mode, for either convention (joins selected by `exact` / `position_vector` are
        # resolved from the branch decisions that lead to their arms)
        for pv in (True, False):
            m = guards.resolve(f, rt0, {("arg", 2): True, ("arg", 3): pv})
            m = mir.strip_refs(m)
            if m[0] == "agg" and m[1] == "array" and len(m[2]) == 3 and m not in mats:
                mats.append(m)
    if not mats:
        for bb in sorted(f.reachable()):
            if f.term(bb)["k"] == "return":
                for leaf in _phi_leaves(f.local_value(0, f.end_point(bb))):
                    t = mir.strip_refs(leaf)
                    if t[0] == "agg" and t[1] == "array" and len(t[2]) == 3:
                        mats.append(t)
    if not mats:
        cx.ob("R-ROT-ORTHOGONAL", "anchor", False, "anchor-missing: no 3x3 matrix returned")
        return
    syms = {}

    def to_poly(t, exact, depth=0):
        t = mir.strip_refs(t)
        if depth > 60:
            raise ValueError("too deep")
        v = _num_const(t)
        if v is not None:
            return Poly.const(v)
        if t[0] == "bin" and t[1] in ("Add", "Sub", "Mul"):
            a, b = to_poly(t[2], exact, depth + 1), to_poly(t[3], exact, depth + 1)
            return a + b if t[1] == "Add" else (a - b if t[1] == "Sub" else a * b)
        if t[0] == "un" and t[1] == "Neg":
            return -to_poly(t[2], exact, depth + 1)
        if t[0] == "phi":
            # the `if exact {..}` joins: operand 0 comes from the fall-through (not exact), the last from the exact branch
            ops = list(t[2])
            pick = _pick_branch(f, t, exact)
            return to_poly(pick, exact, depth + 1)
        if t[0] == "proj" and isinstance(t[2], tuple) and t[2][0] == "f" and mir.strip_refs(t[1])[0] == "call" and \
                str(mir.strip_refs(t[1])[1]).endswith("::sin_cos"):
            arg = mir.strip_refs(t[1])[2][0]
            key = ("s" if t[2][1] == 0 else "c") + str(_angle_index(arg))
            return Poly.sym(key)
        # plain angle r[i] (small-angle mode: s = r, c = 1)
        key = "r" + str(_angle_index(t))
        return Poly.sym(key)

    for exact in (True,):
        for mi, m in enumerate(mats):
            try:
                M = [[to_poly(e, exact) for e in mir.strip_refs(row)[2]] for row in m[2]]
            except Exception as e:
                cx.ob("R-ROT-ORTHOGONAL", "matrix%d/extract" % mi, False,
                      "the entries of the returned matrix could not be read as polynomials in sin/cos of the angles: %s" % e,
                      cx.where(f.d["span"]))
                continue
            rules = {"c%d" % k: Poly.const(1) - Poly.sym("s%d" % k) * Poly.sym("s%d" % k) for k in range(3)}
            ok = True
            bad = None
            for i in range(3):
                for j in range(3):
                    acc = Poly()
                    for k in range(3):
                        acc = acc + M[i][k] * M[j][k]
                    acc = acc.reduce(rules)
                    want = Poly.const(1 if i == j else 0)
                    if not (acc == want):
                        ok = False
                        bad = (i, j, acc)
            cx.ob("R-ROT-ORTHOGONAL", "matrix%d/RRt=I" % mi, ok,
                  "exact mode, convention %d: R*R^T = I holds identically (9 polynomial identities modulo s^2+c^2=1)" % mi if ok
                  else "exact mode, convention %d: R*R^T != I (entry %s,%s reduces to %s): the matrix is not a rotation, "
                       "distances are not preserved for large angles" % (mi, bad[0], bad[1], str(bad[2])[:120]),
                  cx.where(f.d["span"]))
            det = (M[0][0] * (M[1][1] * M[2][2] - M[1][2] * M[2][1]) - M[0][1] * (M[1][0] * M[2][2] - M[1][2] * M[2][0])
                   + M[0][2] * (M[1][0] * M[2][1] - M[1][1] * M[2][0])).reduce(rules)
            okd = det == Poly.const(1)
            cx.ob("R-ROT-ORTHOGONAL", "matrix%d/det=1" % mi, okd,
                  "exact mode, convention %d: det R = +1 identically" % mi if okd else
                  "exact mode, convention %d: det R is %s, not +1" % (mi, str(det)[:100]), cx.where(f.d["span"]))


def _num_const(t):
    from rules.projections import _num
    return _num(t)


def _angle_index(t):
    """which of r[0], r[1], r[2] an angle term is"""
    t = mir.strip_refs(t)
    found = []

    def visit(x):
        if x[0] == "proj" and isinstance(x[2], tuple) and x[2][0] == "elem" and len(x[2]) == 2:
            found.append(x[2][1])
            return False
        return True

    mir.walk(t, visit)
    if len(found) != 1:
        raise ValueError("angle term not recognised: %s" % mir.show(t, maxd=3))
    return found[0]


def _pick_branch(f, phi, exact):
    """for a join created by `if exact { .. }`: the operand defined inside the branch when exact, else the other"""
    bb, l = phi[1]
    preds = [p for p in f.pred[bb] if p in f.reachable()]
    ops = list(phi[2])
    if len(ops) != len(preds):
        return ops[-1] if exact else ops[0]
    # the predecessor dominated by the true side of a test of arg2 (`exact`)
    for b2 in sorted(f.reachable()):
        sw = f.term(b2)
        if sw["k"] == "switch":
            c = f.operand(sw["discr"], f.end_point(b2))
            if c == ("arg", 2):
                true_succ = sw["otherwise"]
                for p, o in zip(preds, ops):
                    if f.dominates(true_succ, p):
                        return o if exact else [x for x in ops if x is not o][0]
    return ops[-1] if exact else ops[0]


@rule("R-HELMERT-ALGEBRA", ["C07", "C01"])
def r_helmert_algebra(cx):
    """helmert_common: the inverse branch composed with the forward branch is the identity as a polynomial identity in
    the input elements, the scale, the translation and the entries of the matrix, modulo R^T R = I (which
    R-ROT-ORTHOGONAL establishes for exact mode) - for the rotated and the unrotated path"""
    from poly import Poly, subst, reduce_products
    import elems as E
    name = "inner_op::helmert::helmert_common"
    if not cx.f.has_fn(name):
        cx.ob("R-HELMERT-ALGEBRA", "anchor", False, "anchor-missing: %s" % name)
        return
    f = cx.f.fn(name)
    pts = pertuple.per_tuple_loops(f)
    if len(pts) != 1:
        cx.ob("R-HELMERT-ALGEBRA", "anchor", False, "anchor-missing: one per-tuple loop expected in helmert_common")
        return
    pt = pts[0]
    from rules.loops import _input_term
    inp = _input_term(pt)

    def sym_of(t):
        """symbol name for a leaf term, or None"""
        t = mir.strip_refs(t)
        idx = []
        b = t
        while b[0] == "proj" and isinstance(b[2], tuple) and b[2][0] == "elem" and len(b[2]) == 2:
            idx.append(b[2][1])
            b = mir.strip_refs(b[1])
        idx.reverse()
        if b == inp and len(idx) == 1:
            return "c%d" % idx[0]
        root = b
        for _ in range(6):
            if root[0] in ("phi", "loopphi") and isinstance(root[1], tuple) and isinstance(root[1][1], int):
                nm = f.lname(root[1][1])
                return nm + "".join("_%d" % i for i in idx)
            break
        return None

    def to_poly(t, depth=0):
        t = mir.strip_refs(t)
        if depth > 80:
            raise ValueError("too deep")
        v = _num_const(t)
        if v is not None:
            return Poly.const(v)
        s = sym_of(t)
        if s is not None:
            return Poly.sym(s)
        if t[0] == "bin" and t[1] in ("Add", "Sub", "Mul"):
            a, b = to_poly(t[2], depth + 1), to_poly(t[3], depth + 1)
            return a + b if t[1] == "Add" else (a - b if t[1] == "Sub" else a * b)
        if t[0] == "bin" and t[1] == "Div":
            a = to_poly(t[2], depth + 1)
            s2 = sym_of(t[3])
            if s2 is None:
                raise ValueError("division by a non-symbol")
            return a * Poly.sym("inv_" + s2)
        if t[0] == "un" and t[1] == "Neg":
            return -to_poly(t[2], depth + 1)
        raise ValueError("not polynomial: %s" % mir.show(t, maxd=2)[:60])

    # written tuples, as alternatives (phi leaves), each a list of 4 element terms
    alts = []
    for bb, m in sorted(pt.writes):
        point = f.end_point(bb)
        v = f._deref(f.arg_terms(bb)[2], point)
        for leaf in _phi_leaves(mir.strip_refs(v)):
            es = E.elems(f, leaf, point)
            try:
                P = [to_poly(e) for e in es[:3]]
            except ValueError as e:
                cx.ob("R-HELMERT-ALGEBRA", "extract/write@%d" % len(alts), False,
                      "a tuple written by helmert_common is not polynomial in (input, scale, translation, matrix): %s" % e,
                      cx.where(f.term(bb)["span"]))
                return
            e3 = E.same_elem(es[3], ("proj", inp, ("elem", 3)), f, point)
            syms = set()
            for p in P:
                for k in p.t:
                    for s, _ in k:
                        syms.add(s)
            alts.append({"P": P, "rot": any(s.startswith("ROT") for s in syms), "inv": any(s.startswith("inv_") for s in syms),
                         "t_kept": e3, "where": cx.where(f.term(bb)["span"])})
    cx.count("R-HELMERT-ALGEBRA", "written_alternatives", len(alts))
    rules_inv = {}
    # orthogonality of columns: ROT_0i * ROT_0k = delta_ik - ROT_1i*ROT_1k - ROT_2i*ROT_2k
    ortho = {}
    for i in range(3):
        for k in range(i, 3):
            a, b = "ROT_0_%d" % i, "ROT_0_%d" % k
            rhs = Poly.const(1 if i == k else 0) - Poly.sym("ROT_1_%d" % i) * Poly.sym("ROT_1_%d" % k) \
                - Poly.sym("ROT_2_%d" % i) * Poly.sym("ROT_2_%d" % k)
            ortho[tuple(sorted((a, b)))] = rhs
    ortho[tuple(sorted(("SS", "inv_SS")))] = Poly.const(1)
    for rot in (True, False):
        F = [a for a in alts if a["rot"] == rot and not a["inv"]]
        G = [a for a in alts if a["rot"] == rot and a["inv"]]
        label = "rotated" if rot else "unrotated"
        if len(F) != 1 or len(G) != 1:
            cx.ob("R-HELMERT-ALGEBRA", "%s/branches" % label, False,
                  "anchor-missing: expected one forward and one inverse %s branch in helmert_common, found %d / %d" % (
                      label, len(F), len(G)))
            continue
        Fp, Gp = F[0]["P"], G[0]["P"]
        ok = True
        bad = None
        for i in range(3):
            comp = subst(Gp[i], {"c%d" % j: Fp[j] for j in range(3)})
            comp = reduce_products(comp, ortho)
            if not (comp == Poly.sym("c%d" % i)):
                ok = False
                bad = (i, comp)
        cx.ob("R-HELMERT-ALGEBRA", "%s/inv-after-fwd" % label, ok,
              "helmert (%s): inverse(forward(x)) = x identically in x, S, T%s" % (label, ", R (given R^T R = I)" if rot else "")
              if ok else
              "helmert (%s): inverse(forward(x)) != x: element %d becomes %s" % (label, bad[0], str(bad[1])[:160]), G[0]["where"])
        tk = F[0]["t_kept"] and G[0]["t_kept"]
        cx.ob("R-HELMERT-ALGEBRA", "%s/time-kept" % label, tk, "the fourth coordinate is copied through" if tk else
              "helmert (%s) changes the fourth coordinate" % label, G[0]["where"], nontrivial=False)
        # forward has the documented form T + S * R x : linear in x with coefficient S*R_ij and constant T_i
        okf = True
        for i in range(3):
            want = Poly.sym("TT_%d" % i)
            for j in range(3):
                if rot:
                    want = want + Poly.sym("SS") * Poly.sym("ROT_%d_%d" % (i, j)) * Poly.sym("c%d" % j)
                elif i == j:
                    want = want + Poly.sym("SS") * Poly.sym("c%d" % j)
            if not (Fp[i] == want):
                okf = False
        cx.ob("R-HELMERT-ALGEBRA", "%s/forward-form" % label, okf,
              "helmert forward (%s) is T + S*%sx element by element" % (label, "R*" if rot else "") if okf else
              "helmert forward (%s) is not T + S*%sx" % (label, "R*" if rot else ""), F[0]["where"])


# ---------------------------------------------------------------------------------------------------------------------
# R-RATE-PAIRING (C07): every Helmert parameter is advanced in time by its own rate, under the same condition

def _keys_deep(f, t):
    """all parameter keys (real/series/text reads with a literal key) in t, looking through loop-carried values"""
    keys = set()
    seen = set()

    def visit(x):
        if x[0] == "call" and isinstance(x[1], str) and x[1].startswith(K.PP + "::") and len(x[2]) > 1:
            k = K._const_key(x[2][1])
            if k:
                keys.add(k)
            tail = x[1].rsplit("::", 1)[-1]
            if tail in ("k", "x", "y", "lat", "lon") and x[2][1][0] == "const" and isinstance(x[2][1][2], int):
                keys.add("%s_%d" % (tail, x[2][1][2]))
        if x[0] == "loopphi" and x[1] not in seen:
            seen.add(x[1])
            d = f.phi_def(x)
            if d is not None and d[0] == "phi":
                for o in d[2]:
                    mir.walk(o, visit)
        return True

    mir.walk(t, visit)
    return keys


@rule("R-RATE-PAIRING", ["C07"])
def r_rate_pairing(cx):
    """(a) helmert::new: the values stored as T, R, S (after the optional fold to `t_obs`) depend only on the aliases
    of that parameter and of its own rate (T: x/y/z/translation + dx/dy/dz/velocity, ...), never on another
    parameter's rate. (b) helmert_common: each per-tuple refresh has the form P + dt*DP with matching keys, and the
    scale is refreshed under exactly the same conditions as the translation."""
    want = spec("helmert_aliases.json")
    groups = {}
    for name, row in want["vectors"].items():
        groups[name] = set(row["scalars"]) | {row["list"]}
    for name, row in want["scalars"].items():
        groups[name] = set(row)
    f = cx.f.fn("inner_op::helmert::new")
    ins = {key: val for (bb, m, key, val) in K.inserts_in(cx.f, f) if m in ("series", "real") and val is not None}
    n = 0
    timekeys = {"t_obs", "t_epoch"}
    for p in ("T", "R", "S"):
        v = ins.get(p)
        if v is None:
            continue
        n += 1
        got = _keys_deep(f, v)
        allowed = groups.get(p, set()) | groups.get("D" + p, set()) | timekeys
        foreign = sorted(k for k in got if k not in allowed and any(k in g for g in groups.values()))
        cx.ob("R-RATE-PAIRING", "new/%s" % p, not foreign,
              "the stored %s depends on its own aliases and on the rate D%s only" % (p, p) if not foreign else
              "helmert::new: the stored %s depends on %s - the parameters of another quantity (the fold to t_obs must "
              "advance %s with D%s)" % (p, ", ".join(foreign), p, p), cx.where(f.d["span"]))
    # (b) the per-tuple refresh
    g = cx.f.fn("inner_op::helmert::helmert_common")
    pairs = 0
    defs_of = {}
    for bb, i, s in g.all_stmts():
        if s["k"] != "assign" or s["rv"]["k"] != "bin" or s["rv"].get("op") != "Add":
            continue
        if g.innermost_loop(bb) is None:
            continue
        a = g.operand(s["rv"]["a"], (bb, i))
        b = g.operand(s["rv"]["b"], (bb, i))
        if not (b[0] == "bin" and b[1] == "Mul"):
            continue
        ka = _keys_deep(g, a)
        kb = _keys_deep(g, b) - timekeys
        if len(ka) == 1 and len(kb) == 1:
            pa, pb = next(iter(ka)), next(iter(kb))
            if pa in ("T", "R", "S"):
                pairs += 1
                ok = pb == "D" + pa
                defs_of.setdefault(pa, set()).add(bb)
                cx.ob("R-RATE-PAIRING", "common/%s#%d" % (pa, pairs), ok,
                      "%s is advanced by dt * D%s" % (pa, pa) if ok else
                      "helmert_common advances %s by dt * %s (must be D%s)" % (pa, pb, pa), cx.where(s.get("span") or g.d["span"]))
    import slicing
    cd = slicing.control_deps(g)

    def deps(blocks):
        out = set()
        work = list(blocks)
        while work:
            x = work.pop()
            for a in cd.get(x, ()):
                if a not in out:
                    out.add(a)
                    work.append(a)
        return out
    if "T" in defs_of and "S" in defs_of:
        dt_, ds_ = deps(defs_of["T"]), deps(defs_of["S"])
        ok = dt_ == ds_
        cx.ob("R-RATE-PAIRING", "common/S-condition", ok,
              "the scale is refreshed under exactly the conditions under which the translation is refreshed" if ok else
              "helmert_common refreshes the scale under other conditions than the translation (e.g. only when the "
              "operator has rotations): with a scale rate the scale then stays at its epoch value", cx.where(g.d["span"]))
    else:
        cx.ob("R-RATE-PAIRING", "common/S-condition", False,
              "helmert_common: no per-tuple refresh of the form T + dt*DT and S + dt*DS found", cx.where(g.d["span"]))
    cx.count("R-RATE-PAIRING", "refresh_statements", pairs)
    cx.count("R-RATE-PAIRING", "stored", n)


# ---------------------------------------------------------------------------------------------------------------------
# R-ALIAS-GUARD (C07): the test that selects a scalar alias is a test of that alias

@rule("R-ALIAS-GUARD", ["C07"])
def r_alias_guard(cx):
    """helmert::new takes each element from its scalar alias when that is given (non-zero) and from the list alias
    otherwise: `if real(K)? != 0. { real(K)? } else { list[i] }`. The key tested and the key read in the guarded branch
    are the same K - testing `rx` while reading `ry` drops a given `ry` whenever `rx` is zero."""
    new = cx.f.fn("inner_op::helmert::new")
    n = 0
    fns = [(new, 1)]
    for name in sorted(cx.f.lib["fns"]):
        if name.startswith("inner_op::helmert::") and "::tests" not in name and "{closure" not in name and name != "inner_op::helmert::new":
            calls = sum(1 for bb, t in new.calls() if (new.callee(t) or "") == name)
            if calls:
                fns.append((cx.f.fn(name), calls))     # a local helper: each call site is one guarded alias

    def key_terms(g, term):
        """keys (literal, or the helper's own key argument) of the real() reads a term is built from"""
        out = set()

        def vis(y):
            if y[0] == "call" and isinstance(y[1], str) and y[1] == K.PP + "::real" and len(y[2]) > 1:
                k = K._const_key(y[2][1])
                kt = mir.strip_refs(y[2][1])
                out.add(k if k is not None else ("arg", kt[1]) if kt[0] == "arg" else None)
            return True
        mir.walk(term, vis)
        out.discard(None)
        return out
    for f, weight in fns:
        for bb in sorted(f.reachable()):
            t = f.term(bb)
            if t["k"] != "switch":
                continue
            c = f.operand(t["discr"], f.end_point(bb))
            if not (c[0] == "bin" and c[1] in ("Ne", "Eq") and _fzero(c[3])):
                continue
            kc = key_terms(f, c[2]) if f is not new else set(_keys_deep(f, c[2]))
            if len(kc) != 1:
                continue
            kcond = next(iter(kc))
            false_bb = [b for v, b in t["targets"] if v == 0]
            taken = t["otherwise"] if c[1] == "Ne" else (false_bb[0] if false_bb else None)
            if taken is None:
                continue
            # reads of scalar parameters in the blocks reached from the taken side before the join
            other = (false_bb[0] if false_bb else None) if c[1] == "Ne" else t["otherwise"]
            region = f.reach_from([taken]) - (f.reach_from([other]) if other is not None else set())
            keys = set()
            for b2, t2 in f.calls():
                if b2 in region and (f.callee(t2) or "") == K.PP + "::real":
                    k = K._const_key(f.arg_terms(b2)[1])
                    kt = mir.strip_refs(f.arg_terms(b2)[1])
                    if k:
                        keys.add(k)
                    elif kt[0] == "arg":
                        keys.add(("arg", kt[1]))
            if not keys:
                # no second read: the value tested is itself the value used (`let v = real(k)?; if v != 0. { v } ..`)
                import elems as E
                rt = E.return_term(f)
                if f is not new and rt is not None and _mentions_value(rt, mir.strip_refs(c[2])):
                    n += weight
                    cx.ob("R-ALIAS-GUARD", "new/%s(key)" % f.name.rsplit("::", 1)[-1], True,
                          "the value tested against zero is the value handed back", cx.where(t["span"]))
                continue
            n += weight
            ok = keys == {kcond}
            label = kcond if isinstance(kcond, str) else "%s(key)" % f.name.rsplit("::", 1)[-1]
            cx.ob("R-ALIAS-GUARD", "new/%s" % label, ok,
                  "the scalar alias `%s` is used exactly when `%s` is given" % (label, label) if ok else
                  "helmert::new tests `%s` but reads %s in the guarded branch: a given %s is dropped or a missing one used, "
                  "depending on another parameter" % (label, ", ".join(sorted(str(x) for x in keys)),
                                                      ", ".join(sorted(str(x) for x in keys - {kcond})) or label),
                  cx.where(t["span"]))
    cx.count("R-ALIAS-GUARD", "guards", n)


def _fzero(t):
    return t[0] == "const" and isinstance(t[2], tuple) and t[2][0] == "float" and float(t[2][1]) == 0.0


# ---------------------------------------------------------------------------------------------------------------------
# R-FLAG-COVERS (C07): the `dynamic` / `rotated` predicates look at everything the flagged code uses

@rule("R-FLAG-COVERS", ["C07"])
def r_flag_covers(cx):
    """helmert's apply function evaluates the time dependent parameters (T + dt*DT, R + dt*DR, S + dt*DS) only under the
    flag `dynamic`, and rotates only under `rotated`; the constructor sets these flags from a predicate over the rates /
    angles. The predicate must look at every stored quantity that the flagged code reads: the decision to insert the
    flag mentions, for each key read under the flag at apply time, the value the constructor stores under that key -
    otherwise a definition whose only rate is the scale trend `ds` is treated as static."""
    import guards
    import slicing
    from rules.keysrules import flag_tests
    ctor = cx.f.fn("inner_op::helmert::new")
    apply_fns = [n for n in cx.f.lib["fns"] if n.startswith("inner_op::helmert::") and "::tests" not in n and n != "inner_op::helmert::new"]
    stored = {}
    for (bb, m, key, val) in K.inserts_in(cx.f, ctor):
        if val is not None:
            v = mir.strip_refs(val)
            for _ in range(4):      # Vec::from(array), array.to_vec(), .into(), .clone()
                if v[0] == "call" and isinstance(v[1], str) and v[1].rsplit("::", 1)[-1] in ("from", "to_vec", "into", "clone", "to_owned") and len(v[2]) == 1:
                    v = mir.strip_refs(v[2][0])
            stored.setdefault(key, []).append(v)
    flag_inserts = {}
    for bb, t in ctor.calls():
        c = ctor.callee(t) or ""
        if c.endswith("BTreeSet::<T, A>::insert"):
            a = ctor.arg_terms(bb)
            if K.receiver_map(cx.f, a[0]) == "boolean":
                k = K._const_key(a[1])
                if k:
                    flag_inserts.setdefault(k, []).append(bb)
    n = 0
    for flag in ("dynamic", "rotated"):
        # keys used under the flag at apply time
        used = set()
        for fn in apply_fns:
            f = cx.f.fn(fn)
            tests = []
            for sb in sorted(f.reachable()):
                st = f.term(sb)
                if st["k"] != "switch":
                    continue
                dd = f.operand(st["discr"], f.end_point(sb))
                zero = [tb for vv, tb in st["targets"] if vv == 0]
                if [vv for vv, _ in st["targets"] if vv != 0]:
                    continue
                # the side of the branch on which the flag is known to be set (through `!`, `&&` and stored booleans)
                for truth, succ in ((True, st["otherwise"]), (False, zero[0] if zero else None)):
                    if succ is None:
                        continue
                    for at, tv in guards.implied(f, dd, truth):
                        at = mir.strip_refs(at)
                        if tv and at[0] == "call" and at[1] == K.PP + "::boolean" and len(at[2]) > 1 and \
                                K._const_key(at[2][1]) == flag:
                            tests.append((succ, flag))
            tests = [x for x in tests if x[0] is not None]
            if not tests:
                continue
            reads = {}
            for r in K.find_reads(cx.f, f):
                reads[r.bb] = r.key
            for succ, _ in tests:
                dom = [b for b in f.reachable() if f.dominates(succ, b)]
                for b in dom:
                    for i, s in enumerate(f.stmts(b)):
                        if s["k"] != "assign":
                            continue
                        v = f.rvalue(s["rv"], (b, i))

                        def vis(y):
                            if y[0] == "call" and isinstance(y[1], str) and y[1].startswith(K.PP + "::") and len(y[2]) > 1:
                                kk = K._const_key(y[2][1])
                                if kk and y[1].rsplit("::", 1)[-1] in ("series", "real"):
                                    used.add(kk)
                            return True
                        mir.walk(v, vis)
        rate_keys = sorted(k for k in used if k in stored and k.startswith("D"))
        if flag == "rotated":
            rate_keys = sorted(k for k in used if k in stored and k in ("R", "DR"))
        if flag not in flag_inserts:
            cx.ob("R-FLAG-COVERS", "helmert/%s" % flag, False, "anchor-missing: helmert::new never sets the flag `%s`" % flag,
                  cx.where(ctor.d["span"]))
            continue
        cd = slicing.control_deps(ctor)
        ats = set()
        for ib in flag_inserts[flag]:
            seen, work = set(), [ib]
            while work:
                x = work.pop()
                for a in cd.get(x, ()):
                    if a in seen:
                        continue
                    seen.add(a)
                    work.append(a)
                    t = ctor.term(a)
                    if t["k"] == "switch":
                        ats |= guards.atoms(ctor, ctor.operand(t["discr"], ctor.end_point(a)))
        for key in rate_keys:
            n += 1
            vals = stored[key]
            hit = False
            for at in ats:
                for v in vals:
                    for vv in _variants(v):
                        if _mentions_value(at, vv):
                            hit = True
            cx.ob("R-FLAG-COVERS", "helmert/%s/%s" % (flag, key), hit,
                  "the decision to set `%s` looks at the value stored as %s" % (flag, key) if hit else
                  "helmert::new decides `%s` without looking at %s, which the apply function uses under that flag: a "
                  "definition whose only time dependence is %s is treated as static (its rate is ignored)" % (flag, key, key),
                  cx.where(ctor.term(flag_inserts[flag][0])["span"]))
    cx.count("R-FLAG-COVERS", "covered_keys", n)


def _mentions_value(t, v):
    hit = []

    def vis(y):
        if mir.strip_refs(y) == v:
            hit.append(1)
            return False
        return not hit
    mir.walk(t, vis)
    return bool(hit)


def _variants(v, depth=0):
    """the value and the earlier values it was built from (arms of a join, the base of an element update)"""
    v = mir.strip_refs(v)
    out = [v]
    if depth > 6:
        return out
    if v[0] == "phi":
        for o in v[2]:
            out += _variants(o, depth + 1)
    elif v[0] in ("upd", "mod"):
        out += _variants(v[1], depth + 1)
    return out


@rule("R-MOLO-BOTH-ELLPS", ["C07"])
def r_molo_both_ellps(cx):
    """molodensky derives da and df from the two ellipsoids only when *both* `ellps_0` and `ellps_1` were given by the
    user; with only one of them the other is a gamut default (GRS80), and an explicit `da` / `df` must stand. The block
    that stores the derived da / df is reached only with `given` containing both keys (facts implied by the dominating
    branch decisions, through `&&` / stored booleans) - an `||` there overwrites explicit values."""
    import guards
    f = cx.f.fn("inner_op::molodensky::new")
    n = 0
    for (bb, m, key, val) in K.inserts_in(cx.f, f):
        if m != "real" or key not in ("da", "df"):
            continue
        n += 1
        facts = guards.branch_facts(f, bb)
        given = set()
        for at, tv in facts:
            if tv and at[0] == "call" and isinstance(at[1], str) and at[1].endswith("::contains_key") and len(at[2]) > 1:
                k = K._const_key(at[2][1])
                if k:
                    given.add(k)
        ok = {"ellps_0", "ellps_1"} <= given
        cx.ob("R-MOLO-BOTH-ELLPS", "molodensky/%s" % key, ok,
              "the derived %s is stored only when both ellps_0 and ellps_1 were given" % key if ok else
              "molodensky::new overwrites %s with the difference of the two ellipsoids although only %s is known to be "
              "given there: with one of ellps_0 / ellps_1 missing, the other is the GRS80 default and an explicit %s is "
              "lost" % (key, sorted(given) or "neither", key), cx.where(f.term(bb)["span"]))
    cx.count("R-MOLO-BOTH-ELLPS", "derived_inserts", n)


@rule("R-ROT-SMALL-ANGLE", ["C07"])
def r_rot_small_angle(cx):
    """In small-angle mode (no `exact`) the rotation matrix is first order in the angles, which is what makes the two
    conventions interchangeable: M(-r) = M(r) transposed, so coordinate_frame with rotations r is position_vector with
    -r. Checked as a polynomial identity on the matrix rotation_matrix returns when `exact` is false (both settings of
    position_vector): element (i, j) at -r equals element (j, i) at r. Second-order products left in some elements only
    (r12, r13, r22, r23) break it."""
    import guards
    import elems as E
    from poly import Poly, subst
    from rules.algebra import _rf
    name = "inner_op::helmert::rotation_matrix"
    if not cx.f.has_fn(name):
        cx.ob("R-ROT-SMALL-ANGLE", "anchor", False, "anchor-missing: %s" % name)
        return
    f = cx.f.fn(name)
    rt = E.return_term(f)

    def resolve(t, assume, depth=0):
        t = mir.strip_refs(t)
        if depth > 40 or not isinstance(t, tuple):
            return t
        if t[0] == "phi" and isinstance(t[1], tuple) and isinstance(t[1][0], int):
            reach = f.reachable()
            preds = [p for p in f.pred[t[1][0]] if p in reach]
            if len(preds) == len(t[2]):
                keep = []
                for p, arm in zip(preds, t[2]):
                    facts = guards.edge_facts(f, p, t[1][0])
                    if any(mir.strip_refs(a) in assume and assume[mir.strip_refs(a)] != tv for a, tv in facts):
                        continue
                    keep.append(arm)
                uniq = []
                for k in keep:
                    r = resolve(k, assume, depth + 1)
                    if r not in uniq:
                        uniq.append(r)
                if len(uniq) == 1:
                    return uniq[0]
            return t
        if t[0] in ("bin",):
            return (t[0], t[1], resolve(t[2], assume, depth + 1), resolve(t[3], assume, depth + 1))
        if t[0] == "un":
            return (t[0], t[1], resolve(t[2], assume, depth + 1))
        if t[0] == "agg":
            return (t[0], t[1], tuple(resolve(x, assume, depth + 1) for x in t[2]))
        if t[0] == "proj":
            b = resolve(t[1], assume, depth + 1)
            if b[0] == "agg" and isinstance(t[2], tuple) and t[2][0] in ("f", "elem") and len(t[2]) > 1 and \
                    isinstance(t[2][1], int) and t[2][1] < len(b[2]):
                return b[2][t[2][1]]
            return (t[0], b, t[2])
        return t

    def atom(t):
        t = mir.strip_refs(t)
        if t[0] == "proj" and isinstance(t[2], tuple) and t[2][0] == "elem" and len(t[2]) > 1 and isinstance(t[2][1], int):
            b = mir.strip_refs(t[1])
            if b in (("proj", ("arg", 1), "deref"), ("arg", 1)):
                return "r%d" % t[2][1]
        return None
    n = 0
    for pv in (True, False):
        m = resolve(rt, {("arg", 2): False, ("arg", 3): pv}) if rt is not None else None
        ok, why = False, "the returned matrix could not be read for exact = false"
        if m is not None and m[0] == "agg" and len(m[2]) == 3 and all(r[0] == "agg" and len(r[2]) == 3 for r in m[2]):
            P = [[_rf(m[2][i][2][j], atom) for j in range(3)] for i in range(3)]
            if all(P[i][j] is not None for i in range(3) for j in range(3)):
                neg = {"r0": -Poly.sym("r0"), "r1": -Poly.sym("r1"), "r2": -Poly.sym("r2")}
                bad = []
                for i in range(3):
                    for j in range(3):
                        a_n, a_d = subst(P[i][j][0], neg), subst(P[i][j][1], neg)
                        b_n, b_d = P[j][i]
                        if not (a_n * b_d == b_n * a_d):
                            bad.append((i + 1, j + 1))
                ok = not bad
                why = "elements %s violate M(-r) = M(r)^T" % bad
        n += 1
        cx.ob("R-ROT-SMALL-ANGLE", "position_vector=%s" % str(pv).lower(), ok,
              "small-angle rotation matrix: M(-r) equals the transpose of M(r)" if ok else
              "rotation_matrix (exact = false, position_vector = %s): %s - in small-angle mode coordinate_frame with "
              "rotations r no longer equals position_vector with -r" % (str(pv).lower(), why), cx.where(f.d["span"]))
    cx.count("R-ROT-SMALL-ANGLE", "matrices", n)


@rule("T-MOLODENSKY", ["C07"])
def t_molodensky(cx):
    """The three-parameter part of the Molodensky formulas is the exact linearisation of a cartesian shift in geographic
    coordinates (da = df = 0): with J the Jacobian of (lam, phi, h) -> (X, Y, Z),
        dlam (N + h) cos phi = -dx sin lam + dy cos lam
        dphi (M + h)         = -(dx cos lam + dy sin lam) sin phi + dz cos phi
        dh                   =  (dx cos lam + dy sin lam) cos phi + dz sin phi
    and the abridged formulas are the same with h dropped from the two denominators. The values calc_molodensky_params
    returns (read as exact rational functions of dx, dy, dz, N, M, h and the sines / cosines, with da = df = adffda = 0)
    satisfy these identities - this is the clause "molodensky agrees with the cartesian three-parameter Helmert path"
    as far as it is algebra."""
    import guards
    import elems as E
    from poly import Poly, subst
    from rules.algebra import _rf
    name = "inner_op::molodensky::calc_molodensky_params"
    if not cx.f.has_fn(name):
        cx.ob("T-MOLODENSKY", "anchor", False, "anchor-missing: %s" % name)
        return
    f = cx.f.fn(name)
    adt = cx.f.lib["adts"].get("inner_op::molodensky::Molodensky")
    fields = [x["name"] for x in adt["variants"][0]["fields"]] if adt else []
    rt = E.return_term(f)

    def inline_all(t, depth=0):
        """replace calls of the module's own functions by what they return (a dispatcher over per-formula functions)"""
        t = mir.strip_refs(t)
        if depth > 6 or not isinstance(t, tuple):
            return t
        if t[0] == "call" and isinstance(t[1], str) and t[1].startswith("inner_op::molodensky::") and cx.f.has_fn(t[1]) and len(t) > 3:
            try:
                r = E.inline_call(f, t, None)
            except Exception:
                r = None
            if r is not None:
                return inline_all(r, depth + 1)
            return t
        if t[0] == "phi":
            return (t[0], t[1], tuple(inline_all(o, depth + 1) for o in t[2]))
        return t
    if rt is not None:
        rt = inline_all(rt)
    abr_atom = None
    if "abridged" in fields:
        abr_atom = ("proj", ("proj", ("arg", 1), "deref"), ("f", fields.index("abridged")))

    def atom(t):
        t = mir.strip_refs(t)
        if t[0] == "proj" and isinstance(t[2], tuple):
            b = mir.strip_refs(t[1])
            if t[2][0] == "f" and b in (("proj", ("arg", 1), "deref"), ("arg", 1)) and t[2][1] < len(fields):
                return "p_" + fields[t[2][1]]
            if t[2][0] == "elem" and len(t[2]) > 1 and isinstance(t[2][1], int) and b in (("proj", ("arg", 2), "deref"), ("arg", 2)):
                return ("lam", "phi", "h", "t")[t[2][1]] if t[2][1] < 4 else None
            if t[2][0] == "f" and b[0] == "call" and isinstance(b[1], str) and b[1].endswith("::sin_cos") and b[2]:
                inner = atom(b[2][0])
                if inner in ("lam", "phi"):
                    return ("s" if t[2][1] == 0 else "c") + inner
        if t[0] == "call" and isinstance(t[1], str):
            tail = t[1].rsplit("::", 1)[-1]
            if tail == "prime_vertical_radius_of_curvature":
                return "N"
            if tail == "meridian_radius_of_curvature":
                return "M"
            if tail == "index" and len(t[2]) == 2 and mir.strip_refs(t[2][1])[0] == "const":
                b = mir.strip_refs(t[2][0])
                if b in (("arg", 2), ("proj", ("arg", 2), "deref")):
                    k = mir.strip_refs(t[2][1])[2]
                    return ("lam", "phi", "h", "t")[k] if isinstance(k, int) and k < 4 else None
            if tail == "sin" and t[2]:
                # sin(2 phi) only occurs with the factor adffda, which is set to zero
                return "sin_other"
        return None
    S = Poly.sym
    zero = {"p_da": Poly.const(0), "p_df": Poly.const(0), "p_adffda": Poly.const(0)}
    fac = S("p_dx") * S("clam") + S("p_dy") * S("slam")
    n = 0
    for mode, abridged in (("full", False), ("abridged", True)):
        m = guards.resolve(f, rt, {abr_atom: abridged, mir.strip_refs(abr_atom): abridged,
                                   ("proj", ("arg", 1), abr_atom[2]): abridged}) if (rt is not None and abr_atom is not None) else None
        raws = []
        if m is not None:
            mir.walk(m, lambda y: (raws.append(y) if y[0] == "call" and isinstance(y[1], str) and y[1].endswith("Coor4D::raw")
                                   and y not in raws else None) or True)
        if len(raws) != 1:
            n += 1
            cx.ob("T-MOLODENSKY", mode, False,
                  "anchor-missing: cannot single out the %s result of calc_molodensky_params (%d candidates)" % (mode, len(raws)),
                  cx.where(f.d["span"]))
            continue
        a = raws[0][2]
        hh = Poly.const(0) if abridged else S("h")
        want = {
            "dlam": (S("p_dy") * S("clam") - S("p_dx") * S("slam"), (S("N") + hh) * S("cphi")),
            "dphi": (S("p_dz") * S("cphi") - fac * S("sphi"), S("M") + hh),
            "dh": (fac * S("cphi") + S("p_dz") * S("sphi"), Poly.const(1)),
        }
        for label, term in (("dlam", a[0]), ("dphi", a[1]), ("dh", a[2])):
            n += 1
            r = _rf(term, atom)
            ok = False
            why = "is not a rational function of the expected quantities"
            if r is not None:
                num, den = subst(r[0], zero), subst(r[1], zero)
                wn, wd = want[label]
                ok = num * wd == wn * den
                why = "is (%s) / (%s)" % (str(num)[:80], str(den)[:60])
            cx.ob("T-MOLODENSKY", "%s/%s" % (mode, label), ok,
                  "%s Molodensky: %s is the exact linearisation of the cartesian shift" % (mode, label) if ok else
                  "%s Molodensky: with da = df = 0, %s %s - not the linearised cartesian shift (e.g. the ellipsoidal height "
                  "missing from a denominator of the full formulas)" % (mode, label, why), cx.where(f.d["span"]))
    cx.count("T-MOLODENSKY", "identities", n)


@rule("R-MOLO-NO-PARTIAL-BYPASS", ["C07"])
def r_molo_no_partial_bypass(cx):
    """Molodensky's correction depends on the three translations *and* on da / df (the change of ellipsoid). If the
    common apply function returns a success count without entering its per-tuple loop, the decision must rest on all of
    these parameters: a short-cut for dx = dy = dz = 0 alone skips the change of ellipsoid (`ellps_0=WGS84 ellps_1=intl`
    with a null shift moves a point by some 90 m horizontally and 190 m in height)."""
    import guards
    name = "inner_op::molodensky::common"
    if not cx.f.has_fn(name):
        cx.ob("R-MOLO-NO-PARTIAL-BYPASS", "anchor", False, "anchor-missing: %s" % name)
        return
    f = cx.f.fn(name)
    heads = [pt.header for pt in pertuple.per_tuple_loops(f)]
    if not heads:
        heads = [lp.header for lp in f.loops() if lp.parent is None]
    rets = [b for b in f.reachable() if f.term(b)["k"] == "return"]
    used = set()
    for r in K.find_reads(cx.f, f):
        if r.map == "real":
            used.add(r.key)
    free = f.reach_from([0], avoid=tuple(heads)) if heads else set()
    n = 0
    ok = bool(heads)
    why = ""
    for b in sorted(free):
        t = f.term(b)
        if t["k"] != "switch" or [v for v, _ in t["targets"] if v != 0]:
            continue
        for x in set(f.succ[b]):
            if any(h in f.reach_from([x]) for h in heads) or not any(r in f.reach_from([x]) for r in rets):
                continue
            # x starts a pure by-pass. Is it an error / missing-parameter exit (returns the constant 0)?
            n += 1
            facts = guards.branch_facts(f, x)
            sd = guards._side(f, b, x)
            if sd is not None:
                facts |= guards.implied(f, f.operand(t["discr"], f.end_point(b)), sd)
            keys = set()
            for at, tv in facts:
                if mir.strip_refs(at)[0] == "bin":      # tests of the values, not of the presence of a parameter
                    keys |= _keys_deep(f, at)
            compares_values = any(mir.strip_refs(at)[0] == "bin" for at, tv in facts)
            if not compares_values:
                continue        # decided by the presence of a parameter (the `let Ok(dx) = .. else { return 0 }` exits)
            missing = sorted(k for k in used if k not in keys)
            if missing:
                ok = False
                why = ", ".join(missing)
    cx.ob("R-MOLO-NO-PARTIAL-BYPASS", "common", ok,
          "molodensky never by-passes its loop on the strength of a part of its parameters" if ok else
          "molodensky::common returns without entering its per-tuple loop on a test that does not look at %s: with a null "
          "translation the change of ellipsoid (da, df) is silently skipped" % why, cx.where(f.d["span"]))
    cx.count("R-MOLO-NO-PARTIAL-BYPASS", "bypasses", n)


@rule("R-FIXED-TIME", ["C07"])
def r_fixed_time(cx):
    """"Fixing t_obs is equivalent to giving every tuple that epoch" - for *every* t_obs, t_obs = t_epoch included. The
    flag `fixed_time` is set whenever a (non-NaN) t_obs is given; the decision does not compare t_obs with the epoch (or
    their difference with zero): if it did, `t_obs == t_epoch` would fall back to evaluating the parameters at each
    tuple's own epoch."""
    import guards
    f = cx.f.fn("inner_op::helmert::new")
    n = 0
    for bb, t in f.calls():
        c = f.callee(t) or ""
        if not c.endswith("BTreeSet::<T, A>::insert"):
            continue
        a = f.arg_terms(bb)
        if K.receiver_map(cx.f, a[0]) != "boolean" or K._const_key(a[1]) != "fixed_time":
            continue
        n += 1
        bad = []
        for at, tv in guards.branch_facts(f, bb):
            at = mir.strip_refs(at)
            if at[0] == "bin" and at[1] in ("Eq", "Ne", "Lt", "Le", "Gt", "Ge"):
                ks = _keys_deep(f, at)
                if "t_epoch" in ks and "t_obs" in ks:
                    bad.append(at)
        cx.ob("R-FIXED-TIME", "new/fixed_time%d" % (n - 1), not bad,
              "fixed_time is set for every given t_obs" if not bad else
              "helmert::new sets `fixed_time` only if a comparison of t_obs with t_epoch comes out a certain way (%s): for "
              "t_obs == t_epoch the operator evaluates its parameters at each tuple's own epoch instead" %
              mir.show(bad[0], maxd=3)[:60], cx.where(t["span"]))
    if n == 0:
        cx.ob("R-FIXED-TIME", "new/fixed_time", False, "anchor-missing: helmert::new never sets fixed_time", cx.where(f.d["span"]))
    cx.count("R-FIXED-TIME", "inserts", n)


@rule("R-PPM-ONCE", ["C07"])
def r_ppm_once(cx):
    """helmert's scale and scale rate are given in parts per million (per year) under either spelling (`s` / `scale`,
    `ds` / `scale_trend`): on the way from each of these parameters to the stored `S` / `DS` the value is multiplied by
    1e-6 exactly once - whichever spelling was used. A conversion added to one spelling on top of the common one makes
    a rate given as `ds` a million times too small."""
    name = "inner_op::helmert::new"
    if not cx.f.has_fn(name):
        cx.ob("R-PPM-ONCE", "anchor", False, "anchor-missing: %s" % name)
        return
    f = cx.f.fn(name)
    keys = ("s", "scale", "ds", "scale_trend")

    def paths(t, depth=0, seen=None):
        """{(key, number of 1e-6 factors on the way up)}"""
        t = mir.strip_refs(t)
        if depth > 40:
            return set()
        if t[0] == "call" and isinstance(t[1], str) and t[1].startswith(K.PP + "::") and len(t[2]) > 1 and K._const_key(t[2][1]) in keys:
            return {(K._const_key(t[2][1]), 0)}
        out = set()
        if t[0] == "bin" and t[1] == "Mul":
            for a, b in ((t[2], t[3]), (t[3], t[2])):
                nb = _num_const(mir.strip_refs(b))
                if nb is not None and abs(nb - 1e-6) < 1e-18:
                    return {(k, c + 1) for k, c in paths(a, depth + 1)}
        if t[0] == "loopphi":
            d = f.phi_def(t)
            if d is not None and d[0] == "phi" and depth < 30:
                for o in d[2]:
                    if o != t:
                        out |= paths(o, depth + 8)
            return out
        for ch in (t[2] if t[0] in ("phi", "call", "agg") and isinstance(t[2], tuple) else
                   (t[2], t[3]) if t[0] == "bin" else (t[1],) if t[0] in ("proj",) else (t[2],) if t[0] in ("un", "cast") else ()):
            if isinstance(ch, tuple):
                out |= paths(ch, depth + 1)
        return out
    n = 0
    for bb, t in f.calls():
        if not ((f.callee(t) or "").endswith("BTreeMap::<K, V, A>::insert") and len(f.arg_terms(bb)) > 2):
            continue
        key = K._const_key(f.arg_terms(bb)[1])
        if key not in ("S", "DS"):
            continue
        ps = paths(f.arg_terms(bb)[2])
        want = ("s", "scale") if key == "S" else ("ds", "scale_trend")
        for k in want:
            cs = sorted({c for kk, c in ps if kk == k})
            if not cs:
                continue
            n += 1
            cx.ob("R-PPM-ONCE", "new/%s/%s" % (key, k), cs == [1],
                  "`%s` reaches the stored %s through exactly one factor 1e-6" % (k, key) if cs == [1] else
                  "`%s` reaches the stored %s through %s factors 1e-6 (the ppm conversion is applied %s): the two spellings of "
                  "the parameter no longer mean the same" % (k, key, cs, "more than once" if max(cs) > 1 else "not at all"),
                  cx.where(t["span"]))
    cx.count("R-PPM-ONCE", "parameter_paths", n)


def _num_const(t):
    if t[0] == "const":
        v = t[2]
        if isinstance(v, tuple) and v and v[0] == "float":
            try:
                return float(v[1])
            except Exception:
                return None
        if isinstance(v, (int, float)) and not isinstance(v, bool):
            return float(v)
    return None
