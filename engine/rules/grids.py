"""Grid lookup rules (C08, C15, C01): R-TWO-PASS, R-GRID-SIGN, R-ENDIAN-ARMS, R-CONTAINS-AXES, R-MULTIMAP."""
import mir
import keys as K
import pertuple
from rulebase import rule
from rules.loops import is_const_num, upd_chain, _input_term
from rules.projections import _num


def shape(t, depth=0):
    """position-free copy of a term (block numbers of calls and phi keys removed) for sibling comparison"""
    if not isinstance(t, tuple) or depth > 60:
        return t
    tag = t[0]
    if tag == "call":
        return ("call", t[1] if isinstance(t[1], str) else "fnptr", tuple(shape(a, depth + 1) for a in t[2]))
    if tag == "phi":
        return ("phi", tuple(shape(a, depth + 1) for a in t[2]))
    if tag == "loopphi":
        return ("loopphi",)
    if tag == "mod":
        return ("mod", shape(t[1], depth + 1), t[2][1])
    out = [tag]
    for x in t[1:]:
        if isinstance(x, tuple) and x and isinstance(x[0], str):
            out.append(shape(x, depth + 1))
        elif isinstance(x, tuple):
            out.append(tuple(shape(y, depth + 1) if isinstance(y, tuple) else y for y in x))
        else:
            out.append(x)
    return tuple(out)


def _float_array_domain(f, lp):
    x = pertuple.iterator_entry_value(f, lp)
    if x is None:
        return None
    if x[0] == "call" and isinstance(x[1], str) and x[1].endswith("into_iter"):
        x = mir.strip_refs(x[2][0])
    if x[0] == "agg" and x[1] == "array":
        vals = [_num(e) for e in x[2]]
        if all(v is not None for v in vals):
            return [float(v) for v in vals]
    return None


@rule("R-TWO-PASS", ["C08"])
def r_two_pass(cx):
    """every search over a list of grids: outer loop over the margins [0.0, 0.5] in that order, inner loop over the
    grids in list order, first hit returns"""
    sites = []
    for name in cx.f.fn_names():
        if not name.startswith(("grid::", "inner_op::")):
            continue
        f = cx.f.fn(name)
        for bb, t in f.calls():
            if (t.get("callee") or "") != "grid::Grid::at":
                continue
            lp = f.innermost_loop(bb)
            if lp is None:
                continue
            full = f.term(lp.header).get("callee_full", "")
            if "dyn grid::Grid" not in full and "Arc<" not in full and _float_array_domain(f, lp) is None:
                continue
            sites.append((name, f, bb, t, lp))
    csites = _two_pass_closure_sites(cx)
    cx.count("R-TWO-PASS", "search_sites", len(sites) + len(csites))
    for n, (name, f, bb, g, gb) in enumerate(csites):
        # `for margin in [..] { if let Some(hit) = grids.iter().find_map(|grid| grid.at(coord, margin)) { return .. } }`
        k = [s[0] for s in csites[:n]].count(name)
        t = f.term(bb)
        where = cx.where(t["span"])
        key = "%s/find%d" % (name, k)
        full = t.get("callee_full", "")
        outer = f.innermost_loop(bb)
        dom = _float_array_domain(f, outer) if outer is not None else None
        is_grids = full.startswith("<std::slice::Iter<") and "grid::Grid" in full.split(" as ", 1)[0]
        cx.ob("R-TWO-PASS", key + "/nesting", is_grids and dom is not None,
              "%s: the margins are the outer loop, the search over the grid list the inner one" % name if is_grids and dom is not None else
              "%s: the grid search is not a search over the grid list inside a loop over the margins (searching %s, margins %s)" % (
                  name, full[:60], dom), where)
        cx.ob("R-TWO-PASS", key + "/margins", dom == [0.0, 0.5],
              "%s: margins tried are 0 then 0.5" % name if dom == [0.0, 0.5] else
              "%s: margins tried are %s, documented: 0 (inside) then 0.5 (half-cell margin)" % (name, dom), where)
        cx.ob("R-TWO-PASS", key + "/list-order", is_grids,
              "%s: grids are tried in list order" % name if is_grids else
              "%s: grids are not tried in list order (%s)" % (name, full[:70]), where)
        # the margin handed to at() is a capture of the closure, and what is captured is the outer induction value
        margin_ok = False
        a = g.arg_terms(gb)
        cap = _capture_index(a[2]) if len(a) > 2 else None
        clos = [x for x in f.arg_terms(bb) if x[0] == "agg" and isinstance(x[1], tuple) and x[1][0] == "closure"]
        if cap is not None and clos and cap < len(clos[0][2]) and outer is not None:
            v = clos[0][2][cap]
            if v[0] == "refplace" and not v[3]:
                v = f.local_value(v[2], f.end_point(bb))
            margin_ok = mir.strip_refs(v) in pertuple.induction_terms(f, outer)
        cx.ob("R-TWO-PASS", key + "/margin-arg", margin_ok,
              "%s: Grid::at is called with the margin of the current pass" % name if margin_ok else
              "%s: Grid::at is not called with the margin of the current pass" % name, where)
        # a hit leaves both loops
        first_hit = False
        nxt = t.get("target")
        if nxt is not None and outer is not None:
            for b2 in sorted(outer.body):
                sw = f.term(b2)
                if sw["k"] != "switch":
                    continue
                d = f.operand(sw["discr"], f.end_point(b2))
                src = None
                if d[0] == "discr":
                    src = mir.strip_refs(d[1])
                elif d[0] == "call" and str(d[1]).split("::")[-1] in ("is_some", "is_none") and d[2]:
                    src = mir.strip_refs(d[2][0])
                if not (src is not None and src[0] == "call" and src[3] == bb):
                    continue
                if d[0] == "discr":
                    some_succ = dict((v, tg) for v, tg in sw["targets"]).get(1, sw["otherwise"] if sw["targets"] and sw["targets"][0][0] == 0 else None)
                elif str(d[1]).endswith("is_some"):
                    some_succ = sw["otherwise"]
                else:
                    some_succ = sw["targets"][0][1] if sw["targets"] else None
                if some_succ is not None:
                    first_hit = outer.header not in f.reach_from([some_succ], avoid=[])
        cx.ob("R-TWO-PASS", key + "/first-hit", first_hit,
              "%s: the first grid that delivers a value ends the search" % name if first_hit else
              "%s: a hit does not end the search over grids and margins" % name, where)
    for n, (name, f, bb, t, lp) in enumerate(sites):
        k = [s[0] for s in sites[:n]].count(name)
        where = cx.where(t["span"])
        inner_full = f.term(lp.header).get("callee_full", "")
        inner_is_grids = "slice::Iter" in inner_full and "grid::Grid" in inner_full
        no_rev = not any(x in inner_full for x in ("Rev<", "Skip<", "StepBy<", "Take<", "Filter<"))
        outer = lp.parent
        dom = _float_array_domain(f, outer) if outer is not None else None
        ok_nest = inner_is_grids and dom is not None
        cx.ob("R-TWO-PASS", "%s/site%d/nesting" % (name, k), ok_nest,
              "%s: the margins are the outer loop and the grid list the inner loop" % name if ok_nest else
              "%s: the grid search is not `for margin in [..] { for grid in grids {..} }` (inner loop iterates %s, outer "
              "margins %s): an earlier grid's margin can win over a later grid's interior" % (name, inner_full[:60], dom),
              where)
        ok_dom = dom == [0.0, 0.5]
        cx.ob("R-TWO-PASS", "%s/site%d/margins" % (name, k), ok_dom,
              "%s: margins tried are 0 then 0.5" % name if ok_dom else
              "%s: margins tried are %s, documented: 0 (inside) then 0.5 (half-cell margin)" % (name, dom), where)
        cx.ob("R-TWO-PASS", "%s/site%d/list-order" % (name, k), inner_is_grids and no_rev,
              "%s: grids are tried in list order" % name if inner_is_grids and no_rev else
              "%s: grids are not tried in list order (%s)" % (name, inner_full[:70]), where)
        # the margin passed to at() is the outer induction value, the grid the inner one
        args = f.arg_terms(bb)
        margin_ok = outer is not None and args[2] in pertuple.induction_terms(f, outer)
        cx.ob("R-TWO-PASS", "%s/site%d/margin-arg" % (name, k), margin_ok,
              "%s: Grid::at is called with the margin of the current pass" % name if margin_ok else
              "%s: Grid::at is not called with the margin of the current pass" % name, where)
        # first hit leaves the search: from the Some side, no way back to the inner header
        nxt = t.get("target")
        first_hit = False
        if nxt is not None:
            reach = f.reach_from([nxt], avoid=[])
            # find the switch on the Option discriminant
            for b2 in sorted(lp.body):
                sw = f.term(b2)
                if sw["k"] != "switch":
                    continue
                d = f.operand(sw["discr"], f.end_point(b2))
                src = None
                if d[0] == "discr":
                    src = d[1]
                elif d[0] == "call" and str(d[1]).split("::")[-1] in ("is_some", "is_none") and d[2]:
                    src = mir.strip_refs(d[2][0])
                if src is not None and src[0] == "call" and src[3] == bb:
                    some_succ = None
                    if d[0] == "discr":
                        for v, tgt in sw["targets"]:
                            if v == 1:
                                some_succ = tgt
                        if some_succ is None and sw["targets"] and sw["targets"][0][0] == 0:
                            some_succ = sw["otherwise"]
                    elif str(d[1]).endswith("is_some"):
                        some_succ = sw["otherwise"]
                    else:
                        some_succ = sw["targets"][0][1] if sw["targets"] else None
                    if some_succ is not None:
                        top = outer if outer is not None else lp
                        enclosing = [l.header for l in f.loops() if l is not top and top.header in l.body and top.body <= l.body]
                        r2 = f.reach_from([some_succ], avoid=enclosing)
                        first_hit = lp.header not in r2 and (outer is None or outer.header not in r2)
        cx.ob("R-TWO-PASS", "%s/site%d/first-hit" % (name, k), first_hit,
              "%s: the first grid that delivers a value ends the search" % name if first_hit else
              "%s: a hit does not end the search over grids and margins" % name, where)


def _capture_index(t):
    """k when the term is the k-th capture of a closure (read through the environment argument)"""
    t = mir.strip_refs(t)
    while t[0] == "proj" and t[2] == "deref":
        t = mir.strip_refs(t[1])
    if t[0] == "proj" and isinstance(t[2], tuple) and t[2][0] == "f":
        b = mir.strip_refs(t[1])
        while b[0] == "proj" and b[2] == "deref":
            b = mir.strip_refs(b[1])
        if b == ("arg", 1):
            return t[2][1]
    return None


def _two_pass_closure_sites(cx):
    """searches written as `grids.iter().find_map(|grid| grid.at(coord, margin))`: (function, f, block of the find_map
    call, closure body, block of the Grid::at call in the closure)"""
    out = []
    for name in cx.f.fn_names():
        if not name.startswith(("grid::", "inner_op::")) or "{closure" in name:
            continue
        f = cx.f.fn(name)
        for bb, t in f.calls():
            if (f.callee(t) or "").rsplit("::", 1)[-1] != "find_map":
                continue
            for x in f.arg_terms(bb):
                if x[0] == "agg" and isinstance(x[1], tuple) and x[1][0] == "closure" and cx.f.has_fn(x[1][1]):
                    g = cx.f.fn(x[1][1])
                    for gb, gt in g.calls():
                        if (gt.get("callee") or "") == "grid::Grid::at" and g.innermost_loop(gb) is None:
                            out.append((name, f, bb, g, gb))
    return out


@rule("R-GRID-SIGN", ["C08", "C01"])
def r_grid_sign(cx):
    reg = cx.registry()
    byname = {}
    for cpath, c in reg.ctors.items():
        for n in c.names:
            byname[n] = c
    # gridshift: one band (geoid) fwd subtracts / inv adds on element 2; two bands (datum) fwd adds on 0,1
    c = byname.get("gridshift")
    if c is None or not c.fwd or not c.inv:
        cx.ob("R-GRID-SIGN", "gridshift/anchor", False, "anchor-missing: gridshift")
    else:
        res = {}
        for role, fn in (("fwd", c.fwd), ("inv", c.inv)):
            f = cx.f.fn(fn)
            for pt in pertuple.per_tuple_loops(f):
                inp = _input_term(pt)
                for bb, m in sorted(pt.writes):
                    v0 = mir.strip_refs(f._deref(f.arg_terms(bb)[2], f.end_point(bb)))
                    # the value written may be the join of the geoid and the datum shift branch
                    arms, work = [], [(v0, 0)]
                    while work:
                        x, dep = work.pop()
                        x = mir.strip_refs(x)
                        if x[0] == "phi" and dep < 4 and isinstance(x[1], tuple) and isinstance(x[1][0], int) and \
                                not any(lp.header == x[1][0] for lp in f.loops()):
                            work.extend((y, dep + 1) for y in x[2])
                        else:
                            arms.append(x)
                    for v in arms:
                        base, ups = upd_chain(v)
                        if mir.strip_refs(base) != inp:
                            continue
                        for path, val in ups:
                            if not (path and len(path) == 1 and path[0][0] == "elem" and len(path[0]) == 2):
                                continue
                            k = path[0][1]
                            if val[0] == "bin" and val[1] in ("Add", "Sub") and val[2] == ("proj", inp, ("elem", k)):
                                g = val[3]
                                gk = g[2][1] if (g[0] == "proj" and isinstance(g[2], tuple) and g[2][0] == "elem" and len(g[2]) == 2) else None
                                from_grid = "grids_at" in mir.show(g, maxd=8)
                                if from_grid:
                                    res.setdefault(role, set()).add((k, val[1], gk))
        want_fwd = {(2, "Sub", 0), (0, "Add", 0), (1, "Add", 1)}
        okf = res.get("fwd") == want_fwd
        cx.ob("R-GRID-SIGN", "gridshift/fwd", okf,
              "gridshift forward subtracts the geoid height (band 0) from element 2 and adds the datum shift bands 0,1 to "
              "elements 0,1" if okf else
              "gridshift forward applies the grid value as %s; documented: geoid height subtracted from element 2, datum "
              "shift bands (0,1) added to elements (0,1)" % sorted(res.get("fwd", [])), cx.where(cx.f.fn(c.fwd).d["span"]))
        inv_geoid = {x for x in res.get("inv", set()) if x[0] == 2}
        oki = inv_geoid == {(2, "Add", 0)}
        cx.ob("R-GRID-SIGN", "gridshift/inv", oki,
              "gridshift inverse adds the geoid height back to element 2" if oki else
              "gridshift inverse applies the geoid height as %s, must be the opposite of the forward (added)" % sorted(inv_geoid),
              cx.where(cx.f.fn(c.inv).d["span"]))
    # deformation: fwd uses the negated velocity, inv the raw one; everything else about the call agrees
    c = byname.get("deformation")
    if c is None or not c.fwd or not c.inv:
        cx.ob("R-GRID-SIGN", "deformation/anchor", False, "anchor-missing: deformation")
        return
    calls = {}
    for role, fn in (("fwd", c.fwd), ("inv", c.inv)):
        f = cx.f.fn(fn)
        for bb, t in f.calls():
            if (f.callee(t) or "").endswith("rotate_and_integrate_velocity"):
                calls[role] = (f, f.arg_terms(bb), t)
    if len(calls) != 2:
        cx.ob("R-GRID-SIGN", "deformation/anchor", False, "anchor-missing: the velocity integration calls of deformation")
        return
    vf = mir.strip_refs(calls["fwd"][1][0])
    vi = mir.strip_refs(calls["inv"][1][0])

    def scaled(v):
        if v[0] == "call" and str(v[1]).endswith("::scale") and len(v[2]) == 2:
            return _num(v[2][1]), shape(mir.strip_refs(v[2][0]))
        return 1, shape(v)

    sf, bf = scaled(vf)
    si, bi = scaled(vi)
    ok = sf is not None and si is not None and sf == -si and bf == bi
    cx.ob("R-GRID-SIGN", "deformation/velocity-sign", ok and sf == -1,
          "deformation forward integrates the negated grid velocity, the inverse the velocity itself" if ok and sf == -1 else
          "deformation forward/inverse must use the grid velocity with factors -1 / +1 (found %s / %s)" % (sf, si),
          cx.where(calls["fwd"][2]["span"]))
    for k, what in ((1, "longitude"), (2, "latitude"), (3, "duration")):
        a = shape(calls["fwd"][1][k])
        b = shape(calls["inv"][1][k])
        cx.ob("R-GRID-SIGN", "deformation/%s-agrees" % what, a == b,
              "deformation forward and inverse integrate over the same %s" % what if a == b else
              "deformation forward and inverse disagree on the %s passed to the velocity integration: the inverse does "
              "not undo the forward for tuples where they differ" % what, cx.where(calls["inv"][2]["span"]))


@rule("R-ENDIAN-ARMS", ["C15"])
def r_endian_arms(cx):
    """each NTv2Parser getter decodes with from_be_bytes on the big-endian arm and from_le_bytes on the other"""
    n = 0
    for name in cx.f.fn_names():
        if not name.startswith("grid::ntv2::parser::NTv2Parser::get_"):
            continue
        f = cx.f.fn(name)
        be = [bb for bb, t in f.calls() if (f.callee(t) or "").endswith("::from_be_bytes")]
        le = [bb for bb, t in f.calls() if (f.callee(t) or "").endswith("::from_le_bytes")]
        if not be and not le:
            continue
        n += 1
        # the switch on self.is_big_endian
        ok = False
        for b2 in sorted(f.reachable()):
            sw = f.term(b2)
            if sw["k"] != "switch" or sw.get("discr_ty") != "bool":
                continue
            true_succ = sw["otherwise"]
            false_succ = sw["targets"][0][1] if sw["targets"] else None
            if be and le and all(f.dominates(true_succ, b) for b in be) and all(f.dominates(false_succ, b) for b in le):
                ok = True
        cx.ob("R-ENDIAN-ARMS", name, ok,
              "%s decodes big-endian files with from_be_bytes and little-endian files with from_le_bytes" % name if ok else
              "%s does not pair the is_big_endian flag with from_be_bytes / from_le_bytes: one byte order decodes to "
              "garbage" % name, cx.where(f.d["span"]))
    cx.count("R-ENDIAN-ARMS", "getters", n)


@rule("R-CONTAINS-AXES", ["C08"])
def r_contains_axes(cx):
    """BaseGrid::contains: the bounds used for element k of the position only involve the fields of that axis"""
    name = "<grid::BaseGrid as grid::Grid>::contains"
    if not cx.f.has_fn(name):
        cx.ob("R-CONTAINS-AXES", "anchor", False, "anchor-missing: %s" % name)
        return
    f = cx.f.fn(name)
    fields = [x["name"] for x in cx.f.lib["adts"]["grid::BaseGrid"]["variants"][0]["fields"]]
    axis_of = {"lat_n": 1, "lat_s": 1, "dlat": 1, "lon_w": 0, "lon_e": 0, "dlon": 0}
    n = 0
    for bb, t in f.calls():
        if not (f.callee(t) or "").endswith("::clamp"):
            continue
        args = f.arg_terms(bb)
        x = mir.strip_refs(args[0])
        k = x[2][1] if (x[0] == "proj" and isinstance(x[2], tuple) and x[2][0] == "elem" and len(x[2]) == 2) else None
        used = set()

        def visit(y):
            if y[0] == "proj" and isinstance(y[2], tuple) and y[2][0] == "f" and y[1] == ("proj", ("arg", 1), "deref"):
                used.add(fields[y[2][1]])
            return True

        mir.walk(args[1], visit)
        mir.walk(args[2], visit)
        n += 1
        wrong = sorted(u for u in used if axis_of.get(u) is not None and axis_of[u] != k)
        need = {1: {"dlat"}, 0: {"dlon"}}.get(k, set())
        missing = sorted(need - used)
        ok = k in (0, 1) and not wrong and not missing
        cx.ob("R-CONTAINS-AXES", "clamp%d/elem%s" % (n, k), ok,
              "the containment test of position[%s] uses only the %s fields (%s)" % (
                  k, "longitude" if k == 0 else "latitude", ", ".join(sorted(used))) if ok else
              "the containment test of position[%s] uses %s%s: the margin of one axis is computed from the other axis' "
              "cell size" % (k, "fields of the other axis " + str(wrong) if wrong else "",
                             (" and lacks " + str(missing)) if missing else ""), cx.where(t["span"]))
    cx.count("R-CONTAINS-AXES", "clamps", n)


@rule("R-MULTIMAP", ["C08", "C15"])
def r_multimap(cx):
    """maps from a key to a *list* (parent -> children) are only ever extended: entry(..).or_insert*(..).push(..);
    an insert(key, fresh list) would drop the siblings registered before"""
    n = 0
    for name in cx.f.fn_names():
        if not name.startswith("grid::"):
            continue
        f = cx.f.fn(name)
        for bb, t in f.calls():
            c = f.callee(t) or ""
            full = t.get("callee_full") or ""
            if c.endswith("BTreeMap::<K, V, A>::insert") and "Vec<" in full.split("BTreeMap::<")[1] if "BTreeMap::<" in full else False:
                # value type is a Vec: BTreeMap::<K, Vec<..>>::insert
                targs = full.split("BTreeMap::<", 1)[1]
                # second type argument
                if ", std::vec::Vec<" in targs:
                    n += 1
                    cx.ob("R-MULTIMAP", "%s/insert%d" % (name, n), False,
                          "%s replaces the list stored under a key of a key->list map (insert) instead of extending it: "
                          "sub-grids registered earlier under the same parent become unreachable" % name,
                          cx.where(t["span"]))
        pushes = [bb for bb, t in f.calls() if (f.callee(t) or "").endswith("Vec::<T, A>::push") and
                  any(x in mir.show(f.arg_terms(bb)[0], maxd=6) for x in ("or_insert", "Entry::<", "or_default"))]
        for k, bb in enumerate(pushes):
            n += 1
            cx.ob("R-MULTIMAP", "%s/extend%d" % (name, k), True,
                  "%s extends the list under a key (entry().or_insert*().push())" % name, cx.where(f.term(bb)["span"]))
    cx.count("R-MULTIMAP", "sites", n)


# ---------------------------------------------------------------------------------------------------------------------
# R-FULL-RANGE (C08): unit conversion of Gravsoft grid values covers every value

@rule("R-FULL-RANGE", ["C08"])
def r_full_range(cx):
    """Each loop in normalize_gravsoft_grid_values that rewrites grid values (arc seconds to radians and band swap,
    mm/year to m/year) ranges over all of them: 0..grid.len(). A loop starting later or ending earlier leaves values
    in the file's unit at one end of the grid (the north-western corner node is the first value of the file)."""
    name = "grid::normalize_gravsoft_grid_values"
    f = cx.f.fn(name)
    n = 0
    for lp in f.loops():
        # does the loop body write elements of the grid (argument 2)?
        writes = False
        for bb, i, s in f.all_stmts():
            if bb in lp.body and s["k"] == "assign" and s["place"]["p"] and s["place"]["p"][0] == "deref" and \
                    s["place"]["l"] == 2:
                writes = True
        for bb, t in f.calls():
            if bb in lp.body and (f.callee(t) or "").endswith("::swap"):
                writes = True
        if not writes or f.innermost_loop(lp.header) is not lp:
            continue
        n += 1
        x = pertuple.iterator_entry_value(f, lp)
        ok = False
        why = "its iterator is not a range"
        if x is not None and x[0] == "call" and isinstance(x[1], str) and x[1].endswith("into_iter"):
            r = mir.strip_refs(x[2][0])
            if r[0] == "agg" and isinstance(r[1], tuple) and "Range" in str(r[1]) and len(r[2]) == 2:
                lo, hi = r[2]
                lo_ok = lo[0] == "const" and lo[2] == 0
                hi_s = mir.strip_refs(hi)
                hi_ok = (hi_s[0] == "un" and hi_s[1] == "PtrMetadata" and mir.strip_refs(hi_s[2]) in (("arg", 2), ("proj", ("arg", 2), "deref"))) or \
                    (hi_s[0] == "call" and isinstance(hi_s[1], str) and hi_s[1].endswith("::len") and
                     mir.strip_refs(hi_s[2][0]) in (("arg", 2), ("proj", ("arg", 2), "deref")))
                ok = lo_ok and hi_ok
                why = ("it starts at %s, not at 0" % mir.show(lo)[:30]) if not lo_ok else (
                    "it does not end at grid.len()" if not hi_ok else "")
        cx.ob("R-FULL-RANGE", "normalize/loop%d" % (n - 1), ok,
              "the conversion loop ranges over 0..grid.len()" if ok else
              "a conversion loop of normalize_gravsoft_grid_values does not cover all grid values: %s" % why,
              cx.where(f.term(lp.header)["span"]))
    cx.count("R-FULL-RANGE", "conversion_loops", n)


# ---------------------------------------------------------------------------------------------------------------------
# R-NULL-LAST (C08): the null grid is the last resort

@rule("R-NULL-LAST", ["C08"])
def r_null_last(cx):
    """In grids_at the null grid answers (zero correction) only after both passes over the real grids (strict, then
    with the half-cell margin) have failed: the block that returns the origin for `use_null_grid` lies outside the
    search loops - so a point in the margin of a real grid gets that grid's continued value, not zero."""
    f = cx.f.fn("grid::grids_at")
    sites = []
    for bb, t in f.calls():
        if (f.callee(t) or "").endswith("Coor4D::origin"):
            sites.append(bb)
    loops = f.loops()
    n = 0
    for bb in sites:
        n += 1
        # the answer may be reached only through the "iterator exhausted" exit of the outermost search loop
        outer = [lp for lp in loops if lp.parent is None]
        done_targets = set()
        for lp in outer:
            hs = {lp.header} | {x for x in f.succ[lp.header] if x in lp.body}
            for (a, b) in lp.exits:
                if a in hs and f.term(b)["k"] not in ("unreachable", "resume"):
                    done_targets.add(b)
        ok = bool(outer) and bool(done_targets) and bb not in f.reach_from([0], avoid=tuple(done_targets)) \
            and not any(bb in lp.body for lp in loops)
        cx.ob("R-NULL-LAST", "grids_at/null%d" % (n - 1), ok,
              "the null grid is consulted only after the strict and the margin pass over all grids" if ok else
              "grids_at answers with the null grid from inside the search loops: points within the half-cell margin of "
              "a grid get a zero correction instead of the grid's linearly continued one", cx.where(f.term(bb)["span"]))
    if n == 0:
        cx.ob("R-NULL-LAST", "grids_at/null0", False, "anchor-missing: no null-grid answer (Coor4D::origin) in grids_at",
              cx.where(f.d["span"]))
    cx.count("R-NULL-LAST", "null_answers", n)


@rule("R-NULL-AFTER-STRIP", ["C08"])
def r_null_after_strip(cx):
    """`@` marks a grid as optional, `null` names the null grid, and the documented spelling of an (always available)
    null grid at the end of a list is `@null`. In every constructor that walks a grid list (gridshift, deformation,
    deflection) the name compared with "null" is the name with the `@` prefix removed: otherwise `@null` is looked up as
    an optional grid file called `null`, not found, silently skipped - and points outside all grids become NaN."""
    from rules.keysrules import str_eq_guards
    n = 0
    for fn in ("inner_op::gridshift::new", "inner_op::deformation::new", "inner_op::deflection::new"):
        if not cx.f.has_fn(fn):
            continue
        f = cx.f.fn(fn)
        tests = []
        for bb, t in f.calls():
            a = f.arg_terms(bb)
            if len(a) != 2 or not ((f.callee(t) or "").rsplit("::", 1)[-1] in ("eq", "ne")):
                continue
            for lit_i, other_i in ((0, 1), (1, 0)):
                if K._const_key(a[lit_i]) == "null":
                    lhs = a[other_i]
                    if lhs[0] == "refplace" and not lhs[3]:
                        lhs = f.local_value(lhs[2], f.end_point(bb))
                    tests.append((bb, lhs))
        if not tests:
            cx.ob("R-NULL-AFTER-STRIP", fn, False, "%s does not recognise the null grid" % fn, cx.where(f.d["span"]))
            n += 1
            continue
        for succ, lhs in tests:
            n += 1
            hit = []

            def vis(y):
                if y[0] == "call" and isinstance(y[1], str) and y[1].rsplit("::", 1)[-1] in (
                        "trim_start_matches", "strip_prefix", "trim_matches", "trim_left_matches") and len(y[2]) > 1:
                    p = mir.strip_refs(y[2][1])
                    if p[0] == "const" and p[2] in (("char", "@"), ("str", "@")):
                        hit.append(1)
                return True
            mir.walk(lhs, vis)
            ok = bool(hit)
            cx.ob("R-NULL-AFTER-STRIP", fn, ok,
                  "%s compares the name with `null` after removing the `@` prefix" % fn if ok else
                  "%s compares the grid name with `null` before the `@` prefix is removed: `@null` is treated as a missing "
                  "optional grid and skipped, so the operator has no null grid" % fn, cx.where(f.d["span"]))
    cx.count("R-NULL-AFTER-STRIP", "null_tests", n)


@rule("R-NULL-ENDS-LIST", ["C08"])
def r_null_ends_list(cx):
    """The null grid answers everywhere, so it ends the search - and the documented behaviour is that it also ends the
    list: grids named after `null` are ignored (not loaded, not searched, and their absence is no error). In the three
    constructors that walk a grid list, the branch that records the null grid leaves the loop: the loop header is not
    reachable again from there."""
    n = 0
    for fn in ("inner_op::gridshift::new", "inner_op::deformation::new", "inner_op::deflection::new"):
        if not cx.f.has_fn(fn):
            continue
        f = cx.f.fn(fn)
        for bb, t in f.calls():
            c = f.callee(t) or ""
            if not c.endswith("BTreeSet::<T, A>::insert"):
                continue
            a = f.arg_terms(bb)
            if K.receiver_map(cx.f, a[0]) != "boolean" or K._const_key(a[1]) != "null_grid":
                continue
            lp = f.innermost_loop(bb)
            n += 1
            nxt = t.get("target")
            seen, work = set(), [nxt] if (nxt is not None and lp is not None) else []
            back = False
            while work:
                x = work.pop()
                if x in seen or x not in lp.body:
                    continue
                seen.add(x)
                if x == lp.header:
                    back = True
                    break
                work.extend(f.succ[x])
            cx.ob("R-NULL-ENDS-LIST", fn, not back,
                  "%s leaves the grid list loop once the null grid is recorded" % fn if not back else
                  "%s goes on with the next grid name after recording the null grid: grids listed after `null` are still "
                  "loaded (and a missing one is an error), contrary to the documented `ignore any additional grids`" % fn,
                  cx.where(t["span"]))
    cx.count("R-NULL-ENDS-LIST", "null_records", n)


@rule("R-GRID-MISS-IS-NAN", ["C10", "C08"])
def r_grid_miss_is_nan(cx):
    """A point for which `grids_at` finds no grid (outside coverage, no null grid) cannot be transformed: the tuple is
    overwritten with NaN and not counted. In the grid operators no result of `grids_at` is given a default
    (`unwrap_or(..)`, `unwrap_or_default()`, `unwrap_or_else(..)`) - that would hand back a partly computed tuple that
    looks valid."""
    n = 0
    bad_total = 0
    for name in sorted(cx.f.lib["fns"]):
        if not name.startswith(("inner_op::gridshift::", "inner_op::deformation::", "inner_op::deflection::")) or "::tests" in name:
            continue
        f = cx.f.fn(name)
        sites = [bb for bb, t in f.calls() if (f.callee(t) or "").endswith("grid::grids_at")]
        if not sites:
            continue
        n += len(sites)
        bad = []
        for bb, t in f.calls():
            tail = (f.callee(t) or "").rsplit("::", 1)[-1]
            if tail not in ("unwrap_or", "unwrap_or_default", "unwrap_or_else", "map_or", "map_or_else", "or", "or_else"):
                continue
            a = f.arg_terms(bb)
            src = mir.strip_refs(a[0]) if a else ("unknown",)
            if src[0] == "call" and isinstance(src[1], str) and src[1].endswith("grid::grids_at"):
                bad.append((tail, t["span"]))
        bad_total += len(bad)
        cx.ob("R-GRID-MISS-IS-NAN", name, not bad,
              "%s: no grid look-up is given a default" % name if not bad else
              "%s gives a failed grid look-up a default value (%s) instead of writing NaN: a tuple at the rim of the coverage "
              "comes back partly computed and is counted as a success" % (name, bad[0][0]),
              cx.where(bad[0][1]) if bad else cx.where(f.d["span"]))
    cx.count("R-GRID-MISS-IS-NAN", "lookups", n)


@rule("R-MARGIN-PASSED", ["C08"])
def r_margin_passed(cx):
    """`Grid::at(coord, margin)`: the margin the caller asks for governs both steps of an NTv2 look-up - finding the
    sub-grid and interpolating in it. In `<Ntv2Grid as Grid>::at` (and the closure it hands to `and_then`) every call
    that takes a margin receives the caller's margin, not a constant."""
    base = "<grid::ntv2::Ntv2Grid as grid::Grid>::at"
    n = 0
    for name in sorted(cx.f.lib["fns"]):
        if not (name == base or name.startswith(base + "::{closure")):
            continue
        f = cx.f.fn(name)
        for bb, t in f.calls():
            c = (f.callee(t) or "") + " " + (t.get("callee") or "")
            if not (c.split()[0].endswith("::at") or "find_grid" in c or "Grid::at" in c):
                continue
            a = f.arg_terms(bb)
            if len(a) < 3:
                continue
            n += 1
            m = mir.strip_refs(a[2])
            is_const = m[0] == "const"
            cx.ob("R-MARGIN-PASSED", "%s/call%d" % (name.rsplit("::", 1)[-1] if "{closure" in name else "at", n - 1), not is_const,
                  "the caller's margin is passed on" if not is_const else
                  "Ntv2Grid::at passes the constant margin %s on instead of the margin it was called with: a point within the "
                  "half-cell margin of the root grid is found but not interpolated, and gridshift stomps it" % (m[2],),
                  cx.where(t["span"]))
    cx.count("R-MARGIN-PASSED", "margin_calls", n)


@rule("R-SUBGRID-STRICT", ["C08"])
def r_subgrid_strict(cx):
    """`Ntv2Grid::find_grid(coord, margin)`: the walk down the parent/child tree decides by strict containment (sub-grids
    of one parent do not overlap, so the first hit is the only candidate): a `contains` test inside the walk loop takes a
    margin that does not depend on the caller's margin - otherwise a point inside sub-grid B but within the caller's
    half-cell margin of its sibling A, listed first, is interpolated in A. The caller's margin is used after the walk,
    for the outer rim of the base grids."""
    name = "grid::ntv2::Ntv2Grid::find_grid"
    if not cx.f.has_fn(name):
        cx.ob("R-SUBGRID-STRICT", "anchor", False, "anchor-missing: %s" % name)
        return
    f = cx.f.fn(name)
    inside = outside = 0
    for bb, t in f.calls():
        c = f.callee(t) or ""
        if not c.endswith("::contains") or "BaseGrid" not in c + (t.get("callee_full") or ""):
            continue
        a = f.arg_terms(bb)
        if len(a) < 3:
            continue
        dep = [False]
        mir.walk(a[2], lambda y: (dep.__setitem__(0, True) if y[:2] == ("arg", 3) else None) or True)
        if f.innermost_loop(bb) is not None and _walk_loop(f, f.innermost_loop(bb)):
            inside += 1
            cx.ob("R-SUBGRID-STRICT", "walk/contains%d" % (inside - 1), not dep[0],
                  "the tree walk tests strict containment" if not dep[0] else
                  "find_grid: the walk down the sub-grid tree tests containment with the caller's margin: a point in the "
                  "margin of a sub-grid listed before the one that contains it is interpolated in the wrong sub-grid",
                  cx.where(t["span"]))
        elif dep[0]:
            outside += 1
    # the rim search written as `base_grids.iter().find_map(|g| g.contains(coord, margin) ..)`: the margin is a capture
    for cname in sorted(cx.f.lib["fns"]):
        if not cname.startswith(name + "::{closure"):
            continue
        g = cx.f.fn(cname)
        for bb, t in g.calls():
            c = g.callee(t) or ""
            if not c.endswith("::contains") or "BaseGrid" not in c + (t.get("callee_full") or ""):
                continue
            a = g.arg_terms(bb)
            cap = _capture_index(a[2]) if len(a) > 2 else None
            if cap is None:
                continue
            for pb, pt_ in f.calls():
                for x in f.arg_terms(pb):
                    if x[0] == "agg" and isinstance(x[1], tuple) and x[1] == ("closure", cname) and cap < len(x[2]):
                        v = x[2][cap]
                        if v[0] == "refplace" and not v[3]:
                            v = f.local_value(v[2], f.end_point(pb))
                        dep = [False]
                        mir.walk(v, lambda y: (dep.__setitem__(0, True) if y[:2] == ("arg", 3) else None) or True)
                        if dep[0] and f.innermost_loop(pb) is None:
                            outside += 1
    cx.ob("R-SUBGRID-STRICT", "rim", outside > 0,
          "after the walk, the base grids are tried with the caller's margin" if outside else
          "find_grid never tests containment with the caller's margin: the half-cell margin outside the file's coverage "
          "is not served", cx.where(f.d["span"]))
    cx.count("R-SUBGRID-STRICT", "walk_contains", inside)


def _walk_loop(f, lp):
    """the loop that walks down the tree: it pops from a work list that it also refills"""
    tails = set()
    for b in lp.body:
        t = f.term(b)
        if t["k"] == "call":
            tails.add((f.callee(t) or "").rsplit("::", 1)[-1])
    return "pop" in tails or "pop_front" in tails or "clone_from" in tails


@rule("R-BAND-ORDER", ["C08", "C15"])
def r_band_order(cx):
    """Gravsoft files hold the bands of a node in latitude, longitude(, height) order, the library works in longitude,
    latitude(, height) order: normalize_gravsoft_grid_values exchanges the *first two* bands of every node. In the flat
    value array of a grid with m bands that is `swap(i, i + 1)` for the i with i mod m = 0 (or `swap(i, i - 1)` for
    i mod m = 1): the lower of the two positions exchanged is a multiple of m, and m is the band count of the branch."""
    import guards
    name = "grid::normalize_gravsoft_grid_values"
    if not cx.f.has_fn(name):
        cx.ob("R-BAND-ORDER", "anchor", False, "anchor-missing: %s" % name)
        return
    f = cx.f.fn(name)
    n = 0
    for bb, t in f.calls():
        if not (f.callee(t) or "").endswith("<impl [T]>::swap") or f.innermost_loop(bb) is None:
            continue
        a = [mir.strip_refs(x) for x in f.arg_terms(bb)[1:]]
        if len(a) != 2:
            continue

        def off(x, base):
            if x == base:
                return 0
            if x[0] == "bin" and x[1] in ("Add", "Sub") and mir.strip_refs(x[2]) == base and is_const_num(x[3]):
                return x[3][2] if x[1] == "Add" else -x[3][2]
            return None
        base = a[0] if a[0][0] != "bin" else mir.strip_refs(a[0][2])
        o = [off(x, base) for x in a]
        if None in o:
            continue
        res = bands = None
        for at, tv in guards.branch_facts(f, bb):
            at = mir.strip_refs(at)
            if at[0] == "bin" and at[1] == "Eq" and tv and is_const_num(at[3]):
                l = mir.strip_refs(at[2])
                if l[0] == "bin" and l[1] == "Rem" and mir.strip_refs(l[2]) == base and is_const_num(l[3]):
                    res = (l[3][2], at[3][2])
                elif l[0] == "proj":
                    bands = at[3][2]
        if res is None:
            continue
        n += 1
        m, r = res
        ok = abs(o[0] - o[1]) == 1 and (r + min(o)) % m == 0 and (bands is None or bands == m)
        cx.ob("R-BAND-ORDER", "swap%d" % (n - 1), ok,
              "for %d-band grids the first two bands of every node are exchanged" % m if ok else
              "normalize_gravsoft_grid_values exchanges positions i%+d and i%+d for i mod %d = %d%s: these are not the first "
              "two bands (latitude, longitude) of a node - the bands end up in the wrong order" % (
                  o[0], o[1], m, r, "" if bands in (None, m) else " in the branch for %d bands" % bands), cx.where(t["span"]))
    cx.count("R-BAND-ORDER", "swaps", n)


@rule("R-GRID-MIN-SIZE", ["C08", "C15"])
def r_grid_min_size(cx):
    """Bilinear interpolation needs one cell: two rows and two columns. BaseGrid::plain refuses a grid only if it has
    fewer - a 2 x 2, 2 x 5 or 4 x 2 grid (Gravsoft or NTv2 sub-grid) is a valid geometry and is accepted: the test on the row
    and column counts is `< 2` (or `<= 1`)."""
    name = "grid::BaseGrid::plain"
    if not cx.f.has_fn(name):
        cx.ob("R-GRID-MIN-SIZE", "anchor", False, "anchor-missing: %s" % name)
        return
    f = cx.f.fn(name)
    n = 0
    for bb in sorted(f.reachable()):
        sw = f.term(bb)
        if sw["k"] != "switch":
            continue
        c = mir.strip_refs(f.operand(sw["discr"], f.end_point(bb)))
        if not (c[0] == "bin" and c[1] in ("Lt", "Le") and is_const_num(mir.strip_refs(c[3])) and isinstance(mir.strip_refs(c[3])[2], int)):
            continue
        l = mir.strip_refs(c[2])
        # rows / cols: a float-to-usize cast of floor(.. + 1.5)
        fl = []
        mir.walk(l, lambda y: (fl.append(1) if y[0] == "call" and isinstance(y[1], str) and y[1].endswith("::floor") else None) or True)
        if not (l[0] == "cast" and fl):
            continue
        n += 1
        k = mir.strip_refs(c[3])[2]
        ok = (c[1] == "Lt" and k <= 2) or (c[1] == "Le" and k <= 1)
        cx.ob("R-GRID-MIN-SIZE", "plain/size-test%d" % (n - 1), ok,
              "a grid with two rows / columns is accepted" if ok else
              "BaseGrid::plain refuses grids with a row or column count %s %d: a grid of exactly two rows or columns - a valid "
              "bilinear geometry - is rejected as malformed" % ("<" if c[1] == "Lt" else "<=", k), cx.where(sw["span"]))
    cx.count("R-GRID-MIN-SIZE", "size_tests", n)


@rule("R-HEADER-ORDER-AGREES", ["C15", "C08"])
def r_header_order_agrees(cx):
    """An NTv2 sub-grid header is handed to BaseGrid::plain as a flat array of seven numbers. Writer and reader agree on
    its layout: position k of the array SubGridHeader::into_header builds holds the field that BaseGrid::plain reads from
    position k (north, south, west, east boundary, latitude step, longitude step) - compared by field name (`nlat` /
    `lat_n`, `dlat` / `dlat`, ...)."""
    w, r = "grid::ntv2::subgrid::SubGridHeader::into_header", "grid::BaseGrid::plain"
    if not (cx.f.has_fn(w) and cx.f.has_fn(r)):
        cx.ob("R-HEADER-ORDER-AGREES", "anchor", False, "anchor-missing: %s / %s" % (w, r))
        return
    import elems as E
    fw, fr = cx.f.fn(w), cx.f.fn(r)
    adt = None
    for aname, a in cx.f.lib["adts"].items():
        if aname.endswith("subgrid::SubGridHeader"):
            adt = a
    rt = E.return_term(fw)
    rt = mir.strip_refs(rt) if rt is not None else None
    written = []
    if adt and rt is not None and rt[0] == "agg" and rt[1] == "array":
        fields = [x["name"] for x in adt["variants"][0]["fields"]]
        for e in rt[2]:
            e = mir.strip_refs(e)
            while e[0] == "cast":
                e = mir.strip_refs(e[2])
            written.append(fields[e[2][1]] if e[0] == "proj" and isinstance(e[2], tuple) and e[2][0] == "f" and e[2][1] < len(fields) else None)
    # the reader: debug names of the locals that receive header[k]
    read = {}
    for bb, i, st in fr.all_stmts():
        if st["k"] != "assign" or st["place"]["p"]:
            continue
        v = mir.strip_refs(fr.rvalue(st["rv"], (bb, i)))
        for _ in range(3):
            if v[0] == "call" and isinstance(v[1], str) and v[1].rsplit("::", 1)[-1] in ("copysign", "abs") and v[2]:
                v = mir.strip_refs(v[2][0])
            elif v[0] == "cast":
                v = mir.strip_refs(v[2])
        if v[0] == "proj" and isinstance(v[2], tuple) and v[2][0] == "elem" and len(v[2]) == 2 and isinstance(v[2][1], int):
            b = mir.strip_refs(v[1])
            while b[0] == "proj" and b[2] == "deref":
                b = mir.strip_refs(b[1])
            if b == ("arg", 1):
                nm = fr.lname(st["place"]["l"])
                if nm and not str(nm).startswith("_"):
                    read.setdefault(v[2][1], nm)

    for bb, t in fr.calls():
        if (fr.callee(t) or "").rsplit("::", 1)[-1] in ("copysign", "abs") and not t["dest"]["p"]:
            v = mir.strip_refs(fr.arg_terms(bb)[0])
            if v[0] == "proj" and isinstance(v[2], tuple) and v[2][0] == "elem" and len(v[2]) == 2 and isinstance(v[2][1], int):
                b = mir.strip_refs(v[1])
                while b[0] == "proj" and b[2] == "deref":
                    b = mir.strip_refs(b[1])
                nm = fr.lname(t["dest"]["l"])
                if b == ("arg", 1) and nm and not str(nm).startswith("_"):
                    read.setdefault(v[2][1], nm)

    def canon(x):
        return "".join(sorted(str(x).replace("_", "")))
    n = 0
    known = {canon(x) for x in written if x}
    for k in sorted(read):
        if k >= len(written) or written[k] is None:
            continue
        if canon(read[k]) not in known:
            continue        # the reader's local is named otherwise (no shared naming to compare by): not judged
        n += 1
        ok = canon(written[k]) == canon(read[k])
        cx.ob("R-HEADER-ORDER-AGREES", "position%d" % k, ok,
              "position %d: written from `%s`, read as `%s`" % (k, written[k], read[k]) if ok else
              "position %d of the sub-grid header array is written from the field `%s` but BaseGrid::plain reads it as `%s`: rows "
              "and cell size are derived from the wrong increment, the file loads and addresses the wrong nodes" % (k, written[k], read[k]),
              cx.where(fw.d["span"]))
    cx.count("R-HEADER-ORDER-AGREES", "positions", n)
