"""Names, handles, immutability (C18, C02, C14): T-FREEZE, R-WHO-WRITES, R-FRESH-ID, R-RESOLUTION-ORDER, R-GRID-CACHE,
R-CONTEXT-AGREE, W-BORROW (compile-fail witnesses)."""
import os
import re
import shutil
import subprocess
import tempfile

import mir
import keys as K
from rulebase import rule, VERIF

CTX_TYPES = ("context::minimal::Minimal", "context::plain::Plain")
INTERIOR = ("UnsafeCell<", "Cell<", "RefCell<", "Mutex<", "RwLock<", "Atomic", "OnceLock<", "OnceCell<", "*mut ",
            "LazyLock<", "LazyCell<")


def _field_types(cx, adt, seen=None, path=""):
    """yield (path, type string) for all fields reachable through local ADTs"""
    if seen is None:
        seen = set()
    if adt in seen:
        return
    seen.add(adt)
    info = cx.f.lib["adts"].get(adt)
    if info is None:
        return
    for v in info["variants"]:
        for fld in v["fields"]:
            p = "%s.%s" % (path or adt.split("::")[-1], fld["name"])
            yield p, fld["ty"]
            for other in cx.f.lib["adts"]:
                if re.search(r"(^|[<\s,(\[&])%s($|[>\s,)\];])" % re.escape(other), fld["ty"]):
                    yield from _field_types(cx, other, seen, p)


@rule("T-FREEZE", ["C18", "C02"])
def t_freeze(cx):
    roots = ["op::Op", "op::op_descriptor::OpDescriptor", "op::parsed_parameters::ParsedParameters", "grid::BaseGrid",
             "grid::ntv2::Ntv2Grid"] + list(CTX_TYPES)
    n = 0
    for r in roots:
        info = cx.f.lib["adts"].get(r)
        if info is None:
            cx.ob("T-FREEZE", "%s/anchor" % r, False, "anchor-missing: type %s" % r)
            continue
        bad = []
        for p, ty in _field_types(cx, r):
            n += 1
            if any(x in ty for x in INTERIOR):
                bad.append("%s: %s" % (p, ty))
        fr = info.get("freeze")
        ok = not bad and fr is not False
        cx.ob("T-FREEZE", r, ok,
              "%s has no interior mutability anywhere in its fields (rustc: Freeze=%s): a shared reference gives no way "
              "to change it" % (r, fr) if ok else
              "%s contains interior mutability (%s): an operator or context could change behind a shared reference" % (
                  r, "; ".join(bad[:3]) or "not Freeze"), cx.where(info["span"]))
    cx.count("T-FREEZE", "fields_walked", n)


def _self_field_of(t):
    """for a receiver `&mut (*self).field`: field index, mutable?"""
    if t[0] == "ref":
        v = t[2]
        if v[0] == "proj" and isinstance(v[2], tuple) and v[2][0] == "f" and v[1] == ("proj", ("arg", 1), "deref"):
            return v[2][1], t[1]
    if t[0] == "refplace":
        return None, t[1]
    return None, None


@rule("R-WHO-WRITES", ["C18"])
def r_who_writes(cx):
    allowed = {("op", "operators", "insert"), ("register_resource", "resources", "insert"),
               ("register_op", "constructors", "insert")}
    n = 0
    for ctx in CTX_TYPES:
        info = cx.f.lib["adts"].get(ctx)
        if info is None:
            cx.ob("R-WHO-WRITES", "%s/anchor" % ctx, False, "anchor-missing: %s" % ctx)
            continue
        fields = [x["name"] for x in info["variants"][0]["fields"]]
        seen_allowed = set()
        for name in cx.f.fn_names():
            d = cx.f.lib["fns"][name]
            if d.get("impl_self") != ctx:
                continue
            meth = name.split("::")[-1]
            f = cx.f.fn(name)
            for bb, t in f.calls():
                if not t["args"]:
                    continue
                a0 = f.operand(t["args"][0], f.end_point(bb))
                # receiver: &mut self.field (possibly through a temp)
                fi = None
                mut = False
                if a0[0] == "refplace":
                    v = f.local_value(a0[2], f.end_point(bb))
                    a0 = v if v[0] in ("ref", "refplace") else a0
                if a0[0] == "ref":
                    fi, mut = _self_field_of(a0)
                elif a0[0] == "refplace" and a0[3] and a0[3][0] == "deref":
                    pass
                if fi is None:
                    # `&mut (*_1).field` appears as a reborrow term: proj chain under ref
                    s = a0
                    if s[0] == "ref" and s[2][0] == "proj":
                        pass
                if fi is None or not mut:
                    continue
                fname = fields[fi] if fi < len(fields) else "?"
                if fname not in ("operators", "resources", "constructors"):
                    continue
                callee = (f.callee(t) or "").split("::")[-1]
                n += 1
                key = (meth, fname, callee)
                ok = key in allowed
                if ok:
                    seen_allowed.add(key)
                cx.ob("R-WHO-WRITES", "%s/%s/%s.%s" % (ctx.split("::")[-1], meth, fname, callee), ok,
                      "%s::%s writes %s only by %s()" % (ctx.split("::")[-1], meth, fname, callee) if ok else
                      "%s::%s mutates the %s table with %s(): only op/register_resource/register_op may write, and only "
                      "by insert (which lets a later registration take precedence and never changes what was "
                      "instantiated before)" % (ctx.split("::")[-1], meth, fname, callee), cx.where(t["span"]))
        for key in sorted(allowed - seen_allowed):
            cx.ob("R-WHO-WRITES", "%s/%s/%s.%s/present" % (ctx.split("::")[-1], key[0], key[1], key[2]), False,
                  "positive control failed: %s::%s no longer writes %s by %s()" % (ctx.split("::")[-1], *key))
    cx.count("R-WHO-WRITES", "mutating_calls", n)
    # no Context method hands out a mutable or owned Op
    tr = cx.f.lib["traits"].get("context::Context", {})
    bad = [m["name"] for m in tr.get("methods", []) if re.search(r"->.*(&'?\w* ?mut op::Op|-> op::Op\b|Option<&mut op::Op>)", m["sig"])]
    cx.ob("R-WHO-WRITES", "Context/no-mutable-op", not bad and bool(tr),
          "no method of the Context trait returns an Op by value or by mutable reference (%d methods)" % len(tr.get("methods", []))
          if not bad and tr else "Context methods %s hand out a mutable/owned Op" % bad)


@rule("R-FRESH-ID", ["C18"])
def r_fresh_id(cx):
    info = cx.f.lib["adts"].get("op::Op")
    fields = [x["name"] for x in info["variants"][0]["fields"]]
    ii = fields.index("id")
    n = 0
    for name in cx.f.fn_names():
        f = cx.f.fn(name)
        k = 0
        for bb, i, s in f.all_stmts():
            if s["k"] == "assign" and s["rv"]["k"] == "agg" and s["rv"].get("adt") == "op::Op" and \
                    not (s["span"].get("exp") or "").startswith("macro"):
                n += 1
                idt = mir.strip_refs(f.operand(s["rv"]["ops"][ii], (bb, i)))
                ok = idt[0] == "call" and isinstance(idt[1], str) and ("OpHandle::new" in idt[1] or (
                    "OpHandle" in idt[1] and idt[1].endswith("::default")))
                cx.ob("R-FRESH-ID", "%s/op%d" % (name, k), ok,
                      "%s gives the Op it builds a fresh OpHandle" % name if ok else
                      "%s builds an Op whose id does not come from OpHandle::new()/default() in the same function: "
                      "handles would not be unique" % name, cx.where(s["span"]))
                k += 1
    cx.count("R-FRESH-ID", "op_aggregates", n)
    # OpHandle::new / default draw a random UUID
    for nm in ("op::OpHandle::new", "<op::OpHandle as std::default::Default>::default"):
        if cx.f.has_fn(nm):
            f = cx.f.fn(nm)
            ok = any((f.callee(t) or "").endswith("::new_v4") for _, t in f.calls())
            cx.ob("R-FRESH-ID", "%s/random" % nm, ok, "%s draws a random (v4) UUID" % nm if ok else
                  "%s does not draw a random UUID" % nm, cx.where(f.d["span"]))


@rule("R-RESOLUTION-ORDER", ["C18"])
def r_resolution_order(cx):
    name = "op::Op::op"
    if not cx.f.has_fn(name):
        cx.ob("R-RESOLUTION-ORDER", "anchor", False, "anchor-missing: Op::op")
        return
    f = cx.f.fn(name)
    where = cx.where(f.d["span"])

    def calls_of(pred):
        return [bb for bb, t in f.calls() if pred(t)]

    pipe_test = calls_of(lambda t: (t.get("callee") or "").endswith("Tokenize::is_pipeline"))
    pipe_new = calls_of(lambda t: (f.callee(t) or "").endswith("pipeline::new"))
    get_op = calls_of(lambda t: (t.get("callee") or "").endswith("Context::get_op"))
    get_res = calls_of(lambda t: (t.get("callee") or "").endswith("Context::get_resource"))
    builtin = calls_of(lambda t: (f.callee(t) or "").endswith("inner_op::builtin"))
    res_test = calls_of(lambda t: (t.get("callee") or "").endswith("Tokenize::is_resource_name"))
    anchors = all(len(x) == 1 for x in (pipe_test, pipe_new, get_op, get_res, builtin, res_test))
    if not anchors:
        cx.ob("R-RESOLUTION-ORDER", "anchors", False,
              "anchor-missing: expected one each of is_pipeline, pipeline::new, get_op, get_resource, builtin, "
              "is_resource_name in Op::op (found %s)" % [len(x) for x in (pipe_test, pipe_new, get_op, get_res, builtin, res_test)],
              where)
        return
    # 1. the pipeline test comes first
    ok = all(f.dominates(pipe_test[0], b) for b in (get_op[0], get_res[0], builtin[0]))
    cx.ob("R-RESOLUTION-ORDER", "pipeline-first", ok,
          "the pipeline test precedes every name lookup" if ok else
          "a name lookup in Op::op is not preceded by the pipeline test", where)
    # 2. user operators only for names without colon, macros only for names with colon
    # what the branch decisions establish where the two look-ups are made (also through a stored `is_macro` flag)
    import guards
    rterm = mir.strip_refs(f.call_term(f.term(res_test[0]), res_test[0]))

    def known(bb):
        for at, tv in guards.branch_facts(f, bb):
            if mir.strip_refs(at) == rterm:
                return tv
        return None
    ok = known(get_op[0]) is False and known(get_res[0]) is True
    cx.ob("R-RESOLUTION-ORDER", "colon-split", ok,
          "user-registered operators are looked up for names without a colon, macros for names with a colon" if ok else
          "the user-operator / macro lookups of Op::op are not split by is_resource_name()", where)
    # 3. the built-in lookup is reached only after the user lookup *failed*: from the Ok side of get_op / get_resource
    #    the builtin() call is unreachable
    for label, call_bb in (("user-operator", get_op[0]), ("macro", get_res[0])):
        oks = None
        cands = []
        for b2 in sorted(f.reachable()):
            s2 = f.term(b2)
            if s2["k"] != "switch":
                continue
            d = f.operand(s2["discr"], f.end_point(b2))
            if d[0] == "discr" and d[1][0] == "call" and d[1][3] == call_bb:
                cands.append(b2)
        # the test that decides the `if let Ok(..)`: the one dominating the others (later ones are drop elaboration)
        for b2 in cands:
            if all(f.dominates(b2, o) for o in cands):
                for v, tgt in f.term(b2)["targets"]:
                    if v == 0:
                        oks = tgt
        reach = f.reach_from([oks]) if oks is not None else set()
        ok = oks is not None and builtin[0] not in reach
        cx.ob("R-RESOLUTION-ORDER", "%s-shadows-builtin" % label, ok,
              "once a %s of that name is found, the built-in table is never consulted (its result or error is final)" % label
              if ok else
              "after a %s of that name was found, Op::op can still fall through to the built-in table: a failing "
              "user definition silently becomes the built-in it shadows" % label, where)
    # 3b. the three tables are asked for one and the same name: the operator name of the definition being instantiated
    #     (not, say, the name in the outermost invocation, which stays the same all the way down a macro or pipeline)
    def key_of(bb, idx):
        a = f.arg_terms(bb)
        t = a[idx] if len(a) > idx else None
        for _ in range(6):
            if t is None:
                break
            if t[0] == "refplace" and not t[3]:
                t = f.local_value(t[2], f.end_point(bb))
                continue
            t = mir.strip_refs(t)
            if t[0] == "call" and isinstance(t[1], str) and t[1].rsplit("::", 1)[-1] in ("deref", "as_str", "as_ref", "borrow", "clone") and t[2]:
                t = t[2][0]
                continue
            break
        return mir.strip_refs(t) if t is not None else None
    names = {"get_op": key_of(get_op[0], 1), "get_resource": key_of(get_res[0], 1), "builtin": key_of(builtin[0], 0),
             "is_resource_name": key_of(res_test[0], 0)}
    vals = [v for v in names.values() if v is not None]
    same = len(vals) == 4 and all(v == vals[0] for v in vals)
    raw = cx.f.lib["adts"].get("op::raw_parameters::RawParameters")
    fields = [x["name"] for x in raw["variants"][0]["fields"]] if raw else []
    from_def = False
    if same and vals[0][0] == "call" and isinstance(vals[0][1], str) and vals[0][1].endswith("operator_name") and vals[0][2]:
        src = mir.strip_refs(vals[0][2][0])
        from_def = src[0] == "proj" and isinstance(src[2], tuple) and src[2][0] == "f" and src[2][1] < len(fields) and \
            fields[src[2][1]] == "definition" and mir.strip_refs(src[1]) == ("arg", 1)
    cx.ob("R-RESOLUTION-ORDER", "same-name", bool(same and from_def),
          "user operators, macros and built-ins are all looked up under the operator name of the definition at hand" if same and from_def else
          "Op::op asks its tables for different names (%s): e.g. a user-registered operator is then found at top level "
          "but not as a pipeline step or inside a macro" % ", ".join(k for k, v in names.items() if v != names["builtin"]), where)
    # 4. both lookups precede the builtin lookup on their side
    ok = not f.dominates(builtin[0], get_op[0]) and not f.dominates(builtin[0], get_res[0])
    cx.ob("R-RESOLUTION-ORDER", "builtin-last", ok, "the built-in table is consulted last" if ok else
          "the built-in table is consulted before the user tables", where, nontrivial=False)


@rule("R-GRID-CACHE", ["C18"])
def r_grid_cache(cx):
    allowed = {"context::plain::<impl context::Context for context::plain::Plain>::get_grid",
               "context::plain::Plain::clear_grids"}
    users = []
    for name in cx.f.fn_names():
        d = cx.f.lib["fns"][name]
        js = str(d["mir"])
        if "context::plain::GRIDS" in js:
            users.append(name)
    cx.count("R-GRID-CACHE", "grids_users", len(users))
    bad = [u for u in users if not (u.endswith("::get_grid") or u.endswith("::clear_grids"))]
    cx.ob("R-GRID-CACHE", "users", not bad and len(users) >= 2,
          "the process-wide grid cache is touched only by %s" % ", ".join(x.split("::")[-1] for x in users) if not bad and len(users) >= 2
          else "the grid cache GRIDS is referenced by %s (only get_grid and clear_grids may)" % (bad or users))
    # grids leave the cache only as Arc clones; nobody unwraps / mutates an Arc
    offenders = []
    nunsafe = 0
    for name in cx.f.fn_names():
        f = cx.f.fn(name)
        for bb, t in f.calls():
            c = f.callee(t) or ""
            if c.startswith("std::sync::Arc") and c.split("::")[-1] in ("get_mut", "make_mut", "try_unwrap", "into_inner",
                                                                         "get_mut_unchecked", "into_raw", "from_raw"):
                offenders.append("%s: %s" % (name, c))
        if _has_unsafe(cx.f.lib["fns"][name].get("hir")) and _user_unsafe(cx.f.lib["fns"][name].get("hir")):
            nunsafe += 1
            offenders.append("%s: unsafe block" % name)
    cx.ob("R-GRID-CACHE", "no-arc-mutation", not offenders,
          "no Arc is unwrapped or mutated and there is no unsafe block in the crate (shared grids are immutable)" if not offenders
          else "shared grids can be mutated: %s" % offenders[:3])
    # get_grid hands out a clone of the cached Arc
    gc = "context::plain::GridCollection::get_grid"
    if cx.f.has_fn(gc):
        f = cx.f.fn(gc)
        import elems
        r = elems.return_term(f)
        clones = [1 for _, t in f.calls() if (t.get("callee") or "").endswith("Clone::clone") and "Arc<" in (t.get("callee_full") or "")]
        cx.ob("R-GRID-CACHE", "clone-out", bool(clones),
              "GridCollection::get_grid returns clones of the cached Arc" if clones else
              "GridCollection::get_grid does not hand out Arc clones", cx.where(f.d["span"]))


def _user_unsafe(h, depth=0):
    """an unsafe block written in the source (not one that comes out of a macro expansion such as format_args!)"""
    if isinstance(h, dict):
        if h.get("unsafe") is True and h.get("span") is not None and not h["span"].get("exp"):
            return True
        return any(_user_unsafe(v, depth + 1) for v in h.values())
    if isinstance(h, list):
        return any(_user_unsafe(v, depth + 1) for v in h)
    return False


def _has_unsafe(h, depth=0):
    if isinstance(h, dict):
        if h.get("unsafe") is True:
            return True
        return any(_has_unsafe(v, depth + 1) for v in h.values())
    if isinstance(h, list):
        return any(_has_unsafe(v, depth + 1) for v in h)
    return False


@rule("R-CONTEXT-AGREE", ["C14", "C18"])
def r_context_agree(cx):
    """Minimal and Plain: same globals; apply forwards (direction, operands) unchanged to Op::apply of the looked-up
    operator; op() stores exactly the Op built by Op::new"""
    import elems
    from rules.grids import shape
    glob = {}
    for ctx in CTX_TYPES:
        short = ctx.split("::")[-1]
        gname = "<%s as context::Context>::globals" % ctx
        aname = "<%s as context::Context>::apply" % ctx
        oname = "<%s as context::Context>::op" % ctx
        for nm in (gname, aname, oname):
            if not cx.f.has_fn(nm):
                cx.ob("R-CONTEXT-AGREE", "%s/anchor/%s" % (short, nm.split("::")[-1]), False, "anchor-missing: %s" % nm)
        if cx.f.has_fn(gname):
            glob[short] = shape(elems.return_term(cx.f.fn(gname)))
        if cx.f.has_fn(aname):
            f = cx.f.fn(aname)
            ok = False
            for bb, t in f.calls():
                if (f.callee(t) or "") == "op::Op::apply":
                    a = f.arg_terms(bb)
                    recv = mir.strip_refs(a[0])
                    gets = []
                    mir.walk(recv, lambda x: gets.append(x) if x[0] == "call" and isinstance(x[1], str) and
                             x[1].endswith("BTreeMap::<K, V, A>::get") and mir.strip_refs(x[2][1]) == ("arg", 2) else None)
                    from_table = bool(gets)
                    ok = a[3] == ("arg", 3) and mir.strip_refs(a[2]) in (("arg", 4), ("proj", ("arg", 4), "deref")) and from_table
                    while a[2][0] == "cast":
                        a = (a[0], a[1], a[2][2], a[3])
                    ok = a[3] == ("arg", 3) and mir.strip_refs(a[2]) in (("arg", 4), ("proj", ("arg", 4), "deref")) and from_table
            cx.ob("R-CONTEXT-AGREE", "%s/apply-forwards" % short, ok,
                  "%s::apply looks the handle up and passes direction and operands unchanged to Op::apply" % short if ok else
                  "%s::apply does not forward (direction, operands) unchanged to Op::apply of the stored operator" % short,
                  cx.where(f.d["span"]))
        if cx.f.has_fn(oname):
            f = cx.f.fn(oname)
            news = [bb for bb, t in f.calls() if (f.callee(t) or "") == "op::Op::new"]
            ok = len(news) == 1
            pre = []
            if ok:
                d = f.arg_terms(news[0])[0]
                calls = []
                mir.walk(d, lambda x: calls.append(x[1]) if x[0] == "call" and isinstance(x[1], str) else None)
                pre = sorted({c.split("::")[-1] for c in calls if c.split("::")[-1] not in (
                    "deref", "as_str", "branch", "as_ref", "borrow")})
                derives = []
                mir.walk(d, lambda x: derives.append(1) if x == ("arg", 2) else None)
                allowed_pre = {"Minimal": set(), "Plain": {"parse_proj"}}[short]
                ok = bool(derives) and set(pre) <= allowed_pre
            cx.ob("R-CONTEXT-AGREE", "%s/op-definition" % short, ok,
                  "%s::op hands the definition to Op::new %s" % (short, "through parse_proj only" if short == "Plain" else "unchanged")
                  if ok else "%s::op rewrites the definition through %s before Op::new" % (short, pre), cx.where(f.d["span"]))
    if len(glob) == 2:
        ok = glob["Minimal"] == glob["Plain"]
        cx.ob("R-CONTEXT-AGREE", "globals", ok, "Minimal and Plain provide the same globals" if ok else
              "Minimal and Plain provide different globals: built-in definitions do not behave identically")


# ---------------------------------------------------------------------------------------------------------------------
# compile-fail witnesses (engine E4)

WITNESS_SRC = os.path.join(VERIF, "engine", "witness", "lib.rs")


def run_witnesses(repo):
    """build and run the doc-test witnesses against `repo`; returns {test name: 'ok'|'FAILED'} or raises"""
    d = tempfile.mkdtemp(prefix="geodesy-witness-")
    try:
        os.makedirs(os.path.join(d, "src"))
        shutil.copy(WITNESS_SRC, os.path.join(d, "src", "lib.rs"))
        open(os.path.join(d, "Cargo.toml"), "w").write(
            '[package]\nname = "geodesy_witness"\nversion = "0.0.0"\nedition = "2021"\n\n[workspace]\n\n'
            '[dependencies]\ngeodesy = { path = "%s" }\n' % repo)
        shutil.copy(os.path.join(repo, "Cargo.lock"), os.path.join(d, "Cargo.lock"))
        env = dict(os.environ)
        env["CARGO_NET_OFFLINE"] = "true"
        env["CARGO_TARGET_DIR"] = os.path.join(d, "target")
        r = subprocess.run(["cargo", "+nightly", "test", "--doc", "--offline", "--", "--test-threads", "8"], cwd=d, env=env,
                           stdout=subprocess.PIPE, stderr=subprocess.STDOUT, text=True)
        res = {}
        for line in r.stdout.splitlines():
            m = re.match(r"^test src/lib.rs - (\S+) \(line \d+\)(?: - compile fail)? \.\.\. (ok|FAILED)", line)
            if m:
                res[m.group(1)] = m.group(2)
        return res, r.stdout[-3000:]
    finally:
        shutil.rmtree(d, ignore_errors=True)


@rule("W-BORROW", ["C18"])
def w_borrow(cx):
    src = open(WITNESS_SRC).read()
    names = re.findall(r"^pub (?:struct|fn|mod) (\w+)", src, re.M)
    try:
        res, tail = run_witnesses(cx.f.repo)
    except Exception as e:
        cx.ob("W-BORROW", "run", False, "the witness crate could not be built: %s" % e)
        return
    cx.count("W-BORROW", "witnesses", len(res))
    if not res:
        cx.ob("W-BORROW", "run", False, "no witness ran: %s" % tail[-400:])
        return
    for n in sorted(res):
        ok = res[n] == "ok"
        kind = "must not compile" if n.startswith("fail_") or "_fail" in n else "must compile"
        cx.ob("W-BORROW", n, ok,
              "witness %s (%s) behaves as required" % (n, kind) if ok else
              "witness %s (%s) does not: the type-level argument for immutability / exclusive registration no longer "
              "holds" % (n, kind))


# ---------------------------------------------------------------------------------------------------------------------
# R-CONTEXT-OP-FRESH (C18): Context::op always instantiates

def _context_impls(cx, method):
    out = []
    for name in cx.f.fn_names():
        if name.endswith(" as context::Context>::" + method) and name.startswith("<context::"):
            out.append(name)
    return sorted(out)


@rule("R-CONTEXT-OP-FRESH", ["C18"])
def r_context_op_fresh(cx):
    """Every successful return of Context::op hands out the handle of an operator instantiated by this very call
    (Op::new, whose handle is fresh by R-FRESH-ID) and stored under that handle: no path returns the handle of an
    operator that existed before - such a handle would not be unique, and the operator behind it would not reflect
    what has been registered since."""
    n = 0
    for name in _context_impls(cx, "op"):
        f = cx.f.fn(name)
        news = [bb for bb, t in f.calls() if (f.callee(t) or "") == "op::Op::new"]
        inserts = [bb for bb, t in f.calls() if (f.callee(t) or "").endswith("BTreeMap::<K, V, A>::insert")]
        oks = []
        for bb in sorted(f.reachable()):
            if f.term(bb)["k"] != "return":
                continue
            v = f.local_value(0, f.end_point(bb))
            oks.append((bb, v))
        n += 1
        bad = None
        # every Ok(..) construction of the returned value is dominated by Op::new and by the insert
        ok_sites = []
        for bb, i, s in f.all_stmts():
            if s["k"] == "assign" and s["rv"]["k"] == "agg" and (s["rv"].get("variant") == "Ok" or s["rv"].get("vname") == "Ok") \
                    and s["place"]["l"] == 0:
                ok_sites.append(bb)
        if not ok_sites:
            # fall back: any aggregate assigned to the return place
            for bb, i, s in f.all_stmts():
                if s["k"] == "assign" and s["place"]["l"] == 0 and not s["place"]["p"] and s["rv"]["k"] == "agg":
                    v = f.rvalue(s["rv"], (bb, i))
                    if v[0] == "agg" and isinstance(v[1], tuple) and v[1][-1] == "Ok":
                        ok_sites.append(bb)
        for bb in ok_sites:
            if not any(f.dominates(x, bb) for x in news):
                bad = (bb, "without instantiating an operator (Op::new) on that path")
            elif not any(f.dominates(x, bb) for x in inserts):
                bad = (bb, "without storing the new operator under its handle")
        if not ok_sites:
            bad = (0, "no Ok(..) return found")
        cx.ob("R-CONTEXT-OP-FRESH", name, bad is None,
              "%s: every Ok(handle) is preceded by Op::new and by the insertion of the new operator" % name
              if bad is None else "%s can return Ok(handle) %s" % (name, bad[1]),
              cx.where(f.term(bad[0])["span"]) if bad else cx.where(f.d["span"]))
    cx.count("R-CONTEXT-OP-FRESH", "impls", n)


# ---------------------------------------------------------------------------------------------------------------------
# R-REGISTRATION-FIRST (C18): run-time registrations take precedence over resource files

FS_READ = ("std::fs::read_to_string", "std::fs::read", "std::fs::File::open", "std::fs::OpenOptions::open")


def _fs_readers(cx):
    """functions of context::plain that (transitively, through private helpers) read files"""
    names = [n for n in cx.f.fn_names() if n.startswith("context::plain::") or n.startswith("<context::plain::")]
    direct = set()
    calls = {}
    for n in names:
        g = cx.f.fn(n)
        cs = {(g.callee(t) or "") for _, t in g.calls()}
        calls[n] = cs
        if any(c in FS_READ or c.startswith("std::fs::") for c in cs):
            direct.add(n)
    changed = True
    while changed:
        changed = False
        for n in names:
            if n not in direct and calls[n] & direct:
                direct.add(n)
                changed = True
    return direct


@rule("R-REGISTRATION-FIRST", ["C18"])
def r_registration_first(cx):
    """In Plain::get_resource every access to the file system happens only after the table of run-time registered
    resources has been consulted for the very name asked for - unconditionally: the look-up dominates every read."""
    n = 0
    for name in _context_impls(cx, "get_resource"):
        f = cx.f.fn(name)
        readers = _fs_readers(cx)
        reads = [(bb, t) for bb, t in f.calls() if (f.callee(t) or "") in FS_READ or
                 (f.callee(t) or "").startswith("std::fs::") or (f.callee(t) or "") in readers]
        if not reads:
            continue
        lookups = []
        for bb, t in f.calls():
            c = f.callee(t) or ""
            if c.endswith("BTreeMap::<K, V, A>::get") or c.endswith("BTreeMap::<K, V, A>::contains_key"):
                a = f.arg_terms(bb)
                key = mir.strip_refs(a[1]) if len(a) > 1 else None
                if key == ("arg", 2) or (key is not None and key[0] == "arg"):
                    lookups.append(bb)
        # the side of each look-up on which nothing was registered under the name
        absent = []
        for lb in lookups:
            for b2 in sorted(f.reachable()):
                sw = f.term(b2)
                if sw["k"] != "switch":
                    continue
                d = f.operand(sw["discr"], f.end_point(b2))
                tg = dict((v, x) for v, x in sw["targets"])
                if d[0] == "discr":
                    src = mir.strip_refs(d[1])
                    if src[0] == "call" and src[3] == lb:
                        absent.append(tg.get(0, sw["otherwise"] if 1 in tg else None))
                else:
                    src = mir.strip_refs(d)
                    neg = False
                    while src[0] == "un" and src[1] == "Not":
                        src, neg = mir.strip_refs(src[2]), not neg
                    if src[0] == "call" and src[3] == lb and (f.callee(f.term(lb)) or "").endswith("contains_key"):
                        absent.append(sw["otherwise"] if neg else tg.get(0))
        absent = [x for x in absent if x is not None]
        for k, (bb, t) in enumerate(reads):
            n += 1
            ok = any(f.dominates(x, bb) for x in lookups)
            if ok:
                only_absent = any(f.dominates(x, bb) for x in absent)
                cx.ob("R-REGISTRATION-FIRST", "%s/read%d/only-if-absent" % (name, k), only_absent,
                      "the file is read only where the name turned out not to be registered at run time" if only_absent else
                      "%s looks the name up among the run-time registrations but reads the resource files whatever the "
                      "outcome: a file-based definition of the same name wins over the registered one" % name,
                      cx.where(t["span"]))
            cx.ob("R-REGISTRATION-FIRST", "%s/read%d" % (name, k), ok,
                  "the file read is reached only after the run-time registrations have been searched for the name" if ok
                  else "%s can read a resource file without first looking the name up among the run-time "
                       "registrations: a file-based definition then shadows a registered one" % name,
                  cx.where(t["span"]))
    cx.count("R-REGISTRATION-FIRST", "file_reads", n)


# ---------------------------------------------------------------------------------------------------------------------
# R-CACHE-KEY (C18): the shared grid cache is keyed by the name the file is searched under

CONV = ("to_string", "to_owned", "clone", "into", "from", "as_ref", "deref", "borrow", "as_str", "as_os_str")


def _strip_conv(t):
    for _ in range(8):
        t = mir.strip_refs(t)
        if t[0] == "call" and isinstance(t[1], str) and t[1].rsplit("::", 1)[-1] in CONV and t[2]:
            t = t[2][0]
            continue
        if t[0] == "proj" and t[2] == "deref":
            t = t[1]
            continue
        if t[0] == "cast":
            t = t[2]
            continue
        break
    return t


@rule("R-CACHE-KEY", ["C18"])
def r_cache_key(cx):
    """GridCollection::get_grid looks a grid up in the process-wide cache, and on a miss reads the file and stores it.
    The key of every cache access and the file name searched for are the same value - the name as given: otherwise
    what a definition resolves to depends on what other contexts or threads happened to load before."""
    name = "context::plain::GridCollection::get_grid"
    f = cx.f.fn(name)
    keys = []
    for bb, t in f.calls():
        c = f.callee(t) or ""
        a = f.arg_terms(bb)
        if c.endswith("BTreeMap::<K, V, A>::get") or c.endswith("BTreeMap::<K, V, A>::insert") or \
                c.endswith("BTreeMap::<K, V, A>::contains_key"):
            keys.append(("cache " + c.rsplit("::", 1)[-1], bb, _strip_conv(a[1])))
        elif c.endswith("PathBuf::push") and len(a) > 1:
            v = _strip_conv(a[1])
            keys.append(("file name", bb, v))
    want = ("arg", 2)
    n = 0
    file_terms = [v for k, _, v in keys if k == "file name"]
    for kind, bb, v in keys:
        if kind == "file name":
            continue
        n += 1
        ok = v == want and want in file_terms
        cx.ob("R-CACHE-KEY", "get_grid/%s%d" % (kind.split()[1], n), ok,
              "the %s uses the grid name as given, the same value the file is searched under" % kind if ok else
              "GridCollection::get_grid: the %s is keyed by %s while the file is searched under the name as given: "
              "cache hits and file look-ups disagree (e.g. on letter case)" % (kind, mir.show(v)[:50]),
              cx.where(f.term(bb)["span"]))
    cx.count("R-CACHE-KEY", "cache_accesses", n)


# ---------------------------------------------------------------------------------------------------------------------
# R-SEARCH-ALL-PATHS (C18): a search path that does not have the item does not end the search

@rule("R-SEARCH-ALL-PATHS", ["C18"])
def r_search_all_paths(cx):
    """Plain::get_resource (and the grid file search) try every directory of the search path in turn. The loop over
    the paths is left early only with a result (a `return`): there is no `break` that falls through to the
    "not found" error behind the loop while later directories have not been looked at."""
    n = 0
    for name in ("<context::plain::Plain as context::Context>::get_resource",
                 "context::plain::GridCollection::get_grid"):
        if not cx.f.has_fn(name):
            continue
        f = cx.f.fn(name)
        for lp in f.loops():
            if lp.parent is not None:
                continue
            full = f.term(lp.header).get("callee_full", "")
            if "PathBuf" not in full:
                continue
            n += 1
            hs = {lp.header} | {x for x in f.succ[lp.header] if x in lp.body}
            done = {b for (a, b) in lp.exits if a in hs and f.term(b)["k"] not in ("unreachable", "resume")}
            early = []
            behind = {x for x in f.reach_from(list(done)) if f.term(x)["k"] == "call" and x not in lp.body}
            for (a, b) in lp.exits:
                if a in hs:
                    continue
                t = f.term(a)
                if f.term(b)["k"] in ("unreachable", "resume", "abort"):
                    continue
                if t["k"] == "call" and b != t.get("target"):
                    continue
                if t["k"] in ("assert", "drop") and b != t.get("target"):
                    continue
                # an early exit that goes on to the code behind the loop (the construction of the "not found"
                # error), possibly after dropping some locals - as opposed to returning a result
                if b in done or (f.reach_from([b]) & behind):
                    early.append((a, b))
            cx.ob("R-SEARCH-ALL-PATHS", "%s/loop%d" % (name.rsplit("::", 1)[-1], n - 1), not early,
                  "the loop over the search paths of %s is left early only by returning a result" % name if not early else
                  "%s can `break` out of the loop over its search paths and report `not found` although later "
                  "directories have not been searched" % name,
                  cx.where(f.term(early[0][0])["span"]) if early else cx.where(f.term(lp.header)["span"]))
    cx.count("R-SEARCH-ALL-PATHS", "path_loops", n)


@rule("R-SIBLING-SEARCH", ["C08"])
def r_sibling_search(cx):
    """Ntv2Grid::find_grid walks the sub-grid tree with a work list. A pass of the loop may end the walk early (break)
    only after it has recorded the grid just examined as the current best (`current_grid_id.clone_from(..)`): a pass
    that rejects a sub-grid (point outside, or on its upper limit) goes on with the remaining siblings."""
    f = cx.f.fn("grid::ntv2::Ntv2Grid::find_grid")
    n = 0
    for lp in f.loops():
        if lp.parent is not None:
            continue
        t = f.term(lp.header)
        if t["k"] != "call" or not (f.callee(t) or "").endswith("::pop"):
            continue
        n += 1
        def _is(t2, what):
            full = (t2.get("callee_full") or "") + " " + (f.callee(t2) or "")
            return (f.callee(t2) or "").endswith("::clone_from") and (("Vec<" in full) == (what == "queue"))
        records = {bb for bb, t2 in f.calls() if bb in lp.body and _is(t2, "record")}
        refills = {bb for bb, t2 in f.calls() if bb in lp.body and _is(t2, "queue")}
        for rb in sorted(refills):
            okr = any(f.dominates(x, rb) for x in records)
            cx.ob("R-SIBLING-SEARCH", "find_grid/descend", okr,
                  "the walk descends into the children of a sub-grid only after recording that sub-grid" if okr else
                  "Ntv2Grid::find_grid descends into the children of a sub-grid without recording the sub-grid itself: a "
                  "point inside it but outside all of its children falls back to an ancestor", cx.where(f.term(rb)["span"]))
        hs = {lp.header} | {x for x in f.succ[lp.header] if x in lp.body}
        bad = None
        inside = f.reach_from([lp.header], avoid=tuple(records))
        for (a, b) in lp.exits:
            if a in hs:
                continue
            ta = f.term(a)
            if f.term(b)["k"] in ("unreachable", "resume", "abort"):
                continue
            if ta["k"] in ("call", "assert", "drop") and b != ta.get("target"):
                continue
            if f.term(b)["k"] == "return" or _leads_to_return_only(f, b):
                continue      # `return None` on a malformed hierarchy
            if a in inside and a in lp.body:
                bad = a
        cx.ob("R-SIBLING-SEARCH", "find_grid/loop%d" % (n - 1), bad is None and bool(records),
              "the walk over the sub-grids ends early only after recording the grid found" if bad is None and records else
              "Ntv2Grid::find_grid can break out of the walk over the sibling sub-grids without having recorded a grid: "
              "the remaining siblings are never tried and the point falls back to the parent",
              cx.where(f.term(bad)["span"]) if bad is not None else cx.where(f.d["span"]))
    cx.count("R-SIBLING-SEARCH", "walks", n)


def _leads_to_return_only(f, b):
    """b reaches a return through drops / gotos only (no calls that build a result)"""
    seen = set()
    work = [b]
    while work:
        x = work.pop()
        if x in seen:
            continue
        seen.add(x)
        t = f.term(x)
        if t["k"] == "return":
            continue
        if t["k"] == "call":
            return False
        if t["k"] == "switch":
            return False
        work.extend(f.succ[x])
    return True


@rule("R-PIPELINE-WRAPPED", ["C03"])
def r_pipeline_wrapped(cx):
    """A definition that is a pipeline is always instantiated as one - also when it has a single step (`> step`,
    `step omit_fwd |`): only a pipeline honours the one-way modifiers of its steps. On the pipeline side of Op::op's
    `is_pipeline` test pipeline::new is reached and Op::op does not call itself."""
    name = "op::Op::op"
    f = cx.f.fn(name)
    where = cx.where(f.d["span"])
    pipe_test = [bb for bb, t in f.calls() if (t.get("callee") or "").endswith("Tokenize::is_pipeline")]
    pipe_new = [bb for bb, t in f.calls() if (f.callee(t) or "").endswith("pipeline::new")]
    if len(pipe_test) != 1 or len(pipe_new) != 1:
        cx.ob("R-PIPELINE-WRAPPED", "anchors", False, "anchor-missing: is_pipeline / pipeline::new in Op::op", where)
        return
    psw = f.term(pipe_test[0]).get("target")
    okp = False
    if psw is not None and f.term(psw)["k"] == "switch":
        yes = f.term(psw)["otherwise"]
        reach = f.reach_from([yes])
        rec = [b for b, t in f.calls() if (f.callee(t) or "") == "op::Op::op" and b in reach]
        okp = pipe_new[0] in reach and not rec
    cx.ob("R-PIPELINE-WRAPPED", "pipeline-always-wrapped", okp,
          "a pipeline definition is handed to pipeline::new, whatever its number of steps" if okp else
          "Op::op instantiates some pipeline definitions (e.g. those with a single step) as the bare step: `> helmert ..` "
          "then runs in the direction it must be skipped, and its one-way flag leaks to the enclosing pipeline", where)
    cx.count("R-PIPELINE-WRAPPED", "tests", 1)


@rule("R-PATH-ORDER", ["C18"])
def r_path_order(cx):
    """Plain looks resources up along its search path in order, and the documented order is: the local `./geodesy`
    first, the per-user data directory second - a project's own definitions shadow the user-wide ones. In
    `Plain::default` the push of the local path dominates the push of the path derived from `data_local_dir()`."""
    name = "<context::plain::Plain as std::default::Default>::default"
    if not cx.f.has_fn(name):
        cx.ob("R-PATH-ORDER", "anchor", False, "anchor-missing: %s" % name)
        return
    f = cx.f.fn(name)
    local, user = [], []
    for bb, t in f.calls():
        if not (f.callee(t) or "").endswith("Vec::<T, A>::push"):
            continue
        a = f.arg_terms(bb)
        v = a[1] if len(a) > 1 else ("unknown",)
        if v[0] == "refplace" and not v[3]:
            v = f.local_value(v[2], f.end_point(bb))
        src = []
        mir.walk(v, lambda y: (src.append("user") if y[0] == "call" and isinstance(y[1], str) and "data_local_dir" in y[1] else
                               src.append("local") if y[0] == "const" and y[2] == ("str", ".") else None) or True)
        if "user" in src:
            user.append(bb)
        elif "local" in src:
            local.append(bb)
    ok = bool(local) and bool(user) and all(f.dominates(l, u) for l in local for u in user)
    cx.ob("R-PATH-ORDER", "default/local-first", ok,
          "the local ./geodesy is pushed onto the search path before the per-user directory" if ok else
          ("anchor-missing: Plain::default does not build a search path from ./geodesy and data_local_dir()" if not (local and user)
           else "Plain::default puts the per-user data directory in front of the local ./geodesy: user-wide register items, "
                "resources and grids shadow the project's own ones of the same name"), cx.where(f.d["span"]))
    cx.count("R-PATH-ORDER", "path_pushes", len(local) + len(user))


@rule("R-OP-NO-REGISTRATION", ["C18", "C14"])
def r_op_no_registration(cx):
    """Instantiating an operator does not change what names mean: `Context::op` of Minimal and Plain never registers
    resources or operators (no call to register_resource / register_op, no insert into the resource or constructor
    tables). A user macro that shadows a built-in adaptor (`geo:in`) stays in force."""
    n = 0
    for impl in ("<context::minimal::Minimal as context::Context>::op", "<context::plain::Plain as context::Context>::op"):
        if not cx.f.has_fn(impl):
            cx.ob("R-OP-NO-REGISTRATION", impl, False, "anchor-missing: %s" % impl)
            continue
        f = cx.f.fn(impl)
        n += 1
        bad = []
        for bb, t in f.calls():
            c = (f.callee(t) or "") + " " + (t.get("callee") or "")
            if "register_resource" in c or "register_op" in c:
                bad.append(c.split()[0].rsplit("::", 1)[-1])
            if c.split()[0].endswith("BTreeMap::<K, V, A>::insert"):
                a = f.arg_terms(bb)
                fld = []
                mir.walk(a[0], lambda y: (fld.append(y[2][1]) if y[0] == "proj" and isinstance(y[2], tuple) and y[2][0] == "f" else None) or True)
                if a[0][0] == "refplace":
                    fld += [p[1] for p in a[0][3] if isinstance(p, tuple) and p[0] == "f"]
                adt = cx.f.lib["adts"].get("context::minimal::Minimal" if "minimal" in impl else "context::plain::Plain")
                names = [x["name"] for x in adt["variants"][0]["fields"]] if adt else []
                for k in fld:
                    if k < len(names) and names[k] in ("resources", "constructors"):
                        bad.append("insert into " + names[k])
        cx.ob("R-OP-NO-REGISTRATION", impl, not bad,
              "%s instantiates without registering anything" % impl.split(" as ")[0].strip("<") if not bad else
              "%s changes the registered resources / operators while instantiating (%s): a user definition of the same name "
              "is overwritten before it can be used" % (impl, ", ".join(sorted(set(bad)))), cx.where(f.d["span"]))
    cx.count("R-OP-NO-REGISTRATION", "op_impls", n)


@rule("R-REGISTER-FOUND", ["C18"])
def r_register_found(cx):
    """Plain finds a file based macro in a register (`prefix.md`) by its opening tag. Once the tag has been found, the
    item is what follows it, up to the closing fence or the end of the file: from the point where the search for the tag
    has succeeded, every path returns - none goes on to the next directory of the search path (and from there to
    `NotFound`), whatever the search for the closing fence yields."""
    name = "<context::plain::Plain as context::Context>::get_resource"
    if not cx.f.has_fn(name):
        cx.ob("R-REGISTER-FOUND", "anchor", False, "anchor-missing: %s" % name)
        return
    f = cx.f.fn(name)
    n = 0
    for lp in f.loops():
        if lp.parent is not None or "PathBuf" not in f.term(lp.header).get("callee_full", ""):
            continue
        finds = [bb for bb in sorted(lp.body) if f.term(bb)["k"] == "call" and
                 (f.callee(f.term(bb)) or "").endswith("str>::find")]
        first = [b for b in finds if all(b == o or f.dominates(b, o) for o in finds)]
        if not first:
            continue
        fb = first[0]
        # the switch on the discriminant of that result
        some = None
        for b2 in sorted(lp.body):
            sw = f.term(b2)
            if sw["k"] != "switch":
                continue
            d = f.operand(sw["discr"], f.end_point(b2))
            src = mir.strip_refs(d[1]) if d[0] == "discr" else None
            if src is not None and src[0] == "call" and src[3] == fb:
                for v, tg in sw["targets"]:
                    if v == 1:
                        some = tg
                if some is None and sw["targets"] and sw["targets"][0][0] == 0:
                    some = sw["otherwise"]
        if some is None:
            continue
        n += 1
        back = lp.header in f.reach_from([some], avoid=[])
        # the text the tag is looked for in has had its carriage returns replaced: the tag ends in a line feed, so in a
        # register with CR/LF line ends it is only found after that clean-up
        hay = f.arg_terms(fb)[0]
        cleaned = []
        mir.walk(hay, lambda y: (cleaned.append(1) if y[0] == "call" and isinstance(y[1], str) and y[1].endswith("::replace") and
                                 len(y[2]) > 1 and mir.strip_refs(y[2][1])[0] == "const" and
                                 isinstance(mir.strip_refs(y[2][1])[2], tuple) and "\r" in str(mir.strip_refs(y[2][1])[2][1]) else None) or True)
        cx.ob("R-REGISTER-FOUND", "get_resource/line-ends-first", bool(cleaned),
              "the tag is looked for in the text with its line ends cleaned up" if cleaned else
              "get_resource looks for the tag of a register item (which ends in a line feed) in the raw file text: in a register "
              "with CR/LF line ends no item is found", cx.where(f.term(fb)["span"]))
        # the closing fence is the bare fence: the last item of a file need not be followed by a line break
        later = [b for b in sorted(f.reach_from([some], avoid=[])) if f.term(b)["k"] == "call" and
                 (f.callee(f.term(b)) or "").endswith("str>::find")]
        for ob_ in later:
            if ob_ == fb:
                continue
            pat = mir.strip_refs(f.arg_terms(ob_)[1])
            if pat[0] == "const" and isinstance(pat[2], tuple) and pat[2][0] == "str" and "```" in pat[2][1]:
                cx.ob("R-REGISTER-FOUND", "get_resource/closing-fence", pat[2][1] == "```",
                      "the end of an item is the bare closing fence" if pat[2][1] == "```" else
                      "get_resource looks for the end of a register item as %r: a closing fence that is not followed by exactly "
                      "that (the last line of a file, a fence followed by blanks) is not seen and the item swallows what follows" % pat[2][1],
                      cx.where(f.term(ob_)["span"]))
        # the tag is the opening fence itself: nothing is demanded in front of it (the first item of a file has no line
        # break before its fence)
        tagv = f.arg_terms(fb)[1]
        if mir.strip_refs(tagv)[0] == "refplace":
            tagv = f.local_value(mir.strip_refs(tagv)[2], f.end_point(fb))
        lits = []
        mir.walk(tagv, lambda y: (lits.append(str(y[2][1])) if y[0] == "const" and isinstance(y[2], tuple) and y[2][0] == "str" else None) or True)
        fence = [x for x in lits if "```" in x]
        if fence:
            okf = all(x.startswith("```") for x in fence)
            cx.ob("R-REGISTER-FOUND", "get_resource/tag-is-fence", okf,
                  "the tag searched for starts with the opening fence" if okf else
                  "get_resource searches for %r: an item whose fence is not preceded by exactly that (the first item of a register "
                  "file) is not found" % fence[0], cx.where(f.term(fb)["span"]))
        cx.ob("R-REGISTER-FOUND", "get_resource/tag-found", not back,
              "once the tag of a register item has been found, get_resource returns the item" if not back else
              "get_resource can go on to the next search directory (and end in NotFound) after it has found the tag of the "
              "register item: an item that is the last of its file and lacks the closing fence is not found any more",
              cx.where(f.term(fb)["span"]))
    if n == 0:
        # the register search lives in a helper of the module (`register_item(text, tag) -> Option<String>`): the same
        # three clauses, read in the helper - a found tag never ends in a None result
        for lp in f.loops():
            if lp.parent is not None or "PathBuf" not in f.term(lp.header).get("callee_full", ""):
                continue
            for cb in sorted(lp.body):
                ct = f.term(cb)
                h = f.callee(ct) if ct["k"] == "call" else None
                if not (h and h.startswith("context::plain::") and cx.f.has_fn(h)):
                    continue
                g = cx.f.fn(h)
                finds = [bb for bb, t in g.calls() if (g.callee(t) or "").endswith("str>::find")]
                first = [b for b in finds if all(b == o or g.dominates(b, o) for o in finds)]
                if not first:
                    continue
                fb = first[0]
                some = None
                for b2 in sorted(g.reachable()):
                    sw = g.term(b2)
                    if sw["k"] != "switch":
                        continue
                    d = g.operand(sw["discr"], g.end_point(b2))
                    src = mir.strip_refs(d[1]) if d[0] == "discr" else None
                    if src is not None and src[0] == "call" and isinstance(src[1], str) and src[1].endswith("Try>::branch") and src[2]:
                        src = mir.strip_refs(src[2][0])
                    if src is not None and src[0] == "call" and src[3] == fb:
                        tg = dict((v, x) for v, x in sw["targets"])
                        some = tg.get(1, sw["otherwise"]) if (1 in tg or 0 in tg) else None
                        if 0 in tg and 1 not in tg:
                            some = sw["otherwise"]
                        # for Try::branch the Continue side is variant 0
                        d1 = mir.strip_refs(d[1])
                        if d1[0] == "call" and isinstance(d1[1], str) and d1[1].endswith("Try>::branch"):
                            some = tg.get(0, sw["otherwise"])
                if some is None:
                    continue
                n += 1
                reach = g.reach_from([some], avoid=[])
                none_after = [bb for bb, i, st in g.all_stmts() if bb in reach and st["k"] == "assign" and st["place"]["l"] == 0 and
                              st["rv"]["k"] == "agg" and st["rv"].get("vname") == "None"]
                hay = g.arg_terms(fb)[0]
                cleaned = []
                mir.walk(hay, lambda y: (cleaned.append(1) if y[0] == "call" and isinstance(y[1], str) and y[1].endswith("::replace") and
                                         len(y[2]) > 1 and mir.strip_refs(y[2][1])[0] == "const" and
                                         isinstance(mir.strip_refs(y[2][1])[2], tuple) and "\r" in str(mir.strip_refs(y[2][1])[2][1]) else None) or True)
                cx.ob("R-REGISTER-FOUND", "get_resource/line-ends-first", bool(cleaned),
                      "the tag is looked for in the text with its line ends cleaned up" if cleaned else
                      "%s looks for the tag of a register item in the raw file text: in a register with CR/LF line ends no item "
                      "is found" % h, cx.where(g.term(fb)["span"]))
                for ob_ in [b for b in sorted(reach) if b in finds and b != fb]:
                    pat = mir.strip_refs(g.arg_terms(ob_)[1])
                    if pat[0] == "const" and isinstance(pat[2], tuple) and pat[2][0] == "str" and "```" in pat[2][1]:
                        cx.ob("R-REGISTER-FOUND", "get_resource/closing-fence", pat[2][1] == "```",
                              "the end of an item is the bare closing fence" if pat[2][1] == "```" else
                              "%s looks for the end of a register item as %r" % (h, pat[2][1]), cx.where(g.term(ob_)["span"]))
                cx.ob("R-REGISTER-FOUND", "get_resource/tag-found", not none_after,
                      "once the tag of a register item has been found, %s delivers the item" % h if not none_after else
                      "%s can answer `no such item` after it has found the tag of the register item: an item that is the last of "
                      "its file and lacks the closing fence is not found any more" % h, cx.where(g.term(fb)["span"]))
    cx.count("R-REGISTER-FOUND", "tag_searches", n)


@rule("R-FILE-BEFORE-REGISTER", ["C18"])
def r_file_before_register(cx):
    """In each directory of the search path Plain looks for a macro first in its own file (`prefix_suffix.resource`), then in
    the register of the prefix (`prefix.md`) - as documented; a definition in a separate file wins over a register item
    of the same name. In the loop over the paths of get_resource, the read of the `.resource` file comes before
    (dominates) the read of the `.md` register."""
    name = "<context::plain::Plain as context::Context>::get_resource"
    if not cx.f.has_fn(name):
        cx.ob("R-FILE-BEFORE-REGISTER", "anchor", False, "anchor-missing: %s" % name)
        return
    f = cx.f.fn(name)

    def pushed_literals(t, depth=0):
        out = []

        def vis(y):
            if y[0] == "mod" and isinstance(y[2], tuple) and isinstance(y[2][0], int) and depth < 4:
                for a in f.arg_terms(y[2][0])[1:]:
                    v = a
                    if mir.strip_refs(v)[0] == "refplace":
                        v = f.local_value(mir.strip_refs(v)[2], f.end_point(y[2][0]))
                    elif a[0] == "refplace":
                        v = f.local_value(a[2], f.end_point(y[2][0]))
                    out.extend(pushed_literals(v, depth + 1))
            if y[0] == "const" and isinstance(y[2], tuple) and y[2][0] == "str":
                out.append(y[2][1])
            return True
        mir.walk(t, vis)
        return out
    reads = []
    for bb, t in f.calls():
        if (f.callee(t) or "").endswith("read_to_string") and f.innermost_loop(bb) is not None:
            lits = pushed_literals(f.arg_terms(bb)[0])
            kind = "file" if any(x.endswith(".resource") for x in lits) else ("register" if any(x.endswith(".md") for x in lits) else None)
            reads.append((bb, kind, t))
    files = [bb for bb, k, _ in reads if k == "file"]
    regs = [(bb, t) for bb, k, t in reads if k == "register"]
    n = 0
    for rb, t in regs:
        n += 1
        ok = any(f.dominates(fb, rb) for fb in files)
        cx.ob("R-FILE-BEFORE-REGISTER", "get_resource/register%d" % (n - 1), ok,
              "the register is searched after the separate resource file of the same directory" if ok else
              "get_resource searches the register (`prefix.md`) without having looked for the separate `.resource` file of that "
              "directory first: a register item wins over the file of the same macro name", cx.where(t["span"]))
    cx.count("R-FILE-BEFORE-REGISTER", "register_reads", n)
    if n == 0:
        cx.ob("R-FILE-BEFORE-REGISTER", "unrecognised", True,
              "the file names read by get_resource could not be classified (not judged)", nontrivial=False)
