"""Table rules (engine E3): exact arithmetic over the constant tables read from the HIR initialisers."""
import math
import re
from fractions import Fraction

import consts
import series
from rulebase import rule, spec

POLY_TY = "math::series::PolynomialCoefficients"


def poly_tables(cx):
    out = {}
    for name, c in cx.f.lib["consts"].items():
        if c["ty"] == POLY_TY:
            v = consts.fold(c["hir"]["value"], cx.f)
            out[name] = (v, c)
    return out


def _half(v, part):
    rows = v[part]
    return [[Fraction(x) for x in row] for row in rows]


@rule("T-SERIES", ["C01", "C06"])
def t_series(cx):
    tabs = poly_tables(cx)
    cx.count("T-SERIES", "tables", len(tabs))
    for name, (v, c) in sorted(tabs.items()):
        short = name.split("::")[-1]
        where = cx.where(c["span"])
        try:
            fwd, inv = _half(v, "fwd"), _half(v, "inv")
            shape_ok = len(fwd) == series.ORD and len(inv) == series.ORD and all(
                len(r) == series.ORD for r in fwd + inv)
        except Exception as e:
            cx.ob("T-SERIES", "%s/shape" % name, False, "table %s cannot be folded exactly: %s" % (short, e), where)
            continue
        if not shape_ok:
            cx.ob("T-SERIES", "%s/shape" % name, False, "table %s is not 6x6 + 6x6" % short, where)
            continue
        for a, b, A, B in (("fwd", "inv", fwd, inv), ("inv", "fwd", inv, fwd)):
            H = series.compose(A, B)
            cx.ob("T-SERIES", "%s/%s-then-%s" % (name, a, b), not H,
                  "S_%s.%s o S_%s.%s = id + O(n^7) exactly (36 rational coefficient identities)" % (short, b, short, a)
                  if not H else
                  "%s: the %s series is not the reversion of the %s series; residual %s" % (
                      short, b, a, series.show_residual(H)), where)


def _by_suffix(tabs, suffix):
    hits = [n for n in tabs if n.split("::")[-1] == suffix]
    return hits[0] if len(hits) == 1 else None


@rule("T-SERIES-CROSS", ["C05", "C14"])
def t_series_cross(cx):
    tabs = poly_tables(cx)
    names = {s: _by_suffix(tabs, s) for s in ("RECTIFYING", "CONFORMAL", "TRANSVERSE_MERCATOR")}
    missing = [s for s, n in names.items() if n is None]
    if missing:
        cx.ob("T-SERIES-CROSS", "anchor", False, "anchor-missing: series table(s) %s not found" % missing)
        return
    R = tabs[names["RECTIFYING"]][0]
    C = tabs[names["CONFORMAL"]][0]
    TM = tabs[names["TRANSVERSE_MERCATOR"]][0]
    where = cx.where(tabs[names["TRANSVERSE_MERCATOR"]][1]["span"])
    checks = [
        ("TM.fwd=RECT.fwd.CONF.inv", series.compose(_half(C, "inv"), _half(R, "fwd")), series.series(_half(TM, "fwd"))),
        ("TM.inv=CONF.fwd.RECT.inv", series.compose(_half(R, "inv"), _half(C, "fwd")), series.series(_half(TM, "inv"))),
    ]
    for key, H, S in checks:
        D = series.tsub(H, S)
        cx.ob("T-SERIES-CROSS", key, not D,
              "on the central meridian the Krueger series reduces to rectifying o conformal^-1 (%s), exactly to n^6" % key
              if not D else "cross identity %s fails; residual %s" % (key, series.show_residual(D)), where)
    # converses (each TM half composed with the other routes gives the identity)
    conv = [
        ("TM.inv.(RECT.fwd.CONF.inv)=id", series.compose_delta(series.compose(_half(C, "inv"), _half(R, "fwd")),
                                                               series.series(_half(TM, "inv")))),
        ("TM.fwd.(CONF.fwd.RECT.inv)=id", series.compose_delta(series.compose(_half(R, "inv"), _half(C, "fwd")),
                                                               series.series(_half(TM, "fwd")))),
    ]
    for key, H in conv:
        cx.ob("T-SERIES-CROSS", key, not H,
              "converse identity %s holds exactly" % key if not H else
              "converse identity %s fails; residual %s" % (key, series.show_residual(H)), where)


F64_RE = re.compile(r"^[+-]?((\d+\.?\d*|\.\d+)([eE][+-]?\d+)?|inf|infinity|nan)$", re.I)


@rule("T-ELLPS", ["C06", "C09"])
def t_ellps(cx):
    hits = consts.find_consts(cx.f, "ELLIPSOID_LIST")
    if len(hits) != 1:
        cx.ob("T-ELLPS", "anchor", False, "anchor-missing: ELLIPSOID_LIST not found")
        return
    c = cx.f.const(hits[0])
    rows = consts.fold(c["hir"]["value"], cx.f)
    where = cx.where(c["span"])
    cx.count("T-ELLPS", "rows", len(rows))
    golden = {r["name"]: r for r in spec("ellipsoids.json")["rows"]}
    seen = {}
    for r in rows:
        name = r[0]
        # (a) the strings that Ellipsoid::named parses with f64::from_str(..).unwrap()
        for idx, label in ((1, "a"), (3, "rf")):
            ok = bool(F64_RE.match(r[idx]))
            cx.ob("T-ELLPS", "parse/%s/%s" % (name, label), ok,
                  "row %s: %s = %r matches the f64::from_str grammar" % (name, label, r[idx]) if ok else
                  "row %s: %s = %r is not accepted by f64::from_str, so Ellipsoid::named(%r) panics on its unwrap" % (
                      name, label, r[idx], name), where)
        # (b) unique names (lookup is first-hit)
        ok = name not in seen
        seen[name] = True
        cx.ob("T-ELLPS", "unique/%s" % name, ok, "ellipsoid name %s occurs once" % name if ok else
              "ellipsoid name %s is listed twice; the second row can never be instantiated" % name, where,
              nontrivial=False)
        # (d) golden values
        if cx.pid == "C06":
            g = golden.get(name)
            if g is None:
                continue  # rows the documentation does not list are not judged
            try:
                a = Fraction(r[1].strip())
                rf = Fraction(r[3].strip())
            except Exception:
                continue  # already reported under parse/
            ga = Fraction(g["a"])
            if "b" in g:
                grf = ga / (ga - Fraction(g["b"]))
                tol = Fraction(1, 10 ** 13)
            else:
                grf = Fraction(g["rf"])
                tol = Fraction(1, 10 ** 12)
            ok_a = a == ga
            ok_rf = (rf == grf) or (grf != 0 and abs(rf - grf) / abs(grf) <= tol)
            cx.ob("T-ELLPS", "golden/%s" % name, ok_a and ok_rf,
                  "row %s carries the published a=%s, 1/f=%s" % (name, g["a"], g.get("rf", "a/(a-b)")) if ok_a and ok_rf
                  else "row %s: a=%s 1/f=%s differ from the published a=%s 1/f=%s" % (
                      name, r[1], r[3], g["a"], float(grf)), where)
    if cx.pid == "C06":
        for name in golden:
            ok = name in seen
            cx.ob("T-ELLPS", "present/%s" % name, ok, "published ellipsoid %s is in the table" % name if ok else
                  "published ellipsoid %s is missing from the built-in table" % name, where, nontrivial=False)
        # (e) every Text default for an ellps* key in any gamut names a row or parses as a,rf
        n = 0
        for cname, cc in cx.f.lib["consts"].items():
            if "OpParameter" not in cc["ty"]:
                continue
            try:
                gam = consts.fold(cc["hir"]["value"], cx.f)
            except consts.Unfoldable:
                continue
            for p in gam:
                if not isinstance(p, dict) or not str(p.get("__struct", "")).endswith("Text"):
                    continue
                if not str(p.get("key", "")).startswith("ellps"):
                    continue
                d = p.get("default")
                if isinstance(d, dict) and d.get("__ctor", "").endswith("Some"):
                    val = d["args"][0]
                    n += 1
                    ok = val in seen or bool(re.match(r"^\s*[0-9.eE+-]+\s*,\s*[0-9.eE+-]+\s*$", val))
                    cx.ob("T-ELLPS", "default/%s/%s" % (cname, p["key"]), ok,
                          "gamut default %s=%s names a built-in ellipsoid" % (p["key"], val) if ok else
                          "gamut default %s=%s names no built-in ellipsoid: every instantiation without ellps panics" % (
                              p["key"], val), cx.where(cc["span"]))
        cx.count("T-ELLPS", "ellps_defaults", n)


@rule("T-MERIDIAN", ["C06"])
def t_meridian(cx):
    hits = consts.find_consts(cx.f, "MERIDIAN_ARC_COEFFICIENTS")
    if len(hits) != 1:
        cx.ob("T-MERIDIAN", "anchor", False, "anchor-missing: MERIDIAN_ARC_COEFFICIENTS not found")
        return
    c = cx.f.const(hits[0])
    v = consts.fold(c["hir"]["value"], cx.f)
    where = cx.where(c["span"])
    cx.count("T-MERIDIAN", "coefficients", len(v))
    # binom(1/2, k)^2 : the expansion of the normalised meridian arc unit in n^2 (Karney 2010 eq. 29)
    b = Fraction(1)
    for k, got in enumerate(v):
        if k > 0:
            b = b * (Fraction(1, 2) - (k - 1)) / k
        want = b * b
        ok = Fraction(got) == want
        cx.ob("T-MERIDIAN", "coef/%d" % k, ok, "coefficient %d of the meridian arc unit = binom(1/2,%d)^2 = %s" % (k, k, want)
              if ok else "coefficient %d of the meridian arc unit is %s, binom(1/2,%d)^2 = %s" % (k, got, k, want), where)


def _frac_of_factor(s):
    s = s.strip()
    if "/" in s:
        a, b = s.split("/")
        return Fraction(a.strip()) / Fraction(b.strip())
    return Fraction(s)


@rule("T-UNITS", ["C11", "C14"])
def t_units(cx):
    lin = consts.find_consts(cx.f, "LINEAR_UNITS")
    ang = consts.find_consts(cx.f, "ANGULAR_UNITS")
    if len(lin) != 1 or len(ang) != 1:
        cx.ob("T-UNITS", "anchor", False, "anchor-missing: unit tables not found")
        return
    gold = spec("units.json")
    rows = []
    for nm, kind in ((lin[0], "linear"), (ang[0], "angular")):
        c = cx.f.const(nm)
        for r in consts.fold(c["hir"]["value"], cx.f):
            rows.append((kind, r["args"], cx.where(c["span"])))
    cx.count("T-UNITS", "rows", len(rows))
    seen = {}
    for n, (kind, args, where) in enumerate(rows):
        name, factor, desc, mult = args[0], args[1], args[2], args[3]
        # lookup is first-hit over linear ++ angular: a repeated name makes the later row unreachable
        ok = name not in seen
        cx.ob("T-UNITS", "unique/%s/%s" % (name, desc), ok,
              "unit name %r resolves to this row (%s)" % (name, desc) if ok else
              "unit name %r is already taken by %r: the unit %r can never be selected, and %r silently means the "
              "earlier row" % (name, seen.get(name), desc, name), where)
        if ok:
            seen[name] = desc
        try:
            want = _frac_of_factor(factor)
            rel = abs(Fraction(mult) - want) / want
            okf = rel <= Fraction(2, 10 ** 15)
        except Exception:
            okf = False
        cx.ob("T-UNITS", "factor/%s/%s" % (name, desc), okf,
              "multiplier of %s (%s) equals its own factor string %s" % (name, desc, factor) if okf else
              "multiplier %s of %s (%s) differs from its own factor string %s" % (float(mult), name, desc, factor), where)
        g = gold[kind].get(name)
        if g is not None and ok:
            if g.startswith("pi/"):
                wantg = Fraction(math.pi) / Fraction(g[3:])
            else:
                wantg = _frac_of_factor(g)
            rel = abs(Fraction(mult) - wantg) / wantg
            okg = rel <= Fraction(2, 10 ** 15)
            cx.ob("T-UNITS", "golden/%s" % name, okg,
                  "unit %s has the published factor %s" % (name, g) if okg else
                  "unit %s: multiplier %s differs from the published factor %s" % (name, float(mult), g), where)


@rule("T-ADAPTORS", ["C11"])
def t_adaptors(cx):
    hits = consts.find_consts(cx.f, "BUILTIN_ADAPTORS")
    if len(hits) != 1:
        cx.ob("T-ADAPTORS", "anchor", False, "anchor-missing: BUILTIN_ADAPTORS not found")
        return
    c = cx.f.const(hits[0])
    rows = [tuple(r) for r in consts.fold(c["hir"]["value"], cx.f)]
    want = [tuple(r) for r in spec("adaptors.json")["rows"]]
    where = cx.where(c["span"])
    cx.count("T-ADAPTORS", "rows", len(rows))
    got = dict(rows)
    for name, d in want:
        ok = " ".join(got.get(name, "").split()) == d
        cx.ob("T-ADAPTORS", "row/%s" % name, ok, "%s = %r as documented" % (name, d) if ok else
              "%s is %r, documented as %r" % (name, got.get(name), d), where)
    # both context providers must register every row: a loop over the table calling register_resource
    for ctxname in ("context::minimal::Minimal", "context::plain::Plain"):
        found = False
        for fname in cx.f.fn_names():
            d = cx.f.lib["fns"][fname]
            if d.get("impl_self") != ctxname or not (fname.endswith("::new") or fname.endswith("::default")):
                continue
            f = cx.f.fn(fname)
            uses_table = any(
                "BUILTIN_ADAPTORS" in str(s) for _, _, s in f.all_stmts()) or any(
                "BUILTIN_ADAPTORS" in str(t.get("args")) for _, t in f.calls())
            regs = [bb for bb, t in f.calls() if (f.callee(t) or "").endswith("register_resource")]
            in_loop = any(f.innermost_loop(bb) is not None for bb in regs)
            if uses_table and in_loop:
                found = True
        cx.ob("T-ADAPTORS", "registered/%s" % ctxname, found,
              "%s registers every BUILTIN_ADAPTORS row in its constructor" % ctxname if found else
              "%s does not register the BUILTIN_ADAPTORS rows in a loop in its constructor" % ctxname)
