"""PROJ string translator (C17): the structural clauses that are visible in the shape of parse_proj and Plain::op.

R-PROJ-FILTER       Plain::op instantiates what parse_proj returns for the definition it was given.
R-PROJ-INVERSION    the three things a pipeline-level `inv` changes - the order in which the translated steps are
                    collected, the inversion of each step, and the exchange of omit_fwd/omit_inv - are all controlled by
                    one and the same flag (an exchange of the omissions that does not depend on it changes the meaning
                    of every non-inverted pipeline).
R-PROJ-GLOBALS      pipeline globals are inserted right after the operator name (index 1), before the step's own
                    arguments, so that a step-local value of the same key comes later and wins.
R-PROJ-REFUSALS     `init=` clauses and a `proj=pipeline` that is not the first step end in an Unsupported error."""
import keys as K
import mir
import slicing
from rulebase import rule
from rules.keysrules import str_eq_guards

PARSE = "token::parse_proj"


def _mentions(t, pred):
    hit = []

    def v(x):
        if pred(x):
            hit.append(x)
            return False
        return True
    mir.walk(t, v)
    return hit


@rule("R-PROJ-FILTER", ["C17"])
def r_proj_filter(cx):
    n = 0
    for name in cx.f.fn_names():
        if not (name.startswith("<context::plain::Plain as context::Context>::op")):
            continue
        f = cx.f.fn(name)
        for bb, t in f.calls():
            if (f.callee(t) or "") != "op::Op::new":
                continue
            n += 1
            a = f.arg_terms(bb)[0]
            # every alternative value of the definition handed on is the translator's result
            leaves = []

            def lv(x, d=0):
                x = mir.strip_refs(x)
                if x[0] == "phi" and d < 10:
                    for o in x[2]:
                        lv(o, d + 1)
                elif x[0] == "call" and isinstance(x[1], str) and x[1].rsplit("::", 1)[-1] in ("deref", "as_str", "as_ref", "borrow") and x[2]:
                    lv(x[2][0], d + 1)
                else:
                    leaves.append(x)
            lv(a)
            calls = _mentions(a, lambda x: x[0] == "call" and x[1] == PARSE)
            ok = bool(calls) and all(mir.strip_refs(c[2][0]) in (("arg", 2), ("proj", ("arg", 2), "deref")) for c in calls) \
                and all(_mentions(l, lambda x: x[0] == "call" and x[1] == PARSE) for l in leaves)
            cx.ob("R-PROJ-FILTER", "Plain::op/new%d" % (n - 1), ok,
                  "Plain::op instantiates parse_proj(definition)" if ok else
                  "Plain::op hands a definition to Op::new that is not the result of parse_proj on the text it was "
                  "given: PROJ strings are not translated (or something else is)", cx.where(t["span"]))
    cx.count("R-PROJ-FILTER", "instantiations", n)


@rule("R-PROJ-INVERSION", ["C17"])
def r_proj_inversion(cx):
    f = cx.f.fn(PARSE)
    where = cx.where(f.d["span"])
    # (1) the closure that exchanges the directional omissions, and the variables it captures
    swap = None
    for bb, i, s in f.all_stmts():
        if s["k"] == "assign" and s["rv"]["k"] == "agg" and s["rv"].get("agg") == "closure":
            v = f.rvalue(s["rv"], (bb, i))
            cname = v[1][1] if v[0] == "agg" and isinstance(v[1], tuple) and v[1][0] == "closure" else None
            if cname and cx.f.has_fn(cname):
                g = cx.f.fn(cname)
                lits = {lit for (_, _, lit) in str_eq_guards(g)}
                if {"omit_fwd", "omit_inv"} <= lits:
                    caps = []
                    for o in s["rv"].get("ops", ()):
                        pl = mir.op_place(o)
                        if pl is not None:
                            caps.append(_root(f, pl["l"]))
                    swap = (g, caps, bb)
    if swap is None:
        # the same exchange written inline (an explicit loop over the elements instead of an iterator chain)
        guards = [(succ, lit) for (succ, lhs, lit) in str_eq_guards(f) if lit in ("omit_fwd", "omit_inv")]
        if {lit for _, lit in guards} != {"omit_fwd", "omit_inv"}:
            cx.ob("R-PROJ-INVERSION", "swap/closure", False,
                  "anchor-missing: nothing in parse_proj exchanges omit_fwd and omit_inv", where)
            return
        fl = set()
        for succ, lit in guards:
            b, seen = succ, set()
            sw = None
            while b is not None and b not in seen:
                seen.add(b)
                t = f.term(b)
                if t["k"] == "switch":
                    sw = b
                    break
                b = t.get("target") if t["k"] in ("goto", "call", "drop", "assert") else None
            pl = mir.op_place(f.term(sw)["discr"]) if sw is not None else None
            root = _root(f, pl["l"]) if pl is not None else None
            fl.add(root if root is not None and str(f.local_ty(root)) == "bool" else None)
        ok = len(fl) == 1 and None not in fl
        cx.ob("R-PROJ-INVERSION", "swap/conditional", ok,
              "the exchange of omit_fwd and omit_inv depends on the flag `%s`" % f.lname(list(fl)[0]) if ok else
              "parse_proj exchanges omit_fwd and omit_inv whether or not the pipeline is inverted: for an ordinary pipeline "
              "(or a single step) the step is then skipped in the opposite direction of what the PROJ string asks for", where)
        if not ok:
            return
        _proj_inversion_rest(cx, f, list(fl)[0], where)
        return
    g, caps, cbb = swap
    # inside the closure: the exchange happens only on a branch that tests a captured bool
    cd = slicing.control_deps(g)
    guarded = True
    tested = False
    for (succ, lhs, lit) in str_eq_guards(g):
        if lit not in ("omit_fwd", "omit_inv"):
            continue
        # the blocks that produce the *other* literal: reachable from succ; they must be control dependent on a switch
        # whose discriminant derives from the closure environment (a captured flag)
        reach = g.reach_from([succ])
        env_tests = []
        for b in reach:
            t = g.term(b)
            if t["k"] == "switch":
                c = g.operand(t["discr"], g.end_point(b))
                if _mentions(c, lambda x: x == ("arg", 1)) and not _mentions(c, lambda x: x[0] == "call"):
                    env_tests.append(b)
        if env_tests:
            tested = True
        else:
            guarded = False
    flags = [l for l in caps if str(f.local_ty(l)) == "bool"]
    ok = guarded and tested and len(flags) == 1
    cx.ob("R-PROJ-INVERSION", "swap/conditional", ok,
          "the exchange of omit_fwd and omit_inv depends on the captured flag `%s`" % (f.lname(flags[0]) if flags else "?") if ok else
          "parse_proj exchanges omit_fwd and omit_inv whether or not the pipeline is inverted: for an ordinary pipeline "
          "(or a single step) the step is then skipped in the opposite direction of what the PROJ string asks for",
          cx.where(g.d["span"]))
    if not flags:
        return
    _proj_inversion_rest(cx, f, flags[0], where)


def _proj_inversion_rest(cx, f, flag, where):
    flags = [flag]
    # (2) the same flag decides where a translated step is put (front: reversed order / back)
    inserts = [bb for bb, t in f.calls() if (f.callee(t) or "").endswith("Vec::<T, A>::insert") and
               len(f.arg_terms(bb)) > 1 and f.arg_terms(bb)[1][0] == "const" and f.arg_terms(bb)[1][2] == 0]
    pushes = [bb for bb, t in f.calls() if (f.callee(t) or "").endswith("Vec::<T, A>::push")]
    cdf = slicing.control_deps(f)

    def controlled_by_flag(bb):
        seen, work = set(), [bb]
        while work:
            x = work.pop()
            for a in cdf.get(x, ()):
                if a in seen:
                    continue
                seen.add(a)
                work.append(a)
                t = f.term(a)
                if t["k"] == "switch":
                    pl = mir.op_place(t["discr"])
                    if pl is not None and _root(f, pl["l"]) == flag:
                        return True
        return False
    ok2 = bool(inserts) and all(controlled_by_flag(b) for b in inserts)
    cx.ob("R-PROJ-INVERSION", "order/same-flag", ok2,
          "translated steps are collected in reverse order exactly when that flag is set" if ok2 else
          "parse_proj: the reversal of the step order is not controlled by the flag that controls the exchange of the "
          "omissions", where)
    # (3) and it takes part in the test that decides whether the step gets an `inv`
    ok3 = False
    for bb in sorted(f.reachable()):
        t = f.term(bb)
        if t["k"] != "switch":
            continue
        c = f.operand(t["discr"], f.end_point(bb))
        if c[0] == "bin" and c[1] in ("Ne", "Eq"):
            for bb2, i2, s2 in f.all_stmts():
                pass
            pl = mir.op_place(t["discr"])
            # the comparison statement in this block
            for s2 in f.stmts(bb):
                if s2["k"] == "assign" and s2["rv"]["k"] == "bin" and s2["rv"].get("op") in ("Ne", "Eq"):
                    ls = [mir.op_place(s2["rv"][k]) for k in ("a", "b")]
                    roots = {_root(f, p["l"]) for p in ls if p is not None}
                    if flag in roots:
                        ok3 = True
    cx.ob("R-PROJ-INVERSION", "inv/same-flag", ok3,
          "a step is inverted exactly when its own `inv` and that flag differ" if ok3 else
          "parse_proj: the decision to invert a step does not compare the step's own inv with the pipeline's", where)
    cx.count("R-PROJ-INVERSION", "flags", len(flags))


def _root(f, l):
    for _ in range(8):
        if f.name_of_local.get(l):
            return l
        defs = f.defs().get(l, ())
        if len(defs) != 1:
            return l
        bb, i, kind = defs[0][0], defs[0][1], defs[0][2]
        if kind != "full" or i is None or i >= len(f.stmts(bb)):
            return l
        rv = f.stmts(bb)[i]["rv"]
        if rv["k"] in ("ref", "rawptr"):
            l = rv["place"]["l"]
        elif rv["k"] in ("use", "cast"):
            p = mir.op_place(rv["a"])
            if p is None:
                return l
            l = p["l"]
        else:
            return l
    return l


@rule("R-PROJ-GLOBALS", ["C17"])
def r_proj_globals(cx):
    f = cx.f.fn(PARSE)
    n = 0
    for bb, t in f.calls():
        if not (f.callee(t) or "").endswith("Vec::<T, A>::insert"):
            continue
        a = f.arg_terms(bb)
        if len(a) < 3:
            continue
        val = mir.strip_refs(a[2])
        # the pipeline globals: a String carried from step to step by the loop over the steps (collected at the
        # `proj=pipeline` step, used for every later one) - the value inserted is a clone of it
        if not (val[0] == "call" and isinstance(val[1], str) and val[1].endswith("::clone") and val[2]):
            continue
        inner = mir.strip_refs(val[2][0])
        carried = inner[0] == "loopphi" or (inner[0] == "phi" and any(x[0] == "loopphi" for x in inner[2]))
        if not carried:
            continue
        n += 1
        ok = a[1][0] == "const" and a[1][2] == 1
        # the a/rf/k rewriting (tidy_proj) works on the step's own elements: it runs before the globals go in
        tidy = [b2 for b2, t2 in f.calls() if (f.callee(t2) or "") == "token::tidy_proj"]
        before = bool(tidy) and all(bb in f.reach_from([b2]) and b2 not in f.reach_from([bb], avoid=_loop_headers(f)) for b2 in tidy)
        cx.ob("R-PROJ-GLOBALS", "tidy-first%d" % (n - 1), before,
              "tidy_proj rewrites the step's own a / rf / k before the pipeline globals are inserted" if before else
              "parse_proj inserts the pipeline globals before tidy_proj runs: a global `ellps` then makes tidy_proj ignore "
              "the step's own a / rf (a global overrides a step-local value)", cx.where(t["span"]))
        cx.ob("R-PROJ-GLOBALS", "insert%d" % (n - 1), ok,
              "the pipeline globals go in right after the operator name, before the step's own arguments" if ok else
              "parse_proj does not insert the pipeline globals at position 1 (right after the operator name): a global "
              "placed behind the step's own arguments overrides a step-local value of the same key", cx.where(t["span"]))
    if n == 0:
        cx.ob("R-PROJ-GLOBALS", "insert0", False, "anchor-missing: no insertion of the pipeline globals into a step",
              cx.where(f.d["span"]))
    cx.count("R-PROJ-GLOBALS", "insertions", n)


@rule("R-PROJ-REFUSALS", ["C17"])
def r_proj_refusals(cx):
    f = cx.f.fn(PARSE)
    errs = [bb for bb, i, s in f.all_stmts() if s["k"] == "assign" and s["rv"]["k"] == "agg" and
            s["rv"].get("adt") == "Error" and s["rv"].get("vname") == "Unsupported"]
    def _init_tests(g):
        return [bb for bb, t in g.calls() if (g.callee(t) or "").endswith("::starts_with") and
                len(g.arg_terms(bb)) > 1 and K._const_key(g.arg_terms(bb)[1]) == "init="]
    init_tests = _init_tests(f)
    # the same test written as a closure handed to an iterator adaptor: `elements.iter().any(|x| x.starts_with("init="))`
    closure_sites = []
    for bb, t in f.calls():
        for a in f.arg_terms(bb):
            if a[0] == "agg" and isinstance(a[1], tuple) and a[1][0] == "closure" and cx.f.has_fn(a[1][1]) and _init_tests(cx.f.fn(a[1][1])):
                closure_sites.append((bb, (f.callee(t) or "").rsplit("::", 1)[-1], f.arg_terms(bb)[0]))
    ok_init = any(e in f.reach_from([f.term(b)["target"]]) for b in init_tests for e in errs if f.term(b).get("target") is not None) or \
        any(e in f.reach_from([f.term(b)["target"]]) for b, _, _ in closure_sites for e in errs if f.term(b).get("target") is not None)
    have = bool(init_tests or closure_sites)
    cx.ob("R-PROJ-REFUSALS", "init", have and ok_init,
          "an element starting with `init=` leads to an Unsupported error" if have and ok_init else
          "parse_proj no longer refuses `init=` clauses with an error", cx.where(f.d["span"]))
    # ... and every element of the step is tested, wherever the init clause stands: the loop doing the test is left
    # only when the elements are exhausted or by an error return - not by a `break` on meeting `proj=` first
    tidy = [b for b, t in f.calls() if (f.callee(t) or "") == "token::tidy_proj"]
    everywhere, why = False, "the `init=` test is not applied to the elements of a step in a way the analysis can follow"
    for b in init_tests:
        lp = f.innermost_loop(b)
        if lp is None:
            continue
        early = []
        for (x, y) in lp.exits:
            if x == lp.header:
                continue        # the iterator is exhausted
            t = f.term(x)
            if t["k"] == "switch" and _is_next_switch(f, x):
                continue
            if tidy and not any(tb in f.reach_from([y]) for tb in tidy):
                continue        # an error return
            early.append(x)
        if not early:
            everywhere = True
        else:
            why = "the loop testing the elements of a step for `init=` is left early (on meeting `proj=`): an init clause " \
                  "written after the proj= element is never seen and is passed on to the operator instead of being refused"
    for b, meth, recv in closure_sites:
        bad = _mentions(recv, lambda x: x[0] == "call" and isinstance(x[1], str) and
                        x[1].rsplit("::", 1)[-1] in ("skip", "take", "take_while", "skip_while", "step_by", "nth", "first", "last"))
        if meth in ("any", "find", "position", "all", "filter", "find_map") and not bad:
            everywhere = True
        else:
            why = "the `init=` test is applied to a part of the elements only (%s)" % meth
    cx.ob("R-PROJ-REFUSALS", "init-everywhere", everywhere,
          "every element of a step is tested for `init=`" if everywhere else "parse_proj: " + why, cx.where(f.d["span"]))
    pipes = [(succ, lit) for (succ, lhs, lit) in str_eq_guards(f) if lit == "pipeline"]
    ok_nested = False
    for succ, _ in pipes:
        reach = f.reach_from([succ])
        for b in reach:
            t = f.term(b)
            if t["k"] == "switch":
                c = f.operand(t["discr"], f.end_point(b))
                if c[0] == "bin" and c[1] in ("Ne", "Eq", "Gt") and c[3][0] == "const" and c[3][2] == 0:
                    if any(e in f.reach_from([x for x in f.succ[b]]) for e in errs):
                        ok_nested = True
    cx.ob("R-PROJ-REFUSALS", "nested", ok_nested,
          "a `proj=pipeline` that is not the first step leads to an Unsupported error" if ok_nested else
          "parse_proj no longer refuses nested pipelines (a proj=pipeline element in a later step) with an error",
          cx.where(f.d["span"]))
    cx.count("R-PROJ-REFUSALS", "error_returns", len(errs))


def _loop_headers(f):
    return tuple(lp.header for lp in f.loops())


@rule("R-REMOVE-PAIR", ["C17", "C09"])
def r_remove_pair(cx):
    """tidy_proj deletes the `a=` and the `rf=` element of a step by the two indices it saved earlier. Removing one
    element shifts everything behind it, so the two removals must be ordered by a comparison of the two indices (the
    higher one first) - or the second index corrected. Unordered, `rf` before `a` deletes a neighbouring parameter,
    or panics when `a` is the last element."""
    f = cx.f.fn("token::tidy_proj")
    rem = [(bb, f.arg_terms(bb)) for bb, t in f.calls() if (f.callee(t) or "").endswith("Vec::<T, A>::remove")]
    n = 0
    idx_terms = []
    for bb, a in rem:
        if len(a) > 1:
            idx_terms.append((bb, mir.strip_refs(a[1])))
    distinct = []
    for bb, t in idx_terms:
        if t not in [x for _, x in distinct]:
            distinct.append((bb, t))
    if len(distinct) >= 2:
        n = 1
        i1, i2 = distinct[0][1], distinct[1][1]
        ordered = False
        for b in sorted(f.reachable()):
            t = f.term(b)
            if t["k"] != "switch":
                continue
            c = f.operand(t["discr"], f.end_point(b))
            if c[0] == "bin" and c[1] in ("Gt", "Lt", "Ge", "Le") and {mir.strip_refs(c[2]), mir.strip_refs(c[3])} == {i1, i2}:
                if all(f.dominates(b, bb) for bb, _ in idx_terms):
                    ordered = True
        cx.ob("R-REMOVE-PAIR", "tidy_proj/a-rf", ordered,
              "the two removals are ordered by a comparison of the two saved indices" if ordered else
              "tidy_proj removes the `a=` and `rf=` elements by their saved indices without comparing the indices: with "
              "`rf` written before `a` the wrong element is deleted (or the index is out of range)",
              cx.where(f.term(rem[0][0])["span"]))
    else:
        cx.ob("R-REMOVE-PAIR", "tidy_proj/a-rf", False, "anchor-missing: tidy_proj does not remove two elements by saved indices",
              cx.where(f.d["span"]))
    cx.count("R-REMOVE-PAIR", "pairs", n)


def _is_next_switch(f, b):
    """the switch on the discriminant of an `Iterator::next()` result (None leaves the loop)"""
    t = f.term(b)
    c = f.operand(t["discr"], f.end_point(b))
    c = mir.strip_refs(c)
    return c[0] == "discr" and mir.strip_refs(c[1])[0] == "call" and isinstance(mir.strip_refs(c[1])[1], str) and \
        mir.strip_refs(c[1])[1].rsplit("::", 1)[-1] in ("next", "next_back")


@rule("R-PROJ-PLUS", ["C17"])
def r_proj_plus(cx):
    """PROJ's `+` is a prefix of a token (`+proj=utm`): parse_proj removes it only where it *starts* a token - after
    white space (` +`, `\\n+`) or at the very start of the text (trim_start_matches) - never wherever it occurs, which
    would also eat the plus signs inside values (`+x_0=5e+5`, `+x=+12.5`)."""
    n = 0
    for name in sorted(cx.f.lib["fns"]):
        if not name.startswith(PARSE):
            continue
        f = cx.f.fn(name)
        for bb, t in f.calls():
            tail = (f.callee(t) or "").rsplit("::", 1)[-1]
            a = f.arg_terms(bb)
            if len(a) < 2:
                continue
            pat = mir.strip_refs(a[1])
            if pat[0] != "const" or not isinstance(pat[2], tuple) or len(pat[2]) != 2 or "+" not in str(pat[2][1]):
                continue
            p = str(pat[2][1])
            if tail not in ("replace", "replacen", "trim_start_matches", "trim_matches", "trim_end_matches", "strip_prefix",
                            "split", "trim_left_matches"):
                continue
            n += 1
            if tail in ("trim_start_matches", "strip_prefix", "trim_left_matches"):
                ok = p == "+"
            elif tail in ("replace", "replacen"):
                i = p.index("+")
                ok = i > 0 and p[i - 1].isspace()
            else:
                ok = False
            cx.ob("R-PROJ-PLUS", "%s/%s%d" % (name, tail, n - 1), ok,
                  "`+` is removed as a token prefix (%s %r)" % (tail, p) if ok else
                  "parse_proj removes `+` with %s(%r): also the plus signs inside parameter values (`x_0=5e+5`) are "
                  "removed, truncating the value" % (tail, p), cx.where(t["span"]))
    # ... and in both places where a token can start inside the text: behind a blank and at the start of a line (a
    # multi-line definition whose continuation lines start with `+step` in column 0)
    ctxs = set()
    for name in sorted(cx.f.lib["fns"]):
        if not name.startswith(PARSE):
            continue
        f = cx.f.fn(name)
        for bb, t in f.calls():
            tail = (f.callee(t) or "").rsplit("::", 1)[-1]
            a = f.arg_terms(bb)
            if len(a) < 2:
                continue
            pat = mir.strip_refs(a[1])
            if pat[0] != "const" or not isinstance(pat[2], tuple) or len(pat[2]) != 2 or "+" not in str(pat[2][1]):
                continue
            p = str(pat[2][1])
            if tail in ("replace", "replacen") and p.index("+") > 0:
                ctxs.add(p[p.index("+") - 1])
            if tail in ("trim_start_matches", "strip_prefix", "trim_left_matches") and (f.innermost_loop(bb) is not None or "{closure" in name):
                ctxs.add("line")
    # the line ends are brought to `\n` first: a lone carriage return is a line break too (`str::lines` does not know it),
    # and a `+` behind it is a token prefix like any other
    crs = 0
    for name in sorted(cx.f.lib["fns"]):
        if not name.startswith(PARSE):
            continue
        f = cx.f.fn(name)
        for bb, t in f.calls():
            if (f.callee(t) or "").rsplit("::", 1)[-1] in ("replace", "replacen") and len(f.arg_terms(bb)) > 2:
                pat = mir.strip_refs(f.arg_terms(bb)[1])
                if pat[0] == "const" and isinstance(pat[2], tuple) and len(pat[2]) == 2 and str(pat[2][1]) == "\r":
                    rep = mir.strip_refs(f.arg_terms(bb)[2])
                    if rep[0] == "const" and isinstance(rep[2], tuple) and "\n" in str(rep[2][1]):
                        crs += 1
    if "line" not in ctxs:
        cx.ob("R-PROJ-PLUS", "line-ends", crs > 0,
              "a lone carriage return is turned into a line feed before the text is taken apart" if crs else
              "parse_proj no longer turns a lone carriage return into a line feed: with CR line ends the `+` that starts a line "
              "is not removed (only ` +` and `\\n+` are known) and a `#` comment swallows the following lines",
              cx.where(cx.f.fn(PARSE).d["span"]))
    ok = " " in ctxs and ("\n" in ctxs or "line" in ctxs)
    cx.ob("R-PROJ-PLUS", "contexts", ok,
          "`+` is removed behind a blank and at the start of a line" if ok else
          "parse_proj removes the `+` prefix only %s: in a multi-line definition whose lines start with `+` in column 0 "
          "(`+proj=pipeline\\n+step +proj=utm ..`) the tokens keep their plus sign and the steps are not recognised" % (
              "behind " + ", ".join(repr(c) for c in sorted(ctxs)) if ctxs else "at the start of the text"),
          cx.where(cx.f.fn(PARSE).d["span"]))
    cx.count("R-PROJ-PLUS", "plus_patterns", n)


@rule("R-PROJ-TIDY-VERBATIM", ["C17"])
def r_proj_tidy_verbatim(cx):
    """tidy_proj rewrites `a=.. rf=..` to `ellps=a,rf` by moving the *texts* of the two values: the numbers reach the
    ellipsoid parser exactly as written. It does not parse and re-render them (`format!("{:.3}", a)` drops the digits of
    the reciprocal flattening beyond the third decimal - GRS80 becomes another ellipsoid, 2 cm away)."""
    name = "token::tidy_proj"
    if not cx.f.has_fn(name):
        cx.ob("R-PROJ-TIDY-VERBATIM", "anchor", False, "anchor-missing: %s" % name)
        return
    bad = []
    for fn in sorted(cx.f.lib["fns"]):
        if not (fn == name or fn.startswith(name + "::{closure")):
            continue
        f = cx.f.fn(fn)
        for bb, t in f.calls():
            c = f.callee(t) or ""
            full = t.get("callee_full") or ""
            if c.endswith("str>::parse") and full.rsplit("parse::<", 1)[-1].rstrip(">") in ("f32", "f64"):
                bad.append(t)
    cx.ob("R-PROJ-TIDY-VERBATIM", "tidy_proj", not bad,
          "tidy_proj moves parameter values as text" if not bad else
          "tidy_proj parses a parameter value as a number (and renders it again): the value that reaches the operator is the "
          "re-rendered one, not the one written", cx.where(bad[0]["span"]) if bad else cx.where(cx.f.fn(name).d["span"]))
    cx.count("R-PROJ-TIDY-VERBATIM", "functions", 1)


@rule("R-PROJ-COMMENT", ["C17"])
def r_proj_comment(cx):
    """In PROJ text a `#` starts a comment wherever it stands - behind a blank, a tab, or attached to the last parameter.
    Where parse_proj looks for the comment sign (split / find / split_once) the pattern is the bare `#`, not the sign with
    some context (` #`), which would leave `+zone=32# remark` and tab-aligned comments in the text."""
    n = 0
    scope = [x for x in sorted(cx.f.lib["fns"]) if x.startswith(PARSE)]
    # private helpers of the token module that parse_proj hands its text to (a shared comment stripper, say)
    for name in list(scope):
        f = cx.f.fn(name)
        for bb, t in f.calls():
            c = f.callee(t) or ""
            if c.startswith("token::") and not c.startswith(PARSE) and cx.f.has_fn(c) and c not in scope and \
                    c not in ("token::tidy_proj",):
                scope += [x for x in sorted(cx.f.lib["fns"]) if x == c or x.startswith(c + "::{closure")]
    for name in scope:
        f = cx.f.fn(name)
        for bb, t in f.calls():
            tail = (f.callee(t) or "").rsplit("::", 1)[-1]
            if tail not in ("split", "splitn", "split_once", "find", "split_terminator", "rsplit", "rfind", "contains", "starts_with"):
                continue
            a = f.arg_terms(bb)
            if len(a) < 2:
                continue
            pat = mir.strip_refs(a[1])
            if pat[0] != "const" or not isinstance(pat[2], tuple) or len(pat[2]) != 2 or "#" not in str(pat[2][1]):
                continue
            p = str(pat[2][1])
            n += 1
            cx.ob("R-PROJ-COMMENT", "%s/%s%d" % (name, tail, n - 1), p == "#",
                  "the comment sign is looked for as the bare `#`" if p == "#" else
                  "parse_proj looks for comments with %s(%r): a `#` that is not preceded by exactly that context (after a tab, "
                  "or attached to a value) does not start a comment, its words become parameters of the step" % (tail, p),
                  cx.where(t["span"]))
    cx.count("R-PROJ-COMMENT", "comment_patterns", n)


@rule("R-PROJ-TIDY-INDEPENDENT", ["C17"])
def r_proj_tidy_independent(cx):
    """tidy_proj makes two unrelated repairs to a step: `a=` + `rf=` become `ellps=a,rf`, and `k=` becomes `k_0=`.
    A step may need both (typical projinfo output: `+k=0.9996 ... +a=6378137 +rf=298.257222101`), so the search for
    `k=` is not control dependent on the outcome of the a/rf decision: every path to the Ok return that has decided
    the a/rf question either way goes on to the `k=` search."""
    f = cx.f.fn("token::tidy_proj")

    def const_arg(bb, lit):
        return any(K._const_key(x) == lit for x in f.arg_terms(bb)[1:2])
    ktests = [bb for bb, t in f.calls() if (f.callee(t) or "").rsplit("::", 1)[-1] in ("strip_prefix", "starts_with") and const_arg(bb, "k=")]
    for name in sorted(cx.f.lib["fns"]):
        if name.startswith("token::tidy_proj::{closure"):
            g = cx.f.fn(name)
            if any((g.callee(t) or "").rsplit("::", 1)[-1] in ("strip_prefix", "starts_with") and
                   any(K._const_key(x) == "k=" for x in g.arg_terms(bb)[1:2]) for bb, t in g.calls()):
                for bb, t in f.calls():
                    if any(a[0] == "agg" and isinstance(a[1], tuple) and a[1][0] == "closure" and a[1][1] == name for a in f.arg_terms(bb)):
                        ktests.append(bb)
    pushes = [bb for bb, t in f.calls() if (f.callee(t) or "").endswith("Vec::<T, A>::push")]
    if not ktests or not pushes:
        cx.ob("R-PROJ-TIDY-INDEPENDENT", "tidy_proj/k-after-ellps", False,
              "anchor-missing: tidy_proj has no `k=` search or no ellps= insertion", cx.where(f.d["span"]))
        cx.count("R-PROJ-TIDY-INDEPENDENT", "repairs", 0)
        return
    # the search loop / call that contains the k= test: entered from a block E; the a/rf decision is the set of switches
    # the ellps= push is control dependent on
    cd = slicing.control_deps(f)

    def trans(b):
        seen, work = set(), [b]
        while work:
            x = work.pop()
            for a in cd.get(x, ()):
                if a not in seen:
                    seen.add(a)
                    work.append(a)
        return seen
    decision = set()
    for p in pushes:
        decision |= trans(p)
    # exact criterion: from neither side of a switch the ellps= insertion depends on can an Ok result be reached without
    # passing the k= search
    oks = K.ok_blocks(f)
    # the search as a whole: the loop around the test (an empty step makes zero iterations), or the adaptor call
    ktests = [(f.innermost_loop(kb).header if f.innermost_loop(kb) is not None else kb) for kb in ktests]
    bad = []
    for d in sorted(decision):
        t = f.term(d)
        if t["k"] != "switch":
            continue
        for s_ in set(f.succ[d]):
            if s_ in ktests:
                continue
            reach = f.reach_from([s_], avoid=tuple(ktests))
            if any(o in reach for o in oks):
                bad.append(d)
    ok = not bad
    cx.ob("R-PROJ-TIDY-INDEPENDENT", "tidy_proj/k-after-ellps", ok,
          "the k= search is reached whichever way the a / rf question is decided" if ok else
          "tidy_proj: after deciding the a / rf question one way, the function returns without looking for `k=`: a step "
          "with a=, rf= and the deprecated k= keeps its k=, which Rust Geodesy ignores (scale 1 instead of k)",
          cx.where(f.term(bad[0])["span"]) if bad else cx.where(f.d["span"]))
    cx.count("R-PROJ-TIDY-INDEPENDENT", "repairs", 2)


@rule("R-PROJ-PASSTHROUGH", ["C17", "C14"])
def r_proj_passthrough(cx):
    """Text that is not PROJ syntax passes through parse_proj unchanged: a definition that contains the Rust Geodesy
    step separator `|`, and - independently - a definition that does not contain `proj` at all, never reaches the
    translation (tidy_proj, which among other things renames `k=` to `k_0=` - the Love number `k` of permtide would
    be lost). Decided by reachability under the partial assignment "contains('|') is true", resp. "contains(\\"proj\\")
    is false", through plain, bitwise and short-circuit forms of the guard."""
    import guards
    f = cx.f.fn(PARSE)
    A = B = None
    for bb, t in f.calls():
        c = f.callee(t) or ""
        if not c.endswith("str>::contains"):
            continue
        a = f.arg_terms(bb)
        if len(a) < 2:
            continue
        p = mir.strip_refs(a[1])
        term = mir.strip_refs(f.call_term(t, bb))
        recv = mir.strip_refs(a[0])
        if p[0] == "const" and p[2] == ("char", "|") and recv in (("arg", 1), ("proj", ("arg", 1), "deref")) and A is None:
            A = term
        if p[0] == "const" and p[2] == ("str", "proj") and recv in (("arg", 1), ("proj", ("arg", 1), "deref")) and B is None:
            B = term
    tidy = [b for b, t in f.calls() if (f.callee(t) or "") == "token::tidy_proj"]
    n = 0
    for label, atom, val, what in (("pipe", A, True, "contains the step separator `|`"),
                                   ("no-proj", B, False, "does not contain `proj`")):
        n += 1
        if atom is None or not tidy:
            cx.ob("R-PROJ-PASSTHROUGH", label, False,
                  "anchor-missing: parse_proj does not test whether the definition %s (or never calls tidy_proj)" % what,
                  cx.where(f.d["span"]))
            continue
        reach = guards.reach_under(f, {atom: val})
        ok = not any(b in reach for b in tidy)
        cx.ob("R-PROJ-PASSTHROUGH", label, ok,
              "a definition that %s never reaches the PROJ translation" % what if ok else
              "parse_proj: a definition that %s can still reach the PROJ translation (the pass-through guard needs more "
              "than that): plain Rust Geodesy text is rewritten, e.g. `permtide ... k=0.25` loses its `k`" % what,
              cx.where(f.d["span"]))
    cx.count("R-PROJ-PASSTHROUGH", "guards", n)


@rule("R-PROJ-GLOBALS-KEPT", ["C17"])
def r_proj_globals_kept(cx):
    """Everything written on the `proj=pipeline` element except `inv` is a pipeline global and reaches every step -
    flags (`+south`, `+exact`) as well as key=value pairs. The filter that builds the list of globals excludes exactly
    the element `inv`: its predicate is an (in)equality test against the literal "inv", not a test of the element's form
    (such as `contains('=')`, which drops every flag)."""
    import elems as E
    f = cx.f.fn(PARSE)
    n = 0
    for bb, t in f.calls():
        c = f.callee(t) or ""
        if c.rsplit("::", 1)[-1] not in ("filter", "retain", "filter_map", "take_while", "skip_while"):
            continue
        # only filters whose result feeds the globals (not the step splitting): the predicate mentions "inv", or the
        # filtered text is the joined pipeline element list
        recv = f.arg_terms(bb)[0]
        for a in f.arg_terms(bb)[1:]:
            if not (a[0] == "agg" and isinstance(a[1], tuple) and a[1][0] == "closure" and cx.f.has_fn(a[1][1])):
                continue
            g = cx.f.fn(a[1][1])
            rt = E.return_term(g)
            rt = mir.strip_refs(rt) if rt is not None else ("unknown",)
            from_join = []
            mir.walk(recv, lambda y: (from_join.append(1) if y[0] == "call" and isinstance(y[1], str) and
                                      y[1].rsplit("::", 1)[-1] == "join" else None) or True)
            mentions_inv = []
            mir.walk(rt, lambda y: (mentions_inv.append(1) if y[0] == "const" and y[2] == ("str", "inv") else None) or True)
            if not from_join and not mentions_inv:
                continue
            n += 1
            neg = False
            core = rt
            while core[0] == "un" and core[1] == "Not":
                core, neg = mir.strip_refs(core[2]), not neg
            is_eq = (core[0] == "call" and isinstance(core[1], str) and core[1].rsplit("::", 1)[-1] in ("ne", "eq")) or \
                (core[0] == "bin" and core[1] in ("Ne", "Eq"))
            ok = is_eq and bool(mentions_inv)
            cx.ob("R-PROJ-GLOBALS-KEPT", "filter%d" % (n - 1), ok,
                  "the element filter excludes exactly `inv`" if ok else
                  "parse_proj filters the elements of a step / of the pipeline globals by %s instead of excluding exactly "
                  "`inv`: flag-valued globals such as `+south` or `+exact` never reach the steps" % mir.show(rt, maxd=3)[:50],
                  cx.where(t["span"]))
    cx.count("R-PROJ-GLOBALS-KEPT", "filters", n)


@rule("R-PROJ-LINE-SEPARATED", ["C17"])
def r_proj_line_separated(cx):
    """A multi-line PROJ definition is one definition: parse_proj joins its lines, and a line break separates two tokens
    as a blank does. Where the loop over the lines appends the text of a line to an accumulator string, the same pass also
    appends white space to it - otherwise the last parameter of a line and the first of the next are glued into one word
    (`+zone=32\\n+ellps=GRS80` -> `zone=32ellps=GRS80`). (A `join(" ")` over collected lines has no such loop.)"""
    n = 0
    for name in sorted(cx.f.lib["fns"]):
        if not name.startswith(PARSE) or "{closure" in name:
            continue
        f = cx.f.fn(name)
        for lp in f.loops():
            if "str::Lines" not in f.term(lp.header).get("callee_full", ""):
                continue
            content, blank = [], []
            for bb in sorted(lp.body):
                t = f.term(bb)
                if t["k"] != "call":
                    continue
                tail = (f.callee(t) or "").rsplit("::", 1)[-1]
                if tail not in ("add_assign", "push_str", "push") or "String" not in (f.callee(t) or ""):
                    continue
                a = f.arg_terms(bb)
                if len(a) < 2:
                    continue
                v = mir.strip_refs(a[1])
                if v[0] == "const" and isinstance(v[2], tuple) and v[2][0] in ("str", "char"):
                    if str(v[2][1]) and str(v[2][1]).isspace():
                        blank.append(bb)
                else:
                    content.append(bb)
            if not content:
                continue
            n += 1
            ok = bool(blank)
            cx.ob("R-PROJ-LINE-SEPARATED", "%s/lines%d" % (name, n - 1), ok,
                  "the lines of a PROJ definition are joined with white space between them" if ok else
                  "parse_proj joins the lines of a definition without a separator: the last word of a line and the first of "
                  "the next become one token", cx.where(f.term(content[0])["span"]))
    if n == 0:
        cx.ob("R-PROJ-LINE-SEPARATED", "no-append-loop", True, "parse_proj does not join lines by appending in a loop", nontrivial=False)
    cx.count("R-PROJ-LINE-SEPARATED", "functions", 1 if cx.f.has_fn(PARSE) else 0)
