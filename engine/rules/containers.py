"""Coordinate containers and angular encodings (C19, C02): T-CONTAINER-DEFAULTS, R-DIM-GUARD, R-SIGNUM-ZERO."""
import elems as E
import mir
from rulebase import rule
from rules.loops import is_const_num, is_nan_const

CSET = "coordinate::set::CoordinateSet"
CTUP = "coordinate::tuple::CoordinateTuple"


def _kind_of_impl(self_ty):
    if self_ty.startswith("(T, f64, f64)"):
        return "adapter_he"
    if self_ty.startswith("(T, f64)"):
        return "adapter_e"
    if "Coor2D" in self_ty:
        return "2d"
    if "Coor32" in self_ty:
        return "2d"
    if "Coor3D" in self_ty:
        return "3d"
    if "Coor4D" in self_ty:
        return "4d"
    return None


def _uncast(t):
    while t[0] == "cast":
        t = t[2]
    return t


def _is_stored_elem(t, k):
    """t = element k of the tuple stored at position `index` (arg2) of the container `self` (arg1)"""
    t = E.canon(_uncast(mir.strip_refs(t)))
    if not (t[0] == "proj" and t[2] == ("elem", k)):
        return False
    inner = t[1]
    has_idx = []
    has_self = []

    def visit(x):
        if x == ("arg", 2):
            has_idx.append(1)
        if x == ("arg", 1):
            has_self.append(1)
        return True

    mir.walk(inner, visit)
    return bool(has_idx) and bool(has_self)


def _is_inner_elem(t, k):
    """t = element k of self.0.get_coord(index)"""
    t = E.canon(_uncast(mir.strip_refs(t)))
    if not (t[0] == "proj" and t[2] == ("elem", k)):
        return False
    c = mir.strip_refs(t[1])
    return c[0] == "call" and isinstance(c[1], str) and c[1].endswith("CoordinateSet::get_coord") and \
        len(c[2]) == 2 and c[2][1] == ("arg", 2)


def _is_self_field(t, k):
    t = _uncast(mir.strip_refs(t))
    return t == ("proj", ("proj", ("arg", 1), "deref"), ("f", k))


def _is_zero(t):
    return is_const_num(t, 0)


@rule("T-CONTAINER-DEFAULTS", ["C19", "C02"])
def t_container_defaults(cx):
    want = {
        "2d": [("S", 0), ("S", 1), ("Z",), ("N",)],
        "3d": [("S", 0), ("S", 1), ("S", 2), ("N",)],
        "4d": [("S", 0), ("S", 1), ("S", 2), ("S", 3)],
        "adapter_he": [("C", 0), ("C", 1), ("F", 1), ("F", 2)],
        "adapter_e": [("C", 0), ("C", 1), ("C", 2), ("F", 1)],
    }
    desc = {"S": "stored element %d", "Z": "0 (missing height)", "N": "NaN (missing epoch)", "C": "element %d of the inner set",
            "F": "the adapter's fixed field .%d"}
    n = 0
    for name in cx.f.fn_names():
        d = cx.f.lib["fns"][name]
        if d.get("impl_trait") != CSET:
            continue
        kind = _kind_of_impl(d.get("impl_self", ""))
        if kind is None:
            continue
        meth = name.split("::")[-1]
        f = cx.f.fn(name)
        where = cx.where(d["span"])
        if meth == "get_coord":
            n += 1
            r = E.return_term(f)
            es = E.elems(f, r, f.end_point(0)) if r is not None else [("unknown",)] * 4
            for k, w in enumerate(want[kind]):
                e = es[k]
                if w[0] == "S":
                    ok = _is_stored_elem(e, w[1])
                elif w[0] == "Z":
                    ok = _is_zero(e)
                elif w[0] == "N":
                    ok = is_nan_const(e)
                elif w[0] == "C":
                    ok = _is_inner_elem(e, w[1])
                else:
                    ok = _is_self_field(e, w[1])
                what = desc[w[0]] % w[1] if "%d" in desc[w[0]] else desc[w[0]]
                cx.ob("T-CONTAINER-DEFAULTS", "%s/get_coord/elem%d" % (d.get("impl_self"), k), ok,
                      "get_coord of %s: element %d is %s" % (d.get("impl_self"), k, what) if ok else
                      "get_coord of %s: element %d must be %s, found %s" % (
                          d.get("impl_self"), k, what, mir.show(e, maxd=3)[:80]), where)
        elif meth == "set_coord":
            n += 1
            if kind.startswith("adapter"):
                # delegates to the inner set with the same index and value
                ok = False
                for bb, t in f.calls():
                    if (t.get("callee") or "").endswith("CoordinateSet::set_coord"):
                        a = f.arg_terms(bb)
                        ok = a[1] == ("arg", 2) and mir.strip_refs(a[2]) in (("arg", 3), ("proj", ("arg", 3), "deref"))
                cx.ob("T-CONTAINER-DEFAULTS", "%s/set_coord" % d.get("impl_self"), ok,
                      "set_coord of %s forwards index and value to the inner set" % d.get("impl_self") if ok else
                      "set_coord of %s does not forward (index, value) unchanged to the inner set" % d.get("impl_self"), where)
                continue
            dim = {"2d": 2, "3d": 3, "4d": 4}[kind]
            # the value stored at self[index]
            stored = None
            for bb, i, st in f.all_stmts():
                if st["k"] == "assign" and st["place"]["p"] and st["place"]["p"][0] == "deref":
                    stored = f.rvalue(st["rv"], (bb, i))
            ok = False
            if stored is not None:
                es = E.elems(f, stored, f.end_point(0), n=dim)
                ok = True
                for k in range(dim):
                    e = E.canon(_uncast(mir.strip_refs(es[k])))
                    if not (e[0] == "proj" and e[2] == ("elem", k) and mir.strip_refs(e[1]) in (
                            ("arg", 3), ("proj", ("arg", 3), "deref"))):
                        ok = False
            cx.ob("T-CONTAINER-DEFAULTS", "%s/set_coord" % d.get("impl_self"), ok,
                  "set_coord of %s stores elements 0..%d of the value in order" % (d.get("impl_self"), dim - 1) if ok else
                  "set_coord of %s does not store exactly elements 0..%d of the value in order" % (d.get("impl_self"), dim - 1),
                  where)
    cx.count("T-CONTAINER-DEFAULTS", "impl_methods", n)


@rule("R-DIM-GUARD", ["C19"])
def r_dim_guard(cx):
    """in the default methods of CoordinateTuple every *_nth_unchecked(k) with k != 0 is dominated by `k < dim()`"""
    n = 0
    for name in cx.f.fn_names():
        d = cx.f.lib["fns"][name]
        if d.get("trait_default") != CTUP:
            continue
        f = cx.f.fn(name)
        j = 0
        for bb, t in f.calls():
            c = t.get("callee") or ""
            if not (c.endswith("::nth_unchecked") or c.endswith("::set_nth_unchecked")):
                continue
            idx = f.arg_terms(bb)[1]
            if is_const_num(idx, 0):
                continue
            n += 1
            ok = _index_below_dim(f, bb, idx) or _ranges_below_dim(f, idx)
            cx.ob("R-DIM-GUARD", "%s/access%d" % (name, j), ok,
                  "%s: element access is guarded by a comparison of the index with dim()" % name if ok else
                  "%s: element %s is accessed without a dominating `index < dim()` test: tuples of lower dimension "
                  "panic instead of yielding NaN" % (name, mir.show(idx, maxd=2)), cx.where(t["span"]))
            j += 1
        # the checked writer fills the whole tuple with NaN when its index is out of range: a default method that
        # iterates by itself never provokes that - its own index stays below dim()
        for bb, t in f.calls():
            c = t.get("callee") or ""
            if not c.endswith("::set_nth"):
                continue
            idx = f.arg_terms(bb)[1]
            if idx[0] == "const" or idx == ("arg", 2) or mir.strip_refs(idx)[0] == "arg":
                continue        # the caller's own index: out-of-range handling is the documented behaviour
            n += 1
            ok = _index_below_dim(f, bb, idx) or _ranges_below_dim(f, idx)
            cx.ob("R-DIM-GUARD", "%s/write%d" % (name, j), ok,
                  "%s: the index it iterates with stays below dim()" % name if ok else
                  "%s writes element by element through set_nth with an index that is not bounded by dim(): a slice longer "
                  "than the tuple makes set_nth fill the whole tuple with NaN instead of leaving the leading elements set"
                  % name, cx.where(t["span"]))
            j += 1
    cx.count("R-DIM-GUARD", "accesses", n)


def _ranges_below_dim(f, idx):
    """idx is the induction value of `for i in 0..self.dim()`"""
    from rules.decoder import loop_bounds
    lb = loop_bounds(f, idx)
    if lb is None:
        # `for (i, v) in xs.iter().enumerate().take(n)` / `.take(n).enumerate()`: i < n
        n = _take_bound(f, idx)
        if n is None:
            return False
        up = mir.strip_refs(n)
        if _is_dim_call(up):
            return True
        return up[0] == "call" and isinstance(up[1], str) and up[1].endswith("::min") and any(_is_dim_call(a) for a in up[2])
    lo, hi = lb
    if not (len(hi[0]) == 1 and hi[1] == 0 and list(hi[0].values())[0] == 1):
        return False
    up = mir.strip_refs(list(hi[0].keys())[0])
    if _is_dim_call(up):
        return True
    # min(x, dim()) is also bounded by dim()
    return up[0] == "call" and isinstance(up[1], str) and up[1].endswith("::min") and any(_is_dim_call(a) for a in up[2])


def _take_bound(f, idx):
    """if idx is the counter of an Enumerate over an iterator limited by take(n): n"""
    import pertuple
    t = idx
    while t[0] == "proj":
        t = t[1]
    if t[0] != "call" or not isinstance(t[1], str) or not t[1].endswith("::next"):
        return None
    it = mir.strip_refs(t[2][0])
    if it[0] != "loopphi":
        return None
    lps = [l for l in f.loops() if l.header == it[1][0]]
    if not lps:
        return None
    x = pertuple.iterator_entry_value(f, lps[0])
    enum = False
    bound = None
    for _ in range(6):
        if x is None or x[0] != "call" or not isinstance(x[1], str) or not x[2]:
            break
        tail = x[1].rsplit("::", 1)[-1]
        if tail == "enumerate":
            enum = True
        elif tail == "take" and len(x[2]) > 1:
            bound = x[2][1]
        elif tail not in ("into_iter", "iter", "iter_mut", "by_ref"):
            break
        x = mir.strip_refs(x[2][0])
    return bound if enum and bound is not None else None


def _is_dim_call(t):
    t = mir.strip_refs(t)
    return t[0] == "call" and isinstance(t[1], str) and t[1].endswith("::dim")


def _index_below_dim(f, bb, idx):
    k = idx[2] if (idx[0] == "const" and isinstance(idx[2], int)) else None
    for b2 in sorted(f.reachable()):
        sw = f.term(b2)
        if sw["k"] != "switch":
            continue
        c = f.operand(sw["discr"], f.end_point(b2))
        if c[0] != "bin" or c[1] not in ("Lt", "Le", "Gt", "Ge"):
            continue
        true_succ = sw["otherwise"]
        false_succ = sw["targets"][0][1] if sw["targets"] else None
        a, b, op = c[2], c[3], c[1]
        if _is_dim_call(a) and not _is_dim_call(b):
            a, b = b, a
            op = {"Lt": "Gt", "Gt": "Lt", "Le": "Ge", "Ge": "Le"}[op]
        if not _is_dim_call(b):
            continue
        # now: a op dim
        good = None
        if a == idx:
            if op == "Lt":
                good = true_succ
            elif op == "Ge":
                good = false_succ
        elif k is not None and a[0] == "const" and isinstance(a[2], int):
            cst = a[2]
            # cst < dim  implies k < dim when k <= cst ;  cst <= dim implies k < dim when k < cst
            if op == "Lt" and k <= cst:
                good = true_succ
            elif op == "Le" and k < cst:
                good = true_succ
            elif op == "Ge" and k <= cst:
                good = false_succ
            elif op == "Gt" and k < cst:
                good = false_succ
        if good is not None and f.dominates(good, bb):
            return True
    return False


@rule("R-SIGNUM-ZERO", ["C19"])
def r_signum_zero(cx):
    """an *integer* signum (range -1, 0, 1) must not be the multiplicative sign of a sum that has other addends:
    the whole sum collapses to 0 when the integer part is 0"""
    n = 0
    for name in cx.f.fn_names():
        if not name.startswith(("math::angular::", "coordinate::", "inner_op::iso6709")):
            continue
        f = cx.f.fn(name)
        r = E.return_term(f)
        if r is None:
            continue
        hits = []

        def visit(x):
            if x[0] == "bin" and x[1] == "Mul":
                for a, b in ((x[2], x[3]), (x[3], x[2])):
                    s = _uncast(a)
                    if s[0] == "call" and isinstance(s[1], str) and s[1].endswith("::signum") and \
                            ("<impl i" in s[1] or "impl i32" in s[1] or "impl i64" in s[1] or "impl isize" in s[1]):
                        other = b
                        if other[0] == "bin" and other[1] in ("Add", "Sub"):
                            hits.append(x)
            return True

        mir.walk(r, visit)
        for j, h in enumerate(hits):
            n += 1
            cx.ob("R-SIGNUM-ZERO", "%s/product%d" % (name, j), False,
                  "%s multiplies a sum by an integer signum(): when the integer (degree) part is 0 the signum is 0 and "
                  "the minutes/seconds are lost (e.g. 0 deg 30' becomes 0)" % name, cx.where(f.d["span"]))
        if not hits and name.startswith("math::angular::") and "_to_dd" in name:
            n += 1
            cx.ob("R-SIGNUM-ZERO", "%s/ok" % name, True,
                  "%s does not take the sign of a sum from an integer signum()" % name, cx.where(f.d["span"]))
    cx.count("R-SIGNUM-ZERO", "functions", n)


# ---------------------------------------------------------------------------------------------------------------------
# R-DEFAULT-RMW (C19): the default bulk setters are read-modify-write

@rule("R-DEFAULT-RMW", ["C19", "C02"])
def r_default_rmw(cx):
    """The default CoordinateSet::set_xy / set_xyz / set_xyzt (used by every container that does not override them:
    the height/epoch adapters, user defined sets) write the given values to the leading elements and hand every other
    element of the tuple back exactly as read from the same index."""
    import elems as E
    base = "coordinate::set::CoordinateSet::"
    n = 0
    for meth, dim in (("set_xy", 2), ("set_xyz", 3), ("set_xyzt", 4)):
        name = base + meth
        if not cx.f.has_fn(name):
            cx.ob("R-DEFAULT-RMW", meth, False, "anchor-missing: default method %s" % name)
            continue
        f = cx.f.fn(name)
        writes = [(bb, t) for bb, t in f.calls() if (t.get("callee") or f.callee(t) or "").endswith("CoordinateSet::set_coord")]
        if len(writes) != 1:
            cx.ob("R-DEFAULT-RMW", meth, False, "%s does not end in exactly one set_coord call (%d found)" % (name, len(writes)),
                  cx.where(f.d["span"]))
            continue
        bb, t = writes[0]
        args = f.arg_terms(bb)
        n += 1
        bad = None
        if mir.strip_refs(args[1]) != ("arg", 2):
            bad = "the tuple is written to another index than the one asked for"
        v = f._deref(args[2], f.end_point(bb))
        es = E.elems(f, v, f.end_point(bb))
        for k in range(4):
            e = mir.strip_refs(es[k])
            if k < dim:
                if e != ("arg", 3 + k):
                    bad = bad or "element %d written is not the %s argument" % (k, "xyzt"[k])
            else:
                ok = e[0] == "proj" and e[2] == ("elem", k) and e[1][0] == "call" and isinstance(e[1][1], str) and \
                    e[1][1].endswith("get_coord") and len(e[1][2]) > 1 and mir.strip_refs(e[1][2][1]) == ("arg", 2)
                if not ok:
                    bad = bad or "element %d of the tuple written is not the one read from the same index (it is %s)" % (
                        k, mir.show(e)[:60])
        cx.ob("R-DEFAULT-RMW", meth, bad is None,
              "default %s: given values to elements 0..%d, the rest as read from the same index" % (meth, dim - 1)
              if bad is None else "default CoordinateSet::%s: %s - containers relying on the default lose the stored "
              "dimensions the operator does not work on" % (meth, bad), cx.where(t["span"]))
    cx.count("R-DEFAULT-RMW", "methods", n)


# ---------------------------------------------------------------------------------------------------------------------
# R-ALL-DIMS (C19): the element-wise default operations cover every dimension of the tuple

@rule("R-ALL-DIMS", ["C19"])
def r_all_dims(cx):
    """The default `scale` and `dot` of CoordinateTuple are element-wise over *all* dimensions: their loops range over
    0..self.dim() (not over a shorter prefix such as min(dim, 3))."""
    import pertuple
    n = 0
    for meth in ("scale", "dot"):
        name = CTUP + "::" + meth
        if not cx.f.has_fn(name):
            cx.ob("R-ALL-DIMS", meth, False, "anchor-missing: default method %s" % name)
            continue
        f = cx.f.fn(name)
        loops = [lp for lp in f.loops() if lp.parent is None]
        for k, lp in enumerate(loops):
            n += 1
            x = pertuple.iterator_entry_value(f, lp)
            ok = False
            if x is not None and x[0] == "call" and isinstance(x[1], str) and x[1].endswith("into_iter"):
                r = mir.strip_refs(x[2][0])
                if r[0] == "agg" and "Range" in str(r[1]) and "Inclusive" not in str(r[1]) and len(r[2]) == 2:
                    lo, hi = r[2]
                    ok = lo[0] == "const" and lo[2] == 0 and _is_dim_call(hi)
            cx.ob("R-ALL-DIMS", "%s/loop%d" % (meth, k), ok,
                  "default %s ranges over 0..self.dim()" % meth if ok else
                  "the default CoordinateTuple::%s does not range over all of 0..self.dim(): some dimension does not "
                  "take part in the element-wise operation" % meth, cx.where(f.term(lp.header)["span"]))
        if not loops:
            # the same written as an iterator chain: `(0..self.dim()).for_each(..)` / `.map(..).fold(..)`
            for bb, t in f.calls():
                tail = (f.callee(t) or "").rsplit("::", 1)[-1]
                if tail not in ("for_each", "map", "fold", "sum", "try_for_each"):
                    continue
                recv = mir.strip_refs(f.arg_terms(bb)[0])
                rng = []
                mir.walk(recv, lambda y: (rng.append(y) if y[0] == "agg" and "Range" in str(y[1]) and len(y[2]) == 2 else None) or True)
                if not rng:
                    continue
                if tail in ("fold", "sum") and any(x[0] == "call" and str(x[1]).rsplit("::", 1)[-1] == "map" for x in [recv]):
                    continue        # the map underneath is judged
                n += 1
                r = rng[0]
                lo, hi = r[2]
                ok = "Inclusive" not in str(r[1]) and lo[0] == "const" and lo[2] == 0 and _is_dim_call(hi) and \
                    not [1 for y in [recv] if _narrowed(y)]
                cx.ob("R-ALL-DIMS", "%s/chain%d" % (meth, n), ok,
                      "default %s ranges over 0..self.dim()" % meth if ok else
                      "the default CoordinateTuple::%s does not range over all of 0..self.dim(): some dimension does not "
                      "take part in the element-wise operation" % meth, cx.where(t["span"]))
    cx.count("R-ALL-DIMS", "loops", n)


def _narrowed(t):
    hit = []
    mir.walk(t, lambda y: (hit.append(1) if y[0] == "call" and isinstance(y[1], str) and
                           y[1].rsplit("::", 1)[-1] in ("take", "skip", "step_by", "take_while", "skip_while", "filter") else None) or True)
    return bool(hit)


# ---------------------------------------------------------------------------------------------------------------------
# R-ADAPTER-FIXED (C19, C02): the fixed height / epoch of a 2D+ adapter is not state that writes can change

@rule("R-ADAPTER-FIXED", ["C19", "C02"])
def r_adapter_fixed(cx):
    """`(T, f64)` and `(T, f64, f64)` present a lower-dimensional container as 3D / 4D by supplying one fixed height
    (and epoch) for *all* its tuples. That value belongs to the container as a whole: no method of these impls that
    takes `&mut self` assigns to `self.1` / `self.2` (only the inner container `self.0` is written) - otherwise writing
    tuple i changes what is read back for every other tuple."""
    n = 0
    for name in sorted(cx.f.lib["fns"]):
        if not (name.startswith("<(T, f64) as coordinate::set::CoordinateSet>::") or
                name.startswith("<(T, f64, f64) as coordinate::set::CoordinateSet>::")):
            continue
        f = cx.f.fn(name)
        if "&mut" not in str(f.local_ty(1)):
            continue
        n += 1
        bad = []
        for bb, i, s in f.all_stmts():
            if s["k"] != "assign":
                continue
            pl = s["place"]
            if pl["l"] == 1 and pl["p"]:
                bad.append((bb, i, pl["p"]))
        # writes through a reborrow of a fixed field: `let h = &mut self.1; *h = ..`
        for bb, i, s in f.all_stmts():
            if s["k"] == "assign" and s["rv"]["k"] == "ref" and s["rv"].get("mut") and s["rv"]["place"]["l"] == 1:
                pj = s["rv"]["place"]["p"]
                if _field_index(pj) not in (None, 0):
                    bad.append((bb, i, pj))
        bad = [b for b in bad if _field_index(b[2]) not in (None, 0)]
        ok = not bad
        cx.ob("R-ADAPTER-FIXED", name, ok,
              "%s writes the inner container only" % name if ok else
              "%s assigns to the adapter's own fixed value (field %s of self): after set_coord(i, ..) every other tuple of "
              "the set reads back the height / epoch written last" % (name, _field_index(bad[0][2])), cx.where(f.d["span"]))
    cx.count("R-ADAPTER-FIXED", "mutating_adapter_methods", n)


def _field_index(projs):
    """index of the first struct/tuple field projection after the deref of self"""
    for p in projs:
        if isinstance(p, dict) and "f" in p:
            return p["f"]
    return None


@rule("R-STOMP-ALL", ["C12", "C10"])
def r_stomp_all(cx):
    """`CoordinateSet::stomp` is what a stack underflow (and other whole-set failures) uses to invalidate the operands:
    it overwrites every element of every tuple - a full `set_coord(i, &Coor4D::nan())` for all i in 0..len() - not only
    the first two or three elements (a finite time coordinate would survive)."""
    name = "coordinate::set::CoordinateSet::stomp"
    if not cx.f.has_fn(name):
        cx.ob("R-STOMP-ALL", "stomp", False, "anchor-missing: %s" % name)
        return
    f = cx.f.fn(name)
    writes = []
    for bb, t in f.calls():
        c = f.callee(t) or ""
        tail = c.rsplit("::", 1)[-1]
        if tail.startswith("set_") and "CoordinateSet" in c:
            writes.append((bb, tail, f.arg_terms(bb)))
    full = [w for w in writes if w[1] == "set_coord"]
    partial = [w for w in writes if w[1] != "set_coord"]
    nan_ok = bool(full)
    for bb, tail, a in full:
        hit = []
        val = a[2] if len(a) > 2 else ("unknown",)
        if val[0] == "refplace" and not val[3]:
            val = f.local_value(val[2], f.end_point(bb))
        mir.walk(val, lambda y: (hit.append(1) if y[0] == "call" and isinstance(y[1], str) and
                                                                y[1].rsplit("::", 1)[-1] == "nan" else None) or True)
        nan_ok = nan_ok and bool(hit) and f.innermost_loop(bb) is not None
    ok = nan_ok and not partial
    cx.ob("R-STOMP-ALL", "stomp", ok,
          "stomp overwrites every tuple with Coor4D::nan() through set_coord" if ok else
          "CoordinateSet::stomp does not overwrite whole tuples with NaN (%s): after a stack underflow some elements of "
          "the operands stay finite" % (", ".join(w[1] for w in partial) or "no set_coord(i, nan) in a loop"), cx.where(f.d["span"]))
    cx.count("R-STOMP-ALL", "stomp_writes", len(writes))


@rule("R-SUBSET-DIM", ["C19"])
def r_subset_dim(cx):
    """A container of d-dimensional tuples specialises the CoordinateSet accessors only up to its own dimension: `xy` /
    `set_xy` always, `xyz` / `set_xyz` only for d >= 3, `xyzt` / `set_xyzt` only for d >= 4. For the missing dimensions
    the trait defaults go through get_coord / set_coord, which supply the documented fill values (height 0, time NaN);
    a 2D container that forwards `xyz` to the tuple reports a NaN height and wipes the tuple on `set_xyz`."""
    need = {"xy": 2, "set_xy": 2, "xyz": 3, "set_xyz": 3, "xyzt": 4, "set_xyzt": 4}
    impls = {}
    for name in cx.f.fn_names():
        if " as coordinate::set::CoordinateSet>::" not in name:
            continue
        ty, meth = name.split(" as coordinate::set::CoordinateSet>::")
        impls.setdefault(ty, {})[meth] = name
    n = 0
    for ty, ms in sorted(impls.items()):
        if "dim" not in ms:
            continue
        import elems as E
        g = cx.f.fn(ms["dim"])
        rt = E.return_term(g)
        d = mir.strip_refs(rt)[2] if rt is not None and mir.strip_refs(rt)[0] == "const" and isinstance(mir.strip_refs(rt)[2], int) else None
        if d is None:
            continue
        # adapters that raise the dimension (T, f64) are judged by their own dim() as well
        for meth, k in sorted(need.items()):
            if meth not in ms:
                continue
            n += 1
            ok = d >= k
            cx.ob("R-SUBSET-DIM", "%s/%s" % (ty.strip("<"), meth), ok,
                  "%s (dim %d) specialises %s" % (ty.strip("<"), d, meth) if ok else
                  "%s has dimension %d but specialises %s (which needs %d): the accessor by-passes get_coord / set_coord and "
                  "their fill values - xyz() reports a NaN height, set_xyz() fills the whole tuple with NaN" % (
                      ty.strip("<"), d, meth, k), cx.where(cx.f.fn(ms[meth]).d["span"]))
    cx.count("R-SUBSET-DIM", "specialised_accessors", n)


# ---------------------------------------------------------------------------------------------------------------------
# R-OPS-ELEMENTWISE, R-CTOR-SIBLINGS (C19): the macro-generated operators and the typed constructors of the four tuples

_OPS = {"add": "Add", "sub": "Sub", "mul": "Mul", "div": "Div"}
_DIMS = {"Coor2D": 2, "Coor32": 2, "Coor3D": 3, "Coor4D": 4}


def _plain(t):
    t = mir.strip_refs(t)
    while t[0] == "cast" or (t[0] == "proj" and t[2] == "deref"):
        t = mir.strip_refs(t[2] if t[0] == "cast" else t[1])
    return t


def _elem_of(t):
    """(argument number, element index) when the term reads element k of the array inside argument a"""
    t = _plain(t)
    if t[0] == "proj" and isinstance(t[2], tuple) and t[2][0] == "elem" and len(t[2]) == 2 and isinstance(t[2][1], int):
        b = _plain(t[1])
        if b[0] == "proj" and b[2] == ("f", 0):
            a = _plain(b[1])
            if a[0] == "arg":
                return a[1], t[2][1]
    return None


@rule("R-OPS-ELEMENTWISE", ["C19"])
def r_ops_elementwise(cx):
    """`a + b`, `a - b`, `a * b`, `a / b` on the tuple types are element-wise: element k of the result is
    `a[k] op b[k]`, for every k below the dimension of the result type, with the operator the trait names."""
    n = seen = 0
    for name in sorted(cx.f.lib["fns"]):
        tail = name.rsplit("::", 1)[-1]
        if not (name.startswith("coordinate::") and "impl std::ops::" in name and tail in _OPS and "{closure" not in name):
            continue
        ty = name.split(" for coordinate::", 1)[1].split(">::", 1)[0].rsplit("::", 1)[-1] if " for coordinate::" in name else None
        if ty not in _DIMS:
            continue
        seen += 1
        f = cx.f.fn(name)
        rt = E.return_term(f)
        rt = mir.strip_refs(rt) if rt is not None else None
        if not (rt is not None and rt[0] == "agg" and isinstance(rt[1], tuple) and rt[1][0] == "adt" and len(rt[2]) == 1):
            continue
        arr = mir.strip_refs(rt[2][0])
        if not (arr[0] == "agg" and arr[1] == "array"):
            continue
        n += 1
        bad = None
        if len(arr[2]) != _DIMS[ty]:
            bad = "the result has %d elements" % len(arr[2])
        for k, e in enumerate(arr[2]):
            e = _plain(e)
            if not (e[0] == "bin" and e[1] == _OPS[tail]):
                bad = bad or "element %d is not `a[%d] %s b[%d]`" % (k, k, _OPS[tail], k)
                continue
            l, r = _elem_of(e[2]), _elem_of(e[3])
            if l != (1, k) or r != (2, k):
                bad = bad or "element %d is computed from %s and %s" % (
                    k, "a[%d]" % l[1] if l and l[0] == 1 else mir.show(e[2], maxd=4), "b[%d]" % r[1] if r and r[0] == 2 else mir.show(e[3], maxd=4))
        short = name.split("impl std::ops::", 1)[1].replace("coordinate::", "")
        cx.ob("R-OPS-ELEMENTWISE", short, bad is None,
              "%s is element-wise" % short if bad is None else
              "%s: %s - the operator does not agree with its element-wise definition" % (short, bad), cx.where(f.d["span"]))
    cx.count("R-OPS-ELEMENTWISE", "operators", n)


def _canon(t, depth=0):
    t = _plain(t)
    if depth > 12:
        return ("deep",)
    if t[0] == "call" and isinstance(t[1], str):
        return ("call", t[1].rsplit("::", 1)[-1], tuple(_canon(a, depth + 1) for a in t[2]))
    if t[0] == "agg":
        return ("agg",) + tuple(_canon(a, depth + 1) for a in t[2])
    if t[0] == "bin":
        return ("bin", t[1], _canon(t[2], depth + 1), _canon(t[3], depth + 1))
    if t[0] == "un":
        return ("un", t[1], _canon(t[2], depth + 1))
    if t[0] == "const":
        v = t[2]
        if isinstance(v, tuple) and v and v[0] == "float":
            return ("num", repr(float(v[1])))
        return ("const", str(v))
    if t[0] == "arg":
        return t
    return ("other", mir.show(t, maxd=3))


@rule("R-CTOR-SIBLINGS", ["C19"])
def r_ctor_siblings(cx):
    """The typed constructors `geo`, `gis`, `raw`, `arcsec`, `iso_dm`, `iso_dms`, `nan`, `origin`, `ones` exist for all four
    tuple types and mean the same: the values a constructor computes for the elements both types have agree between
    every two tuple types (compared as terms over the arguments, float width casts ignored). A constructor that decodes
    its latitude with another conversion than its siblings is the odd one out."""
    types = [("coor2d", "Coor2D"), ("coor32", "Coor32"), ("coor3d", "Coor3D"), ("coor4d", "Coor4D")]
    n = 0
    for ctor in ("geo", "gis", "raw", "arcsec", "iso_dm", "iso_dms", "nan", "origin", "ones"):
        forms = {}
        for mod, ty in types:
            name = "coordinate::%s::%s::%s" % (mod, ty, ctor)
            if not cx.f.has_fn(name):
                continue
            f = cx.f.fn(name)
            rt = E.return_term(f)
            if rt is None:
                continue
            c = _canon(rt)
            # the list of per-element values: arguments of a delegating call, or the elements of the array
            if c[0] == "call":
                forms[ty] = (("call", c[1]), list(c[2]), f)
            elif c[0] == "agg" and len(c) == 2 and c[1][0] == "agg":
                forms[ty] = (("array",), list(c[1][1:]), f)
        if len(forms) < 2:
            continue
        n += 1
        for ty, (kind, vals, f) in sorted(forms.items()):
            agree = disagree = 0
            for ty2, (kind2, vals2, _) in forms.items():
                if ty2 == ty or kind2 != kind:
                    continue
                m = min(len(vals), len(vals2), 2)
                if vals[:m] == vals2[:m]:
                    agree += 1
                else:
                    disagree += 1
            ok = not (disagree > agree)
            cx.ob("R-CTOR-SIBLINGS", "%s::%s" % (ty, ctor), ok,
                  "%s::%s computes its horizontal elements as its siblings do" % (ty, ctor) if ok else
                  "%s::%s computes its horizontal elements differently from the same constructor of the other tuple types "
                  "(%s): the typed constructors no longer agree with each other" % (
                      ty, ctor, ", ".join(str(v)[:80] for v in vals[:2])), cx.where(f.d["span"]))
    cx.count("R-CTOR-SIBLINGS", "constructors", n)


@rule("R-WIDEN-FIRST", ["C19"])
def r_widen_first(cx):
    """The 32-bit tuple is a storage format: whatever is computed from it as an f64 (the scalar product, a mixed
    `Coor2D op Coor32`) is computed in f64, each element widened *before* it enters the arithmetic - as the element-wise
    f64 definitions and the trait defaults do. In coordinate::, a function that returns f64 (or an f64 tuple) performs no
    arithmetic in f32: `(a[0] * b[0] + a[1] * b[1]) as f64` rounds, cancels and overflows where the definition does not."""
    n = 0
    for name in sorted(cx.f.lib["fns"]):
        if "::tests::" in name or not name.startswith("coordinate::") or "{closure" in name:
            continue
        f = cx.f.fn(name)
        sig = str(f.d.get("sig", ""))
        ret = sig.rsplit("->", 1)[-1].strip() if "->" in sig else ""
        if not (ret == "f64" or ret.endswith(("Coor2D", "Coor3D", "Coor4D"))):
            continue
        narrow = [(bb, st) for bb, i, st in f.all_stmts() if st["k"] == "assign" and st["rv"]["k"] == "bin" and
                  str(f.local_ty(st["place"]["l"])) == "f32"]
        floats = [1 for bb, i, st in f.all_stmts() if st["k"] == "assign" and st["rv"]["k"] == "bin" and
                  str(f.local_ty(st["place"]["l"])) in ("f32", "f64")]
        if not floats:
            continue
        n += 1
        cx.ob("R-WIDEN-FIRST", name.replace("coordinate::", "", 1), not narrow,
              "%s computes in f64" % name if not narrow else
              "%s returns an f64 result but does (part of) its arithmetic in f32: the result is rounded to single precision, and "
              "large or small elements overflow / underflow where the f64 definition does not" % name,
              cx.where(narrow[0][1].get("span")) if narrow else cx.where(f.d["span"]))
    cx.count("R-WIDEN-FIRST", "functions", n)


_ISO_ALLOWED = {
    "dm_fwd": ("iso_dm",), "dms_fwd": ("iso_dms",),
    "dm_inv": ("to_degrees", "dd_to_iso_dm", "raw"), "dms_inv": ("to_degrees", "dd_to_iso_dms", "raw"),
}


@rule("R-ISO-OPERATORS-PLAIN", ["C19"])
def r_iso_operators_plain(cx):
    """The `dm` and `dms` operators are the ISO-6709 conversions of math::angular applied to the two horizontal elements
    of each tuple - nothing else: forward the typed constructor (iso_dm / iso_dms), inverse to_degrees and dd_to_iso_dm /
    dd_to_iso_dms. A further function in the per-tuple loop (a normalisation of the longitude, a rounding) makes the operator
    disagree with the conversion functions and with its sibling."""
    n = 0
    for tail, allowed in sorted(_ISO_ALLOWED.items()):
        name = "inner_op::iso6709::" + tail
        if not cx.f.has_fn(name):
            cx.ob("R-ISO-OPERATORS-PLAIN", "%s/anchor" % tail, False, "anchor-missing: %s" % name)
            continue
        f0 = cx.f.fn(name)
        n += 1
        extra = []
        seen = set()
        # the per-tuple work: the calls in the loop of the function - or, where the loop lives in a shared helper that
        # takes the conversion as a closure, the calls of that closure
        sites = [(f0, bb, t) for bb, t in f0.calls() if f0.innermost_loop(bb) is not None]
        if not sites:
            for cname in sorted(cx.f.lib["fns"]):
                if cname.startswith(name + "::{closure"):
                    g = cx.f.fn(cname)
                    sites += [(g, bb, t) for bb, t in g.calls()]
        f = f0
        for f, bb, t in sites:
            if (t["span"].get("exp") or "").startswith("macro"):
                continue
            c = f.callee(t) or ""
            ct = c.rsplit("::", 1)[-1]
            if c.startswith(("coordinate::set::CoordinateSet::", "<coordinate::")) or "::Index" in c or ct in ("index", "index_mut", "next", "len", "into_iter"):
                continue
            if "Iterator" in c or "Range" in c:
                continue
            seen.add(ct)
            if ct not in allowed:
                extra.append((ct, t))
        missing = [a for a in allowed if a not in seen and a != "raw"]
        ok = not extra and not missing
        cx.ob("R-ISO-OPERATORS-PLAIN", tail, ok,
              "%s applies %s to the horizontal elements and nothing else" % (tail, ", ".join(allowed)) if ok else
              ("%s also applies `%s` to the tuple: the operator no longer agrees with the conversion functions of math::angular "
               "(e.g. a longitude beyond 180 degrees is encoded as another angle)" % (tail, extra[0][0]) if extra else
               "%s does not apply %s" % (tail, ", ".join(missing))), cx.where(extra[0][1]["span"]) if extra else cx.where(f0.d["span"]))
    cx.count("R-ISO-OPERATORS-PLAIN", "functions", n)


@rule("R-SETTER-NO-INVENTED", ["C19"])
def r_setter_no_invented(cx):
    """`set_xy`, `set_xyz` on a container change the elements they name and leave the others as stored. The specialised
    implementations of coordinate::set (arrays, slices and vectors of the tuple types) do not build the tuple they store
    from constants: no NaN or 0 literal appears in a tuple handed to `set_coord` by one of them (`set_coord(i, [x, y, z, NaN])`
    wipes the epoch of a 4D tuple)."""
    n = 0
    for name in sorted(cx.f.lib["fns"]):
        if "::tests" in name or not name.startswith(("<", "coordinate::set::")) or "coordinate::set::CoordinateSet" not in name:
            continue
        tail = name.rsplit("::", 1)[-1]
        if tail not in ("set_xy", "set_xyz"):
            continue
        if name.startswith("coordinate::set::CoordinateSet::"):
            continue        # the trait defaults read-modify-write (R-DEFAULT-RMW)
        f = cx.f.fn(name)
        n += 1
        bad = []
        for bb, t in f.calls():
            if (t.get("callee") or "").endswith("CoordinateSet::set_coord") and len(f.arg_terms(bb)) > 2:
                v = f._deref(f.arg_terms(bb)[2], f.end_point(bb))
                mir.walk(v, lambda y: (bad.append(t) if y[0] == "const" and isinstance(y[2], tuple) and y[2][0] == "float" else None) or True)
        cx.ob("R-SETTER-NO-INVENTED", name.replace("coordinate::", ""), not bad,
              "%s stores no invented element" % name if not bad else
              "%s builds the tuple it stores with a constant in it: an element the setter does not name (the epoch of a 4D tuple) "
              "is overwritten" % name, cx.where(bad[0]["span"]) if bad else cx.where(f.d["span"]))
    cx.count("R-SETTER-NO-INVENTED", "setters", n)


@rule("R-ANGULAR-ACCESSORS", ["C19"])
def r_angular_accessors(cx):
    """The typed accessors `xy_to_degrees`, `xyz_to_arcsec`, `xyzt_to_radians` ... convert the two horizontal elements - both,
    in the same way - and hand the others on: in each default method of CoordinateTuple named `*_to_<unit>`, the value
    delivered for y is the value delivered for x with `x()` replaced by `y()`, and the 2-, 3- and 4-element variants of one
    unit agree on it."""
    import elems as E
    n = 0
    by_unit = {}
    for name in sorted(cx.f.lib["fns"]):
        tail = name.rsplit("::", 1)[-1]
        if not (name.startswith("coordinate::tuple::CoordinateTuple::") and "_to_" in tail):
            continue
        f = cx.f.fn(name)
        rt = E.return_term(f)
        rt = mir.strip_refs(rt) if rt is not None else None
        if not (rt is not None and rt[0] == "agg" and len(rt[2]) >= 2):
            continue
        n += 1

        def ren(t):
            if isinstance(t, tuple):
                if t[0] == "call" and isinstance(t[1], str) and t[1].endswith("CoordinateTuple::x"):
                    return ("call", t[1][:-1] + "y") + tuple(ren(z) for z in t[2:3]) + t[3:4]
                return tuple(ren(z) for z in t)
            return t

        def strip_bb(t):
            if isinstance(t, tuple):
                if t[0] == "call" and len(t) > 3:
                    return ("call", t[1], tuple(strip_bb(z) for z in t[2]))
                return tuple(strip_bb(z) for z in t)
            return t
        ex, ey = strip_bb(mir.strip_refs(rt[2][0])), strip_bb(mir.strip_refs(rt[2][1]))
        ok = strip_bb(ren(ex)) == ey
        cx.ob("R-ANGULAR-ACCESSORS", tail, ok,
              "%s converts x and y alike" % tail if ok else
              "%s converts its first and its second element differently (%s / %s): the accessor disagrees with its siblings and "
              "with the element-wise definition" % (tail, mir.show(rt[2][0], maxd=4)[:50], mir.show(rt[2][1], maxd=4)[:50]),
              cx.where(f.d["span"]))
        by_unit.setdefault(tail.split("_to_", 1)[1], []).append((tail, ex))
    for unit, lst in sorted(by_unit.items()):
        forms = {repr(e) for _, e in lst}
        cx.ob("R-ANGULAR-ACCESSORS", "agree/%s" % unit, len(forms) == 1,
              "the %d variants of *_to_%s convert the first element alike" % (len(lst), unit) if len(forms) == 1 else
              "the variants of *_to_%s (%s) do not convert the first element alike" % (unit, ", ".join(t for t, _ in lst)))
    cx.count("R-ANGULAR-ACCESSORS", "accessors", n)
