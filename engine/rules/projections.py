"""Projection parameter conventions (C13, C01, C05, C10): R-UNIT-TYPESTATE, R-FALSE-ORIGIN, R-UTM-CONSTANTS,
R-NOOP-ALIAS, R-SIGN-SLICE, R-SIBLING-GUARD."""
from fractions import Fraction

import elems as E
import keys as K
import mir
import pertuple
from rulebase import rule, spec
from rules.loops import is_const_num, is_nan_const, _nanish

PLANE = ("merc", "webmerc", "tmerc", "utm", "btmerc", "butm", "lcc", "laea", "omerc", "somerc")
TRANSPARENT = ("unwrap", "unwrap_or", "unwrap_or_default", "deref", "copied", "cloned", "clone", "expect", "branch")
TRIG = ("sin", "cos", "tan", "sin_cos", "asin", "acos", "atan", "atan2", "sinh", "cosh", "tanh")


def angular_key(k, spec_keys):
    return k in spec_keys


def param_source(t, facts):
    """if t reads a parameter: returns (kind, key) with kind in lat|lon|x|y|k|real ; else None"""
    if t[0] == "proj" and isinstance(t[2], tuple) and t[2][0] == "elem" and len(t[2]) == 3 and t[2][1] is None:
        # map[key] : the value graph renders Index::index on a map as an element projection with a term index
        k = K._const_key(t[2][2])
        if k is not None and K.receiver_map(facts, ("ref", False, t[1])) == "real":
            return ("real", k)
        return None
    if t[0] != "call" or not isinstance(t[1], str):
        return None
    c = t[1]
    if c.startswith(K.PP + "::"):
        acc = c[len(K.PP) + 2:]
        if acc in ("lat", "lon", "x", "y", "k") and len(t[2]) == 2 and is_const_num(t[2][1]):
            return (acc, "%s_%d" % (acc, t[2][1][2]))
        if acc == "real" and len(t[2]) == 2:
            k = K._const_key(t[2][1])
            if k is not None:
                return ("real", k)
    if False:
        pass
    if c.endswith("BTreeMap::<K, V, A>::get") or (c.endswith("::index") and "BTreeMap" in c):
        if len(t[2]) == 2 and K.receiver_map(facts, t[2][0]) == "real":
            k = K._const_key(t[2][1])
            if k is not None:
                return ("real", k)
    return None


def strip_transparent(t):
    """look through unwrap/unwrap_or/deref/copy wrappers"""
    for _ in range(8):
        t = mir.strip_refs(t)
        if t[0] == "call" and isinstance(t[1], str) and t[1].split("::")[-1] in TRANSPARENT and t[2]:
            t = t[2][0]
            continue
        if t[0] == "proj" and t[2] == ("variant", 1, "Some"):
            t = t[1]
            continue
        if t[0] == "proj" and isinstance(t[2], tuple) and t[2][0] == "variant" and t[2][2] in ("Ok", "Continue"):
            t = t[1]
            continue
        if t[0] == "proj" and t[2] == ("f", 0) and t[1][0] == "proj" and isinstance(t[1][2], tuple) and t[1][2][0] == "variant":
            t = t[1][1]
            continue
        break
    return t


def plane_functions(cx):
    """(operator name, constructor, role, fn path) for the plane projections; role in fwd|inv|ctor|helper"""
    reg = cx.registry()
    out = []
    for cpath, c in sorted(reg.ctors.items()):
        names = [n for n in c.names if n in PLANE]
        if not names:
            continue
        for role, fn in (("fwd", c.fwd), ("inv", c.inv), ("ctor", cpath)):
            if not fn:
                continue
            for g in sorted(reg.reachable_from([fn], follow_virtual=False)):
                if g.startswith(cpath.rsplit("::", 1)[0] + "::"):
                    r = role if g == fn else ("helper" if role == "ctor" else role)
                    out.append((names[0], c, r, g))
    # de-duplicate (fwd/inv shared between tmerc and utm)
    seen = set()
    res = []
    for item in out:
        k = (item[1].path, item[3])
        if k not in seen:
            seen.add(k)
            res.append(item)
    return res


def rad_keys_of_ctor(cx, c):
    """keys that the constructor (re-)inserts into the real table as radians"""
    out = set()
    reg = cx.registry()
    for g in reg.reachable_from([c.path], follow_virtual=False):
        if not g.startswith(c.path.rsplit("::", 1)[0] + "::"):
            continue
        f = cx.f.fn(g)
        for (bb, m, key, val) in K.inserts_in(cx.f, f):
            if m != "real" or val is None:
                continue
            if _is_radians_value(val):
                out.add(key)
    return out


def _is_radians_value(v, depth=0):
    v = mir.strip_refs(v)
    if v[0] == "call" and isinstance(v[1], str) and v[1].endswith("::to_radians"):
        return True
    if v[0] == "phi" and depth < 6:
        ops = [o for o in v[2] if not is_const_num(o, 0)]
        return bool(ops) and all(_is_radians_value(o, depth + 1) for o in ops)
    return False


class UnitEval:
    def __init__(self, cx, f, rad_keys, ang_keys):
        self.cx = cx
        self.f = f
        self.rad_keys = rad_keys
        self.ang = ang_keys
        self.memo = {}
        self.viol = []

    def source_unit(self, t):
        src = param_source(t, self.cx.f)
        if src is None:
            return None
        kind, key = src
        if kind in ("lat", "lon") or (kind == "real" and key in self.ang):
            return ("rad" if key in self.rad_keys else "deg", key)
        return None

    def unit(self, t, depth=0):
        """abstract unit of term t in {deg, rad, num, other}; records violations"""
        if not isinstance(t, tuple) or depth > 80:
            return "other"
        k = id(t)
        if k in self.memo:
            return self.memo[k]
        self.memo[k] = "other"
        u = self._unit(t, depth)
        self.memo[k] = u
        return u

    def _unit(self, t, depth):
        tag = t[0]
        if tag == "const":
            return "num"
        su = self.source_unit(t)
        if su is not None:
            return su[0] + ":" + su[1]
        if tag in ("ref",):
            return self.unit(t[2], depth + 1)
        if tag == "proj":
            b = self.unit(t[1], depth + 1)
            if isinstance(t[2], tuple) and t[2][0] == "variant" and t[2][2] in ("Err", "Break", "None"):
                return "other"
            if b.startswith(("deg", "rad")):
                return b
            return "other"
        if tag == "un":
            return self.unit(t[2], depth + 1)
        if tag == "cast":
            return self.unit(t[2], depth + 1)
        if tag == "phi":
            us = {self.unit(o, depth + 1) for o in t[2]}
            us.discard("num")
            if len(us) == 1:
                return us.pop()
            return "other"
        if tag == "bin":
            a = self.unit(t[2], depth + 1)
            b = self.unit(t[3], depth + 1)
            op = t[1]
            if op in ("Add", "Sub", "Mul", "Div", "Rem"):
                for x, y, side in ((a, b, t[3]), (b, a, t[2])):
                    if x.startswith("deg") and y != "num":
                        self.viol.append(("arith", x, "degree-valued parameter %s is used in arithmetic (%s) with a "
                                                       "non-constant without conversion to radians" % (x[4:], op)))
                if a.startswith("deg") and b == "num" and op in ("Mul", "Div", "Add", "Sub"):
                    return a
                if b.startswith("deg") and a == "num" and op in ("Mul", "Add", "Sub"):
                    return b
                return "other"
            return "other"
        if tag == "call" and isinstance(t[1], str):
            tail = t[1].split("::")[-1]
            args = [self.unit(a, depth + 1) for a in t[2]]
            if tail in TRANSPARENT or tail in ("abs", "neg", "min", "max", "clamp", "copysign"):
                return args[0] if args else "other"
            if tail == "to_radians":
                if args and args[0].startswith("rad"):
                    self.viol.append(("double", args[0], "parameter %s is already in radians (the constructor stores it "
                                                         "converted) but is converted again" % args[0][4:]))
                return "other"
            if tail == "to_degrees":
                return "other"
            if tail in ("is_nan", "is_finite", "is_infinite", "eq", "ne", "partial_cmp", "lt", "gt", "le", "ge", "insert",
                        "fmt", "to_string", "signum", "is_sign_negative", "is_sign_positive", "get", "contains_key",
                        "index", "real", "lat", "lon", "from_residual", "from_output", "into", "from"):
                return "other"
            if t[1].startswith("inner_op::") and self.cx.f.has_fn(t[1]) and depth < 30 and any(u.startswith("deg") for u in args):
                # a helper of the operator's own module: what it does with the value decides (it may well convert it)
                import elems as E
                try:
                    r = E.inline_call(self.f, t, None)
                except Exception:
                    r = None
                if r is not None:
                    return self.unit(r, depth + 1)
            for u in args:
                if u.startswith("deg"):
                    what = "trigonometric function" if tail in TRIG else "function"
                    self.viol.append(("call", u, "degree-valued parameter %s is passed to the %s %s without conversion "
                                                 "to radians" % (u[4:], what, tail)))
            return "other"
        if tag in ("agg", "upd", "mod"):
            for x in t[1:]:
                if isinstance(x, tuple) and x and isinstance(x[0], str):
                    self.unit(x, depth + 1)
                elif isinstance(x, tuple):
                    for y in x:
                        if isinstance(y, tuple) and y and isinstance(y[0], str):
                            self.unit(y, depth + 1)
            return "other"
        return "other"


def all_operand_terms(f):
    """every call argument, switch discriminant and returned value of f (roots for term evaluation)"""
    for bb, t in f.calls():
        for a in f.arg_terms(bb):
            yield bb, a
    for bb in sorted(f.reachable()):
        t = f.term(bb)
        if t["k"] == "switch":
            yield bb, f.operand(t["discr"], f.end_point(bb))
        if t["k"] == "return":
            yield bb, f.local_value(0, f.end_point(bb))


@rule("R-UNIT-TYPESTATE", ["C13"])
def r_unit_typestate(cx):
    ang = set(spec("angular_keys.json")["keys"])
    n = 0
    nsrc = 0
    for (opname, c, role, g) in plane_functions(cx):
        f = cx.f.fn(g)
        rk = rad_keys_of_ctor(cx, c) if role in ("fwd", "inv") else set()
        ev = UnitEval(cx, f, rk, ang)
        for bb, term in all_operand_terms(f):
            ev.unit(term)
        # count sources seen
        srcs = set()
        for bb, term in all_operand_terms(f):
            def visit(x):
                su = ev.source_unit(x)
                if su is not None:
                    srcs.add(su)
                return True
            mir.walk(term, visit)
        nsrc += len(srcs)
        seen = set()
        for (kind, unit, msg) in ev.viol:
            key = "%s/%s/%s/%s" % (c.names[0], g, unit[4:], kind)
            if key in seen:
                continue
            seen.add(key)
            n += 1
            cx.ob("R-UNIT-TYPESTATE", key, False, "%s (%s): %s" % (g, opname, msg), cx.where(f.d["span"]))
        for (u, key) in sorted(srcs):
            k2 = "%s/%s/%s/ok" % (c.names[0], g, key)
            if not any(s.startswith("%s/%s/%s/" % (c.names[0], g, key)) for s in seen):
                cx.ob("R-UNIT-TYPESTATE", k2, True,
                      "%s: angular parameter %s (%s) is converted exactly once before use" % (g, key, u))
    cx.count("R-UNIT-TYPESTATE", "angular_sources", nsrc)


# ---------------------------------------------------------------------------------------------------------------------
# R-FALSE-ORIGIN

def origin_source(t, facts, axis):
    """does t read the false origin of `axis` ('x' or 'y')?"""
    src = param_source(strip_transparent(t), facts)
    if src is None:
        return False
    kind, key = src
    return key == "%s_0" % axis


def stored_polarity(cx, c, key, axis, depth=0):
    """polarity of the false origin in a value the constructor stores under real[key]"""
    reg = cx.registry()
    pols = set()
    for g in reg.reachable_from([c.path], follow_virtual=False):
        if not g.startswith(c.path.rsplit("::", 1)[0] + "::"):
            continue
        f = cx.f.fn(g)
        for (bb, m, k2, val) in K.inserts_in(cx.f, f):
            if m == "real" and k2 == key and val is not None:
                pols.add(polarity(cx, c, val, axis, depth + 1))
    if len(pols) == 1:
        return pols.pop()
    return 0 if not pols else "scaled"


def polarity(cx, c, t, axis, depth=0):
    """additive polarity of the false origin of `axis` in t: 0 absent, +1, -1, 'scaled'"""
    if depth > 60 or not isinstance(t, tuple):
        return 0
    if t[0] == "proj" and c.fwd:
        # a value handed back by a private helper of the module (e.g. a tuple of precomputed parameters)
        import elems as E
        t2 = E.look_through_calls(cx.f.fn(c.fwd), t)
        if t2 is not None and t2 is not t:
            t = t2
    if origin_source(t, cx.f, axis):
        return 1
    s = strip_transparent(t)
    if s is not t:
        src = param_source(s, cx.f)
        if src is not None and src[0] == "real" and src[1] not in ("x_0", "y_0"):
            return stored_polarity(cx, c, src[1], axis, depth) if depth < 3 else 0
        return polarity(cx, c, s, axis, depth + 1)
    src = param_source(t, cx.f)
    if src is not None and src[0] == "real" and src[1] not in ("x_0", "y_0"):
        return stored_polarity(cx, c, src[1], axis, depth) if depth < 3 else 0
    tag = t[0]
    if tag == "bin":
        a = polarity(cx, c, t[2], axis, depth + 1)
        b = polarity(cx, c, t[3], axis, depth + 1)
        if t[1] == "Add":
            if a == 0:
                return b
            if b == 0:
                return a
            return "scaled"
        if t[1] == "Sub":
            nb = -b if b in (1, -1) else b
            if a == 0:
                return nb
            if b == 0:
                return a
            return "scaled"
        if a == 0 and b == 0:
            return 0
        return "scaled"
    if tag == "un":
        a = polarity(cx, c, t[2], axis, depth + 1)
        if t[1] == "Neg":
            return -a if a in (1, -1) else a
        return a
    if tag == "phi":
        ps = {polarity(cx, c, o, axis, depth + 1) for o in t[2]}
        if len(ps) == 1:
            return ps.pop()
        return "scaled"
    if tag in ("call", "agg", "cast", "proj", "ref"):
        subs = []
        for x in t[1:]:
            if isinstance(x, tuple) and x and isinstance(x[0], str):
                subs.append(x)
            elif isinstance(x, tuple):
                subs.extend(y for y in x if isinstance(y, tuple) and y and isinstance(y[0], str))
        if any(polarity(cx, c, x, axis, depth + 1) != 0 for x in subs):
            return "scaled"
        return 0
    return 0


def written_xy_terms(f, pt):
    """for each value write of the loop: (bb, easting term, northing term)"""
    import elems as E
    out = []
    for bb, m in sorted(pt.writes):
        args = f.arg_terms(bb)
        if m == "set_xy":
            if all(is_nan_const(a) for a in args[2:]):
                continue
            out.append((bb, args[2], args[3]))
        elif m == "set_coord":
            v = f._deref(args[2], f.end_point(bb))
            if _nanish(v):
                continue
            es = E.elems(f, v, f.end_point(bb))
            out.append((bb, es[0], es[1]))
    return out


def input_xy_terms(f, pt):
    """terms denoting the first / second element of the tuple read in this iteration"""
    xs, ys = [], []
    for bb, m in pt.reads:
        call = f.call_term(f.term(bb), bb)
        if m in ("xy", "xyz", "xyzt"):
            xs.append(("proj", call, ("f", 0)))
            ys.append(("proj", call, ("f", 1)))
        else:
            xs.append(("proj", call, ("elem", 0)))
            ys.append(("proj", call, ("elem", 1)))
    return xs, ys


def inverse_origin_uses(cx, c, f, t, axis, inputs, out, depth=0, parent=None, side=None):
    """collect (ok, description) for every occurrence of the false origin (or a stored value carrying it) in t:
    ok iff the occurrence is the right operand of `input - origin`"""
    if depth > 80 or not isinstance(t, tuple):
        return
    if t[0] in ("proj", "ref"):
        import elems as E
        t2 = E.look_through_calls(f, t)
        if t2 is not None and t2 is not t:
            t = t2
    carries = origin_source(t, cx.f, axis)
    stored = None
    s = strip_transparent(t)
    src = param_source(s, cx.f)
    if not carries and src is not None and src[0] == "real" and src[1] not in ("x_0", "y_0"):
        sp = stored_polarity(cx, c, src[1], axis, 0)
        if sp == 1:
            carries = True
            stored = src[1]
        elif sp not in (0,):
            out.append((False, "stored value %s carries the false origin with polarity %s" % (src[1], sp)))
            return
    if carries:
        ok = parent is not None and parent[0] == "bin" and parent[1] == "Sub" and side == "b" and \
            any(_same_input(parent[2], i) for i in inputs)
        out.append((ok, "%s" % (stored or ("%s_0" % axis))))
        return
    tag = t[0]
    if tag == "bin":
        inverse_origin_uses(cx, c, f, t[2], axis, inputs, out, depth + 1, t, "a")
        inverse_origin_uses(cx, c, f, t[3], axis, inputs, out, depth + 1, t, "b")
        return
    for x in t[1:]:
        if isinstance(x, tuple) and x and isinstance(x[0], str):
            inverse_origin_uses(cx, c, f, x, axis, inputs, out, depth + 1, t, None)
        elif isinstance(x, tuple):
            for y in x:
                if isinstance(y, tuple) and y and isinstance(y[0], str):
                    inverse_origin_uses(cx, c, f, y, axis, inputs, out, depth + 1, t, None)


def _mentions_any(t, inputs):
    import elems as E
    want = [E.canon(i) for i in inputs]
    found = []

    def visit(x):
        if x[0] == "proj" and E.canon(x) in want:
            found.append(1)
            return False
        return True

    mir.walk(t, visit)
    return bool(found)


def _same_input(t, i):
    import elems as E
    return E.canon(t) == E.canon(i)


@rule("R-FALSE-ORIGIN", ["C13"])
def r_false_origin(cx):
    reg = cx.registry()
    n = 0
    done = set()
    for cpath, c in sorted(reg.ctors.items()):
        names = [x for x in c.names if x in PLANE]
        if not names or not c.fwd or not c.inv:
            continue
        for role, fn in (("fwd", c.fwd), ("inv", c.inv)):
            if (fn, role) in done and not cpath.endswith("utm"):
                continue
            done.add((fn, role))
            f = cx.f.fn(fn)
            for pt in pertuple.per_tuple_loops(f):
                lid = [p.header for p in pertuple.per_tuple_loops(f)].index(pt.header)
                for wn, (bb, e, nn) in enumerate(written_xy_terms(f, pt)):
                    where = cx.where(f.term(bb)["span"])
                    if role == "fwd":
                        for axis, term in (("x", e), ("y", nn)):
                            pol = polarity(cx, c, term, axis)
                            n += 1
                            # operators that have no false origin parameter at all (webmerc) are not judged
                            if pol == 0 and not _has_origin_param(c, axis):
                                continue
                            cx.ob("R-FALSE-ORIGIN", "%s/%s/loop%d/write%d/%s_0" % (names[0], fn, lid, wn, axis), pol == 1,
                                  "%s forward: %s_0 is added, unscaled, to the %s written" % (
                                      names[0], axis, "easting" if axis == "x" else "northing") if pol == 1 else
                                  "%s forward: %s_0 enters the %s with polarity %s (must be added exactly once, unscaled)" % (
                                      names[0], axis, "easting" if axis == "x" else "northing",
                                      {0: "absent", -1: "subtracted"}.get(pol, pol)), where)
                    else:
                        xs, ys = input_xy_terms(f, pt)
                        for axis, inputs in (("x", xs), ("y", ys)):
                            uses = []
                            for term in (e, nn):
                                inverse_origin_uses(cx, c, f, term, axis, inputs, uses)
                            if not uses:
                                depends = any(_mentions_any(term, inputs) for term in (e, nn))
                                if _has_origin_param(c, axis) and depends:
                                    n += 1
                                    cx.ob("R-FALSE-ORIGIN", "%s/%s/loop%d/write%d/%s_0" % (names[0], fn, lid, wn, axis), False,
                                          "%s inverse: %s_0 is never removed from the input %s" % (
                                              names[0], axis, "easting" if axis == "x" else "northing"), where)
                                continue
                            n += 1
                            bad = [d for ok, d in uses if not ok]
                            cx.ob("R-FALSE-ORIGIN", "%s/%s/loop%d/write%d/%s_0" % (names[0], fn, lid, wn, axis), not bad,
                                  "%s inverse: every use of %s_0 is `input - %s_0`" % (names[0], axis, axis) if not bad else
                                  "%s inverse: %s_0 (%s) is not subtracted from the input %s" % (
                                      names[0], axis, bad[0], "easting" if axis == "x" else "northing"), where)
    cx.count("R-FALSE-ORIGIN", "checks", n)


def _has_origin_param(c, axis):
    for p in c.gamut or []:
        if isinstance(p, dict) and p.get("key") == "%s_0" % axis:
            return True
    # utm style constructors insert x_0/y_0 themselves
    return any(n in ("utm", "butm") for n in c.names)


# ---------------------------------------------------------------------------------------------------------------------

def _num(t):
    """Fraction value of an int/float const term, else None"""
    if t[0] == "const":
        v = t[2]
        if isinstance(v, bool):
            return None
        if isinstance(v, int):
            return Fraction(v)
        if isinstance(v, tuple) and v[0] == "float":
            try:
                return Fraction(v[1])
            except (ValueError, ZeroDivisionError):
                return None
    return None


def affine_f(t, depth=0):
    """affine form with float constants: ({sym: Fraction}, const)"""
    k = _num(t)
    if k is not None:
        return ({}, k)
    if t[0] == "cast" and depth < 20:
        return affine_f(t[2], depth + 1)
    if t[0] == "bin" and t[1] in ("Add", "Sub") and depth < 20:
        a, ca = affine_f(t[2], depth + 1)
        b, cb = affine_f(t[3], depth + 1)
        s = 1 if t[1] == "Add" else -1
        out = dict(a)
        for x, c in b.items():
            out[x] = out.get(x, Fraction(0)) + s * c
        return ({x: c for x, c in out.items() if c != 0}, ca + s * cb)
    if t[0] == "bin" and t[1] == "Mul" and depth < 20:
        a, ca = affine_f(t[2], depth + 1)
        b, cb = affine_f(t[3], depth + 1)
        if not a:
            return ({x: c * ca for x, c in b.items()}, ca * cb)
        if not b:
            return ({x: c * cb for x, c in a.items()}, ca * cb)
    if t[0] == "un" and t[1] == "Neg" and depth < 20:
        a, ca = affine_f(t[2], depth + 1)
        return ({x: -c for x, c in a.items()}, -ca)
    return ({t: Fraction(1)}, Fraction(0))


@rule("R-UTM-CONSTANTS", ["C13"])
def r_utm_constants(cx):
    reg = cx.registry()
    want = spec("utm.json")
    found = 0
    for cpath, c in sorted(reg.ctors.items()):
        if not (set(c.names) & {"utm", "butm"}):
            continue
        found += 1
        f = cx.f.fn(cpath)
        ins = K.inserts_in(cx.f, f)
        oks = K.ok_blocks(f)
        where = cx.where(f.d["span"])
        by_key = {}
        for (bb, m, key, val) in ins:
            if m == "real":
                by_key.setdefault(key, []).append((bb, val))
        for key in ("k_0", "lat_0", "x_0"):
            vals = by_key.get(key, [])
            ok = len(vals) == 1 and _num(vals[0][1]) == Fraction(want[key]) and all(f.dominates(vals[0][0], o) for o in oks)
            cx.ob("R-UTM-CONSTANTS", "%s/%s" % (c.names[0], key), ok,
                  "%s sets %s = %s on every Ok path" % (c.names[0], key, want[key]) if ok else
                  "%s must set %s = %s; it sets %s" % (c.names[0], key, want[key],
                                                      [mir.show(v, maxd=3) for _, v in vals] or "nothing"), where)
        # lon_0 = 6*zone - 183
        vals = by_key.get("lon_0", [])
        ok = False
        got = None
        if len(vals) == 1:
            import elems as E
            a, cst = affine_f(E.look_through_calls(f, vals[0][1]))
            got = (sorted(str(k) for k in a.values()), str(cst))
            zone_syms = [s for s in a if "natural" in str(s) or "zone" in mir.show(s, maxd=6)]
            ok = len(a) == 1 and list(a.values())[0] == Fraction(want["lon_0_per_zone"]) and cst == Fraction(want["lon_0_offset"]) \
                and _is_zone_term(list(a.keys())[0])
        cx.ob("R-UTM-CONSTANTS", "%s/lon_0" % c.names[0], ok,
              "%s sets lon_0 = %s*zone %s" % (c.names[0], want["lon_0_per_zone"], want["lon_0_offset"]) if ok else
              "%s must set lon_0 = 6*zone - 183; found coefficients %s" % (c.names[0], got), where)
        # y_0: 0 always, 10000000 under the south flag
        vals = by_key.get("y_0", [])
        flags = dict((succ, fl) for succ, fl in _flag_succ(f))
        uncond = [v for b, v in vals if all(f.dominates(b, o) for o in oks)]
        cond = [(b, v) for b, v in vals if not all(f.dominates(b, o) for o in oks)]
        ok = len(uncond) == 1 and _num(uncond[0]) == Fraction(want["y_0_north"]) and len(cond) == 1 and \
            _num(cond[0][1]) == Fraction(want["y_0_south"]) and any(
                fl == "south" and f.dominates(succ, cond[0][0]) for succ, fl in flags.items())
        cx.ob("R-UTM-CONSTANTS", "%s/y_0" % c.names[0], ok,
              "%s sets y_0 = 0, and 10000000 under `south`" % c.names[0] if ok else
              "%s must set y_0 = 0 and 10000000 exactly under the south flag" % c.names[0], where)
        # zone in 1..=60, otherwise Err
        okz = False
        for bb, t in f.calls():
            cal = f.callee(t) or ""
            if cal.endswith("::contains") and "Range" in (t.get("callee_full") or cal):
                args = f.arg_terms(bb)
                r = mir.strip_refs(args[0])
                if r[0] == "agg" and len(r[2]) == 2 and _num(r[2][0]) == 1 and _num(r[2][1]) == 61:
                    nxt = t.get("target")
                    sw = f.term(nxt) if nxt is not None else None
                    if sw and sw["k"] == "switch":
                        inside = sw["otherwise"]
                        if all(f.dominates(inside, o) for o in oks):
                            okz = True
        cx.ob("R-UTM-CONSTANTS", "%s/zone-range" % c.names[0], okz,
              "%s accepts exactly the zones 1..=60" % c.names[0] if okz else
              "%s does not restrict zone to 1..=60 on every Ok path" % c.names[0], where)
    cx.count("R-UTM-CONSTANTS", "constructors", found)


def _is_zone_term(t):
    found = []

    def visit(x):
        if x[0] == "call" and isinstance(x[1], str) and x[1] == K.PP + "::natural" and K._const_key(x[2][1]) == "zone":
            found.append(1)
        return True

    mir.walk(t, visit)
    return bool(found)


def _flag_succ(f):
    from rules.keysrules import flag_tests
    return flag_tests(f)


@rule("R-NOOP-ALIAS", ["C13"])
def r_noop_alias(cx):
    reg = cx.registry()
    ops = spec("operators.json")["operators"]
    aliases = [n for n, v in ops.items() if v.get("elements") == []]
    byname = {}
    for cpath, c in reg.ctors.items():
        for n in c.names:
            byname[n] = c
    for n in sorted(aliases):
        c = byname.get(n)
        if c is None:
            cx.ob("R-NOOP-ALIAS", n, False, "the documented no-op alias %s is not registered" % n)
            continue
        ok = True
        why = []
        for fn in (c.fwd, c.inv):
            if not fn:
                ok = False
                why.append("missing InnerOp")
                continue
            f = cx.f.fn(fn)
            for bb, t in f.calls():
                m = pertuple.is_cs_call(f, t)
                if m is not None and m != "len":
                    ok = False
                    why.append("%s calls CoordinateSet::%s" % (fn, m))
            import elems
            r = elems.return_term(f)
            if not (r is not None and r[0] == "call" and str(r[1]).endswith("CoordinateSet::len")):
                ok = False
                why.append("%s does not return operands.len()" % fn)
        cx.ob("R-NOOP-ALIAS", n, ok, "%s leaves all data untouched and reports len()" % n if ok else
              "%s is documented as a no-op but %s" % (n, "; ".join(why)))


# ---------------------------------------------------------------------------------------------------------------------

SIGN_KILLERS = ("abs", "powi", "hypot", "cosh", "cos")


def carries_sign(t, is_source, depth=0):
    """does t depend on the *sign* of a source value (a path from the source that passes no even function)?"""
    if depth > 60 or not isinstance(t, tuple):
        return False
    if is_source(t):
        return True
    if t[0] == "call" and isinstance(t[1], str):
        tail = t[1].split("::")[-1]
        if tail in SIGN_KILLERS:
            return False
    if t[0] == "bin" and t[1] == "Mul" and t[2] == t[3]:
        return False
    for x in t[1:]:
        if isinstance(x, tuple) and x and isinstance(x[0], str):
            if carries_sign(x, is_source, depth + 1):
                return True
        elif isinstance(x, tuple):
            for y in x:
                if isinstance(y, tuple) and y and isinstance(y[0], str) and carries_sign(y, is_source, depth + 1):
                    return True
    return False


@rule("R-SIGN-SLICE", ["C13", "C01", "C05"])
def r_sign_slice(cx):
    """a constructor that can store either of two antonym hemisphere flags (north_*/south_*) must choose between them
    by a condition that depends on the sign of the latitude parameter"""
    reg = cx.registry()
    n = 0
    for cpath, c in sorted(reg.ctors.items()):
        f = cx.f.fn(cpath)
        ins = [(bb, key) for (bb, m, key, v) in K.inserts_in(cx.f, f) if m == "boolean"]
        norths = [(bb, k) for bb, k in ins if k.startswith("north")]
        souths = [(bb, k) for bb, k in ins if k.startswith("south")]
        for (nb, nk) in norths:
            for (sb, sk) in souths:
                if nk[5:] != sk[5:]:
                    continue
                n += 1
                # the branch that separates the two inserts: the closest common dominator that is a switch
                sep = None
                idom = f.idom()
                b = nb
                chain = []
                while True:
                    chain.append(b)
                    if b == 0:
                        break
                    b = idom[b]
                for b in chain:
                    if f.dominates(b, sb) and f.term(b)["k"] == "switch":
                        sep = b
                        break
                ok = False
                if sep is not None:
                    cond = f.operand(f.term(sep)["discr"], f.end_point(sep))

                    def is_src(x):
                        s = param_source(x, cx.f)
                        return s is not None and (s[0] == "lat" or s[1].startswith("lat"))

                    ok = carries_sign(cond, is_src)
                cx.ob("R-SIGN-SLICE", "%s/%s-vs-%s" % (c.names[0], nk, sk), ok,
                      "%s chooses between %s and %s by a condition that depends on the sign of the latitude parameter" % (
                          c.names[0], nk, sk) if ok else
                      "%s chooses between %s and %s by a condition that is an even function of the latitude parameter "
                      "(its sign is erased by abs() on every path): +90 and -90 give the same aspect, %s is unreachable" % (
                          c.names[0], nk, sk, sk), cx.where(f.term(sb)["span"]))
    cx.count("R-SIGN-SLICE", "antonym_pairs", n)


# ---------------------------------------------------------------------------------------------------------------------

def nan_guards(f, pt):
    """domain guards of a per-tuple loop: (threshold Fraction, symmetric?) for every branch `cmp(X, const)` one side of
    which leads directly to a NaN write"""
    from rules.loops import classify_write
    out = []
    nan_blocks = {bb for bb, m in pt.writes if classify_write(f, bb, m) == "nan"}
    for bb in sorted(pt.lp.body):
        sw = f.term(bb)
        if sw["k"] != "switch" or bb == pt.header:
            continue
        c = f.operand(sw["discr"], f.end_point(bb))
        if c[0] != "bin" or c[1] not in ("Gt", "Ge", "Lt", "Le"):
            continue
        # does one successor reach a NaN write before any value write / the latch?
        hits = False
        for s in f.succ[bb]:
            reach = f.reach_from([s], avoid=[pt.header] + [b for b, m in pt.writes if b not in nan_blocks])
            if reach & nan_blocks:
                hits = True
        if not hits:
            continue
        for x, k in ((c[2], c[3]), (c[3], c[2])):
            kv = _num(k)
            if kv is None:
                continue
            xs = mir.strip_refs(x)
            sym = xs[0] == "call" and isinstance(xs[1], str) and xs[1].split("::")[-1] in ("abs", "hypot")
            out.append((abs(kv), sym))
    return out


@rule("R-SIBLING-GUARD", ["C10"])
def r_sibling_guard(cx):
    """forward and inverse functions of one operator that both guard their domain by comparing a quantity with the same
    constant must agree on whether the quantity is taken by absolute value (a limit enforced on one side only lets
    out-of-domain tuples through looking valid)"""
    reg = cx.registry()
    n = 0
    for cpath, c in sorted(reg.ctors.items()):
        if not c.fwd or not c.inv or c.fwd == c.inv:
            continue
        gs = {}
        for role, fn in (("fwd", c.fwd), ("inv", c.inv)):
            f = cx.f.fn(fn)
            for pt in pertuple.per_tuple_loops(f):
                gs.setdefault(role, []).extend(nan_guards(f, pt))
        if not gs.get("fwd") or not gs.get("inv"):
            continue
        for (k, sym) in gs["fwd"]:
            for (k2, sym2) in gs["inv"]:
                if k == k2:
                    n += 1
                    cx.ob("R-SIBLING-GUARD", "%s/limit=%s" % (c.names[0], float(k)), sym == sym2,
                          "%s: the domain limit %s is tested the same way (|x|: %s) forward and inverse" % (
                              c.names[0], float(k), sym) if sym == sym2 else
                          "%s: the domain limit %s is tested on an absolute value in one direction and on the signed "
                          "value in the other: one side of the domain is not guarded and comes back looking valid" % (
                              c.names[0], float(k)), cx.where(cx.f.fn(c.inv).d["span"]))
    cx.count("R-SIBLING-GUARD", "paired_limits", n)


# ---------------------------------------------------------------------------------------------------------------------
# R-NO-LAT-SHIFT (C14, C13): lat_0 of a transverse Mercator is an origin of northings, not a shift of the latitude

TM = ("tmerc", "utm", "btmerc", "butm")


@rule("R-NO-LAT-SHIFT", ["C14", "C13", "C01"])
def r_no_lat_shift(cx):
    """In the transverse Mercator family the latitude of origin enters through the meridian arc (the northing of
    lat_0 on the central meridian is y_0): no forward function adds lat_0 to the latitude it reads, and no inverse adds
    it to the latitude it writes - that would be a different projection (and is what made btmerc disagree with tmerc by
    thousands of kilometres for lat_0 != 0)."""
    reg = cx.registry()
    n = 0
    done = set()
    for cpath, c in sorted(reg.ctors.items()):
        names = [x for x in c.names if x in TM]
        if not names:
            continue
        for role, fn in (("fwd", c.fwd), ("inv", c.inv)):
            if not fn or fn in done:
                continue
            done.add(fn)
            f = cx.f.fn(fn)
            n += 1
            bad = None
            for bb, i, s in f.all_stmts():
                if s["k"] != "assign" or s["rv"]["k"] != "bin" or s["rv"].get("op") not in ("Add", "Sub"):
                    continue
                a = f.operand(s["rv"]["a"], (bb, i))
                b = f.operand(s["rv"]["b"], (bb, i))
                for x, y in ((a, b), (b, a)):
                    src = param_source(strip_transparent(_peel_rad(x)), cx.f)
                    if src is not None and src[1] == "lat_0":
                        # the other side: a latitude read from the tuple (forward) - any term that is an element of the
                        # tuple read; or, inverse, anything at all (the sum is then written as the latitude)
                        if role == "fwd" and _is_tuple_elem(y):
                            bad = (bb, s)
                        if role == "inv":
                            bad = (bb, s)
            cx.ob("R-NO-LAT-SHIFT", "%s/%s" % (names[0], role), bad is None,
                  "%s %s: lat_0 is not added to a latitude" % (names[0], role) if bad is None else
                  "%s %s adds lat_0 to %s: in a transverse Mercator lat_0 fixes the origin of the northings (meridian arc), "
                  "it does not shift latitudes" % (names[0], role, "the latitude read" if role == "fwd" else "the latitude written"),
                  cx.where(bad[1].get("span") or f.d["span"]) if bad else cx.where(f.d["span"]))
    cx.count("R-NO-LAT-SHIFT", "functions", n)


def _peel_rad(t):
    t = mir.strip_refs(t)
    for _ in range(3):
        if t[0] == "call" and isinstance(t[1], str) and t[1].endswith(("to_radians", "to_degrees")) and t[2]:
            t = mir.strip_refs(t[2][0])
    return t


def _is_tuple_elem(t):
    t = mir.strip_refs(t)
    return t[0] == "proj" and t[1][0] == "call" and isinstance(t[1][1], str) and \
        t[1][1].rsplit("::", 1)[-1] in ("get_coord", "xy", "xyz", "xyzt")


@rule("R-LATTS-K0", ["C13", "C05"])
def r_latts_k0(cx):
    """`lat_ts` of merc is equivalent to the corresponding k_0 and takes precedence over a given k_0 ("lat_ts trumps
    k_0"): the value the constructor stores as k_0 when lat_ts is given is a function of lat_ts and the ellipsoid only -
    it does not read the k_0 it replaces (which would make the scale on the parallel lat_ts k_0 instead of unity)."""
    from rules.inverse import _keys_deep
    f = cx.f.fn("inner_op::merc::new")
    n = 0
    for (bb, m, key, val) in K.inserts_in(cx.f, f):
        if m != "real" or key != "k_0" or val is None:
            continue
        n += 1
        ks = _keys_deep(f, val)
        ok = "lat_ts" in ks and "k_0" not in ks
        cx.ob("R-LATTS-K0", "merc/k_0", ok,
              "the k_0 derived from lat_ts replaces a given k_0 (it depends on lat_ts and the ellipsoid only)" if ok else
              "merc::new derives the k_0 it stores from %s: with both lat_ts and k_0 given, the scale on the parallel "
              "lat_ts is no longer unity" % ", ".join(sorted(ks)), cx.where(f.term(bb)["span"]))
        # the scale on the parallel lat_ts is an even function of lat_ts (the parallels +lat_ts and -lat_ts are the same
        # pair of lines): the decision to apply it must be even too - a test of lat_ts against zero for (in)equality, or
        # of its magnitude, not an ordered comparison of the signed value (`lat_ts > 0` ignores southern values)
        import slicing
        import guards
        cd = slicing.control_deps(f)
        seen, work, ats = set(), [bb], set()
        while work:
            x = work.pop()
            for a in cd.get(x, ()):
                if a not in seen:
                    seen.add(a)
                    work.append(a)
                    tt = f.term(a)
                    if tt["k"] == "switch":
                        ats |= guards.atoms(f, f.operand(tt["discr"], f.end_point(a)))
        onesided = []
        for at in ats:
            if at[0] == "bin" and at[1] in ("Lt", "Le", "Gt", "Ge") and "lat_ts" in (_keys_deep(f, at[2]) | _keys_deep(f, at[3])):
                has_abs = []
                mir.walk(at, lambda y: (has_abs.append(1) if y[0] == "call" and isinstance(y[1], str) and
                                        y[1].rsplit("::", 1)[-1] in ("abs", "powi", "is_nan") else None) or True)
                if not has_abs:
                    onesided.append(at)
        cx.ob("R-LATTS-K0", "merc/lat_ts-even", not onesided,
              "the decision to derive k_0 from lat_ts does not depend on the sign of lat_ts" if not onesided else
              "merc::new applies lat_ts only on one side of an ordered comparison of the signed value (%s): a southern "
              "(negative) lat_ts is silently ignored, although it names the same pair of parallels" %
              mir.show(onesided[0], maxd=3)[:60], cx.where(f.term(bb)["span"]))
    if n == 0:
        cx.ob("R-LATTS-K0", "merc/k_0", False, "merc::new does not derive k_0 from lat_ts", cx.where(f.d["span"]))
    cx.count("R-LATTS-K0", "inserts", n)


# ---------------------------------------------------------------------------------------------------------------------
# R-PARALLELS-SYMMETRIC (C05, C13): lcc treats its two standard parallels alike

@rule("R-PARALLELS-SYMMETRIC", ["C05", "C13"])
def r_parallels_symmetric(cx):
    """The cone of lcc is determined by the *set* of its two standard parallels: lat_1=30 lat_2=60 and lat_1=60 lat_2=30
    are the same projection, and lat_1 = lat_2 is the tangent case. (a) Every branch condition of lcc::new that compares
    an arithmetic combination of both parallels with a constant is symmetric in them: it tests |phi1 - phi2| or
    |phi1 + phi2|, not a signed difference (`phi2 - phi1 >= eps` sees a secant cone only when lat_2 > lat_1). (b) The
    default latitude of origin is phi1 exactly in the tangent case: the arm that makes lat_0 = phi1 is taken on the
    strength of the same symmetric test |phi1 - phi2| < eps (not of lat_2 being absent: lat_1=lat_2 given explicitly is
    the tangent case too)."""
    import guards
    f = cx.f.fn("inner_op::lcc::new")

    def parallel(t, k):
        t = mir.strip_refs(t)
        hit = []

        def vis(y):
            if y[0] == "call" and isinstance(y[1], str) and y[1] == K.PP + "::lat" and len(y[2]) > 1 and \
                    mir.strip_refs(y[2][1])[0] == "const" and mir.strip_refs(y[2][1])[2] == k:
                hit.append(1)
            return True
        mir.walk(t, vis)
        return bool(hit)

    def both_arith(t):
        """t = a (+|-) b with one side deriving from lat(1) only and the other from lat(2) (possibly defaulted to lat(1))"""
        t = mir.strip_refs(t)
        if t[0] == "bin" and t[1] in ("Sub", "Add"):
            a, b = t[2], t[3]
            if (parallel(a, 1) and parallel(b, 2)) or (parallel(a, 2) and parallel(b, 1)):
                return t[1]
        return None
    n = 0
    sym_tests = []
    for b in sorted(f.reachable()):
        sw = f.term(b)
        if sw["k"] != "switch":
            continue
        for at in guards.atoms(f, f.operand(sw["discr"], f.end_point(b))):
            at = mir.strip_refs(at)
            if at[0] != "bin" or at[1] not in ("Lt", "Le", "Gt", "Ge", "Eq", "Ne"):
                continue
            for side in (at[2], at[3]):
                sd = mir.strip_refs(side)
                inner, wrapped = sd, False
                if sd[0] == "call" and isinstance(sd[1], str) and sd[1].rsplit("::", 1)[-1] == "abs" and sd[2]:
                    inner, wrapped = mir.strip_refs(sd[2][0]), True
                op = both_arith(inner)
                if op is None:
                    continue
                n += 1
                ok = wrapped or (op == "Add") or at[1] in ("Eq", "Ne")
                if ok and op == "Sub":
                    sym_tests.append(at)
                cx.ob("R-PARALLELS-SYMMETRIC", "lcc/test%d" % (n - 1), ok,
                      "the test %s is symmetric in the two standard parallels" % mir.show(at, maxd=2)[:50] if ok else
                      "lcc::new compares the signed difference of the standard parallels with a constant (%s): the secant "
                      "cone is recognised for one order of lat_1, lat_2 only; with the other order the cone constant of the "
                      "tangent case is used" % mir.show(at, maxd=3)[:70], cx.where(sw["span"]))
    # (b) the arm lat_0 := phi1
    for (bb, m, key, val) in K.inserts_in(cx.f, f):
        if m != "real" or key != "lat_0" or val is None:
            continue
        v = mir.strip_refs(val)
        arms = []

        def collect(y, path_facts, depth=0):
            y = mir.strip_refs(y)
            if y[0] == "phi" and isinstance(y[1], tuple) and isinstance(y[1][0], int) and depth < 6:
                reach = f.reachable()
                preds = [p for p in f.pred[y[1][0]] if p in reach]
                if len(preds) == len(y[2]):
                    for p, arm in zip(preds, y[2]):
                        collect(arm, path_facts | guards.edge_facts(f, p, y[1][0]), depth + 1)
                    return
            arms.append((y, path_facts))
        collect(v, set())
        for y, facts in arms:
            if not (parallel(y, 1) and not parallel(y, 2) and not parallel(y, 0)):
                continue
            n += 1
            ok = any(tv and at in [mir.strip_refs(x) for x in sym_tests] and at[1] in ("Lt", "Le") or
                     (not tv) and at in [mir.strip_refs(x) for x in sym_tests] and at[1] in ("Ge", "Gt")
                     for at, tv in ((mir.strip_refs(a_), tv_) for a_, tv_ in facts))
            cx.ob("R-PARALLELS-SYMMETRIC", "lcc/lat_0-default", ok,
                  "lat_0 defaults to lat_1 on the strength of |lat_1 - lat_2| < eps" if ok else
                  "lcc::new lets lat_0 default to lat_1 without having tested |lat_1 - lat_2| < eps on that path (e.g. when "
                  "lat_2 is merely absent): `lat_1=45 lat_2=45` and `lat_1=45` are then different projections",
                  cx.where(f.term(bb)["span"]))
    cx.count("R-PARALLELS-SYMMETRIC", "tests", n)


@rule("R-LON0-EVERY-WRITE", ["C13", "C01"])
def r_lon0_every_write(cx):
    """`lon_0` is equivalent to subtracting it from the input longitude - in every branch of a projection. For each
    plane projection that declares lon_0: every value its inverse writes has a longitude that depends on lon_0, and
    every value its forward writes depends on lon_0 (special-cased aspects - the polar branches of laea, the apex of lcc -
    included; NaN writes and constants excluded)."""
    from rules.inverse import _keys_deep
    from rules.loops import classify_write
    reg = cx.registry()
    n = 0
    done = set()
    for cpath, c in sorted(reg.ctors.items()):
        names = [x for x in c.names if x in PLANE]
        if not names or not c.fwd or not c.inv:
            continue
        if not any(isinstance(g, dict) and g.get("key") == "lon_0" for g in (c.gamut or [])):
            continue
        for role, fn in (("fwd", c.fwd), ("inv", c.inv)):
            if (fn, role) in done:
                continue
            done.add((fn, role))
            f = cx.f.fn(fn)
            for pt in pertuple.per_tuple_loops(f):
                nanb = {bb for bb, m in pt.writes if classify_write(f, bb, m) == "nan"}
                for wn, (bb, e, nn) in enumerate(written_xy_terms(f, pt)):
                    if bb in nanb:
                        continue
                    terms = (e,) if role == "inv" else (e, nn)
                    if all(mir.strip_refs(x)[0] == "const" for x in terms):
                        continue
                    ks = set()
                    for x in terms:
                        ks |= _keys_deep(f, x)
                        # parameters read by an operator-local helper (a `Setup::new(op)` struct of constants)
                        def via_helper(y):
                            if y[0] == "proj":
                                b = y
                                while b[0] in ("proj", "ref"):
                                    b = b[1] if b[0] == "proj" else b[2]
                                if b[0] == "call" and isinstance(b[1], str) and b[1].startswith("inner_op::") and cx.f.has_fn(b[1]):
                                    try:
                                        r = E.look_through_calls(f, y)
                                    except Exception:
                                        r = y
                                    if r is not y and r is not None:
                                        ks.update(_keys_deep(f, r))
                                        return False
                            return True
                        mir.walk(x, via_helper)
                        # `op.params.real["lon_0"]`: an index projection with a literal key
                        mir.walk(x, lambda y: (ks.add(K._const_key(y[2][2])) if y[0] == "proj" and isinstance(y[2], tuple) and
                                               y[2][0] == "elem" and len(y[2]) > 2 and isinstance(y[2][2], tuple) and
                                               K._const_key(y[2][2]) else None) or True)
                    n += 1
                    ok = any(k in ("lon_0", "lonc", "lon_c") or str(k).startswith("lon") for k in ks)
                    cx.ob("R-LON0-EVERY-WRITE", "%s/%s/write%d" % (names[0], role, wn), ok,
                          "%s %s: the written %s depends on lon_0" % (names[0], role, "longitude" if role == "inv" else "coordinates")
                          if ok else
                          "%s %s writes a %s that does not depend on lon_0 in one of its branches: for that aspect / special "
                          "case the central meridian is ignored" % (names[0], role, "longitude" if role == "inv" else "position"),
                          cx.where(f.term(bb)["span"]))
    cx.count("R-LON0-EVERY-WRITE", "value_writes", n)


@rule("R-NO-INPUT-CLAMP", ["C05", "C10", "C13"])
def r_no_input_clamp(cx):
    """A coordinate outside the domain of a projection is refused (NaN, not counted), never quietly moved to the border of
    the domain: in the per-tuple loops of the plane projections no `clamp` / `min` / `max` is applied to an input
    coordinate element itself (directly or after its conversion to radians). Clamping an intermediate quantity against
    round-off (the argument of an asin) is a different thing and is not judged here."""
    reg = cx.registry()
    n = 0
    loops = 0
    done = set()
    for cpath, c in sorted(reg.ctors.items()):
        names = [x for x in c.names if x in PLANE]
        if not names:
            continue
        for role, fn in (("fwd", c.fwd), ("inv", c.inv)):
            if not fn or (fn, role) in done:
                continue
            done.add((fn, role))
            f = cx.f.fn(fn)
            for pt in pertuple.per_tuple_loops(f):
                loops += 1
                xs, ys = input_xy_terms(f, pt)
                inputs = set(mir.strip_refs(t) for t in list(xs) + list(ys))
                for bb, t in f.calls():
                    if bb not in pt.lp.body:
                        continue
                    cal = f.callee(t) or ""
                    if cal.rsplit("::", 1)[-1] not in ("clamp", "min", "max") or "f64" not in cal:
                        continue
                    a = f.arg_terms(bb)
                    v = mir.strip_refs(a[0]) if a else ("unknown",)
                    for _ in range(4):
                        if v[0] == "call" and isinstance(v[1], str) and v[1].rsplit("::", 1)[-1] in ("to_radians", "to_degrees", "abs") and v[2]:
                            v = mir.strip_refs(v[2][0])
                    if v in inputs:
                        n += 1
                        cx.ob("R-NO-INPUT-CLAMP", "%s/%s/clamp%d" % (names[0], role, n - 1), False,
                              "%s %s clamps an input coordinate to a range instead of refusing values outside it: every point "
                              "beyond the limit is mapped to the limit's image and counted as a success" % (names[0], role),
                              cx.where(t["span"]))
                # ... nor is a result moved to the border of a fixed extent: a written value is not itself a clamp
                # against constants (an absolute length does not scale with the ellipsoid, and the image of a point
                # outside the extent is no longer the projection's)
                for (wb, e, nn) in written_xy_terms(f, pt):
                    for which, v in (("x", e), ("y", nn)):
                        v = mir.strip_refs(v)
                        if v[0] == "call" and isinstance(v[1], str) and v[1].rsplit("::", 1)[-1] in ("clamp", "min", "max") and \
                                "f64" in v[1] and any(mir.strip_refs(b)[0] == "const" or
                                                      (mir.strip_refs(b)[0] == "un" and mir.strip_refs(mir.strip_refs(b)[2])[0] == "const")
                                                      for b in v[2][1:]):
                            n += 1
                            cx.ob("R-NO-INPUT-CLAMP", "%s/%s/output-clamp-%s" % (names[0], role, which), False,
                                  "%s %s clamps the %s it writes to a constant extent: points whose image lies outside are "
                                  "mapped to the border and counted as successes, and the result no longer scales with the "
                                  "semi-major axis" % (names[0], role, which), cx.where(f.term(wb)["span"]))
    cx.ob("R-NO-INPUT-CLAMP", "summary", True, "%d per-tuple loops of plane projections clamp no input coordinate" % loops,
          nontrivial=loops > 0)
    cx.count("R-NO-INPUT-CLAMP", "loops", loops)


@rule("T-OMERC-UC", ["C05"])
def t_omerc_uc(cx):
    """EPSG Guidance Note 7-2 (method 9815): the u coordinate of the projection centre is
        uc = (A / B) atan[ (D^2 - 1)^1/2 / cos(alpha_c) ] SIGN(phi_c)
    with the one-argument arctangent of the quotient: for azimuths beyond +-90 degrees the cosine is negative and uc
    changes sign. A two-argument arctangent `atan2((D^2-1)^1/2, cos(alpha_c))` agrees for |alpha_c| < 90 but is larger by
    pi for the other azimuths - the projection centre then maps about pi A / B (20 000 km) away from the false origin.
    In omerc's forward and inverse function no atan2 has the cosine of the azimuth as its second argument."""
    from rules.inverse import _keys_deep as _kd

    def _keys_deep(f, t):
        ks = set(_kd(f, t))
        mir.walk(t, lambda y: (ks.add(K._const_key(y[2][2])) if y[0] == "proj" and isinstance(y[2], tuple) and y[2][0] == "elem" and
                               len(y[2]) > 2 and isinstance(y[2][2], tuple) and K._const_key(y[2][2]) else None) or True)
        return ks
    n = 0
    for role, fn in (("fwd", "inner_op::omerc::fwd"), ("inv", "inner_op::omerc::inv")):
        if not cx.f.has_fn(fn):
            cx.ob("T-OMERC-UC", role, False, "anchor-missing: %s" % fn)
            continue
        f = cx.f.fn(fn)
        bad = []
        seen_atan = 0
        for bb, t in f.calls():
            c = f.callee(t) or ""
            tail = c.rsplit("::", 1)[-1]
            if tail not in ("atan2", "atan") or f.innermost_loop(bb) is not None:
                continue
            a = f.arg_terms(bb)
            if tail == "atan2" and len(a) > 1:
                x = mir.strip_refs(a[1])
                if x[0] == "call" and isinstance(x[1], str) and x[1].rsplit("::", 1)[-1] == "cos" and "alpha" in _keys_deep(f, x):
                    bad.append(t["span"])
            if tail == "atan":
                x = mir.strip_refs(a[0])
                if x[0] == "bin" and x[1] == "Div" and "alpha" in _keys_deep(f, x[3]):
                    seen_atan += 1
        # ... SIGN(phi_c): wherever uc enters a written coordinate it carries the hemisphere of the projection centre - as a
        # factor signum(latc) of its definition, or through copysign(uc, latc) where it is used (either is enough)
        def is_uc(y):
            if y[0] == "call" and isinstance(y[1], str) and y[1].rsplit("::", 1)[-1] == "atan" and y[2]:
                x = mir.strip_refs(y[2][0])
                return x[0] == "bin" and x[1] == "Div" and "alpha" in _keys_deep(f, x[3])
            return False

        def mentions(y, pred):
            hit = []
            mir.walk(y, lambda z: (hit.append(1) if pred(z) else None) or not hit)
            return bool(hit)

        def signed(w):
            ok_ = []

            def vis(z):
                if z[0] == "bin" and z[1] == "Mul":
                    for a_, b_ in ((z[2], z[3]), (z[3], z[2])):
                        if mentions(a_, is_uc) and mentions(b_, lambda q: q[0] == "call" and isinstance(q[1], str) and
                                                            q[1].rsplit("::", 1)[-1] == "signum" and "latc" in _keys_deep(f, q)):
                            ok_.append(1)
                if z[0] == "call" and isinstance(z[1], str) and z[1].rsplit("::", 1)[-1] == "copysign" and len(z[2]) == 2:
                    if mentions(z[2][0], is_uc) and "latc" in _keys_deep(f, z[2][1]):
                        ok_.append(1)
                return True
            mir.walk(w, vis)
            return bool(ok_)
        unsigned = []
        for pt in pertuple.per_tuple_loops(f):
            for (wb, e, nn) in written_xy_terms(f, pt):
                for w in (e, nn):
                    if mentions(w, is_uc) and not signed(w):
                        unsigned.append(wb)
        if seen_atan:
            cx.ob("T-OMERC-UC", role + "/hemisphere", not unsigned,
                  "omerc %s: uc carries the sign of latc wherever it enters a coordinate" % role if not unsigned else
                  "omerc %s uses the centre's u coordinate without the hemisphere sign SIGN(latc): for a projection centre on the "
                  "southern hemisphere (variant B) the centre no longer maps to the false origin but 2 |uc| away along the "
                  "initial line" % role, cx.where(f.term(unsigned[0])["span"]) if unsigned else cx.where(f.d["span"]))
        n += 1
        ok = not bad and seen_atan > 0
        cx.ob("T-OMERC-UC", role, ok,
              "omerc %s: uc is (A / B) atan[(D^2 - 1)^1/2 / cos(alpha)] SIGN(latc), as published" % role if ok else
              ("omerc %s computes the centre's u coordinate with atan2(.., cos(alpha)): for azimuths beyond +-90 degrees the "
               "result is off by pi and the projection centre maps some 20 000 km from the false origin" % role if bad else
               "anchor-missing: omerc %s has no atan[(..) / cos(alpha)] outside its loop" % role),
              cx.where(bad[0]) if bad else cx.where(f.d["span"]))
    cx.count("T-OMERC-UC", "functions", n)


@rule("R-LAT2-SENTINEL", ["C05", "C13"])
def r_lat2_sentinel(cx):
    """lcc takes one or two standard parallels. `lat_2` not given means the tangent cone at lat_1 - and only that: every
    latitude, the equator included, is a legitimate second parallel (`lat_1=30 lat_2=0` is a secant cone with scale k_0 on
    both). In lcc::new a decision that looks at lat_2 alone is therefore a test for NaN, the one value no user can mean;
    a comparison with an ordinary number (`phi2 == 0.`) makes that number unusable as a parameter value."""
    from rules.inverse import _keys_deep
    name = "inner_op::lcc::new"
    if not cx.f.has_fn(name):
        cx.ob("R-LAT2-SENTINEL", "anchor", False, "anchor-missing: %s" % name)
        return
    f = cx.f.fn(name)
    n = 0
    for bb in sorted(f.reachable()):
        sw = f.term(bb)
        if sw["k"] != "switch":
            continue
        c = mir.strip_refs(f.operand(sw["discr"], f.end_point(bb)))
        if _keys_deep(f, c) != {"lat_2"}:
            continue
        while c[0] == "un" and c[1] == "Not":
            c = mir.strip_refs(c[2])
        n += 1
        ok = c[0] == "call" and isinstance(c[1], str) and c[1].endswith("::is_nan")
        cx.ob("R-LAT2-SENTINEL", "lcc/test%d" % (n - 1), ok,
              "lcc decides on the presence of lat_2 by is_nan" if ok else
              "lcc::new decides on lat_2 alone by `%s`: a second standard parallel with that value is silently taken for "
              "`not given`, and the projection becomes the tangent cone at lat_1" % mir.show(c, maxd=3)[:80],
              cx.where(sw["span"]))
    cx.count("R-LAT2-SENTINEL", "tests", n)


@rule("R-SENTINEL-DEFAULT", ["C13", "C05", "C16"])
def r_sentinel_default(cx):
    """How an operator asks `was this optional number given?` and what its gamut says the number is when it was not have
    to agree. A constructor (or apply function) that tests a single Real parameter with `is_nan()` believes that NaN is
    what `not given` looks like - the gamut default of that key is then NaN. With another default (0, say) the test is
    constantly `given`, and whatever the branch does for a given value (merc: lat_ts replaces k_0) happens always."""
    from rules.inverse import _keys_deep
    reg = cx.registry()
    n = 0
    for cpath, c in sorted(reg.ctors.items()):
        defaults = {}
        for g in (c.gamut or []):
            if isinstance(g, dict) and str(g.get("__struct", "")).endswith("OpParameter::Real"):
                d = g.get("default")
                val = "required"
                if isinstance(d, dict) and d.get("args"):
                    a = d["args"][0]
                    val = "nan" if isinstance(a, dict) and str(a.get("__path", "")).endswith("NAN") else a
                defaults[g.get("key")] = val
        if not defaults:
            continue
        for fn in sorted(set(x for x in (cpath, c.fwd, c.inv) if x)):
            if not cx.f.has_fn(fn):
                continue
            f = cx.f.fn(fn)
            k = 0
            for bb in sorted(f.reachable()):
                sw = f.term(bb)
                if sw["k"] != "switch":
                    continue
                d = mir.strip_refs(f.operand(sw["discr"], f.end_point(bb)))
                while d[0] == "un" and d[1] == "Not":
                    d = mir.strip_refs(d[2])
                if not (d[0] == "call" and isinstance(d[1], str) and d[1].endswith("::is_nan") and d[2]):
                    continue
                # the value tested is the parameter itself (possibly converted), not something computed from it
                v = mir.strip_refs(d[2][0])
                for _ in range(4):
                    if v[0] == "call" and isinstance(v[1], str) and v[1].rsplit("::", 1)[-1] in ("to_radians", "to_degrees", "abs") and v[2]:
                        v = mir.strip_refs(v[2][0])
                    elif v[0] == "proj" and isinstance(v[2], tuple) and v[2][0] in ("variant", "f"):
                        v = mir.strip_refs(v[1])
                    elif v[0] == "call" and isinstance(v[1], str) and v[1].endswith("Try>::branch") and v[2]:
                        v = mir.strip_refs(v[2][0])
                    else:
                        break
                direct = (v[0] == "call" and isinstance(v[1], str) and v[1].startswith(K.PP + "::")) or \
                    (v[0] == "proj" and isinstance(v[2], tuple) and v[2][0] == "elem")
                if not direct:
                    continue
                # a test that refuses NaN (the NaN side only leads to an error) is a validation, not a presence test
                nan_side = sw["otherwise"]
                oks = K.ok_blocks(f) if fn == cpath else None
                if oks is not None and oks and not (set(oks) & f.reach_from([nan_side], avoid=[])):
                    continue
                ks = _keys_deep(f, d[2][0])
                mir.walk(d[2][0], lambda y: (ks.add(K._const_key(y[2][2])) if y[0] == "proj" and isinstance(y[2], tuple) and
                                             y[2][0] == "elem" and len(y[2]) > 2 and isinstance(y[2][2], tuple) and
                                             K._const_key(y[2][2]) else None) or True)
                ks = {x for x in ks if x in defaults}
                if len(ks) != 1:
                    continue
                key = next(iter(ks))
                n += 1
                ok = defaults[key] in ("nan", "required")
                cx.ob("R-SENTINEL-DEFAULT", "%s/%s/%s" % (c.names[0] if c.names else cpath, fn.rsplit("::", 1)[-1], key), ok,
                      "%s: `%s` is tested for NaN and defaults to NaN" % (fn, key) if ok else
                      "%s tests `%s` with is_nan() to see whether it was given, but the gamut gives it the default %s: the test "
                      "never finds it absent, and what is meant for an explicitly given `%s` happens always (an explicitly "
                      "given other parameter is overridden)" % (fn, key, defaults[key], key), cx.where(sw["span"]))
                k += 1
    if n == 0:
        cx.ob("R-SENTINEL-DEFAULT", "none", True, "no operator tests a single Real parameter for NaN", nontrivial=False)
    cx.count("R-SENTINEL-DEFAULT", "nan_tests", n)


@rule("R-PLAIN-IDENTITY", ["C13", "C16"])
def r_plain_identity(cx):
    """Op::plain makes sure the latitude / longitude parameters lat_0..lat_3, lon_0..lon_3 exist (0 when not given). What
    it stores under such a key is the value that was read under it, or the default - never something computed from it:
    the operators read these keys in degrees as the user wrote them (`lon_0 % 180.` turns a central meridian of 183 into 3)."""
    name = "op::Op::plain"
    if not cx.f.has_fn(name):
        cx.ob("R-PLAIN-IDENTITY", "anchor", False, "anchor-missing: %s" % name)
        return
    f = cx.f.fn(name)
    n = 0
    for bb, t in f.calls():
        if not ((f.callee(t) or "").endswith("BTreeMap::<K, V, A>::insert") and "f64" in (t.get("callee_full") or "")):
            continue
        a = f.arg_terms(bb)
        if len(a) < 3:
            continue
        n += 1
        arith = []
        mir.walk(a[2], lambda y: (arith.append(y[1]) if y[0] in ("bin", "un") else
                                  (arith.append(y[1].rsplit("::", 1)[-1]) if y[0] == "call" and isinstance(y[1], str) and
                                   y[1].rsplit("::", 1)[-1] in ("rem_euclid", "to_radians", "to_degrees", "abs", "clamp", "min", "max",
                                                                 "round", "floor", "trunc", "signum") else None)) or True)
        cx.ob("R-PLAIN-IDENTITY", "plain/insert%d" % (n - 1), not arith,
              "Op::plain stores the parameter as read" if not arith else
              "Op::plain stores a latitude / longitude parameter after applying `%s` to it: the operator no longer works with "
              "the value the user wrote" % arith[0], cx.where(t["span"]))
    cx.count("R-PLAIN-IDENTITY", "inserts", n)


@rule("R-ELLPS-FROM-PARAMS", ["C06", "C14"])
def r_ellps_from_params(cx):
    """An operator works on the ellipsoid its `ellps` parameter names: the operator modules obtain their ellipsoid from
    `params.ellps(..)` and never fall back to `Ellipsoid::default()` or to a name written into the code - a constructor
    that precomputes coefficients for the default ellipsoid yields GRS80 results for every `ellps=`."""
    n = 0
    bad = 0
    for name in sorted(cx.f.lib["fns"]):
        if "::tests::" in name or not name.startswith("inner_op::"):
            continue
        f = cx.f.fn(name)
        for bb, t in f.calls():
            c = f.callee(t) or ""
            if c.endswith("ParsedParameters::ellps"):
                n += 1
            literal = c.endswith("Ellipsoid::named") and f.arg_terms(bb) and K._const_key(f.arg_terms(bb)[0]) is not None
            if ("Ellipsoid as std::default::Default>::default" in c) or c.endswith("Ellipsoid::default") or literal:
                bad += 1
                cx.ob("R-ELLPS-FROM-PARAMS", "%s/fixed%d" % (name, bad - 1), False,
                      "%s builds its ellipsoid from %s, not from the operator's `ellps` parameter: whatever `ellps=` says, the "
                      "operator computes on that fixed ellipsoid" % (name, "Ellipsoid::default()" if not literal else
                                                                    "the literal name `%s`" % K._const_key(f.arg_terms(bb)[0])),
                      cx.where(t["span"]))
    cx.ob("R-ELLPS-FROM-PARAMS", "summary", True, "%d reads of the ellps parameter in the operator modules examined" % n,
          nontrivial=False)
    cx.count("R-ELLPS-FROM-PARAMS", "ellps_reads", n)


@rule("R-MERC-K0-GUARDED", ["C05", "C13"])
def r_merc_k0_guarded(cx):
    """merc takes its scale from `k_0`, unless a latitude of true scale is given, which then determines it. The constructor
    replaces the stored k_0 only under a test of lat_ts: an unconditional `insert("k_0", f(lat_ts))` (harmless-looking,
    since f(0) = 1) throws an explicitly given k_0 away."""
    import guards
    from rules.inverse import _keys_deep
    name = "inner_op::merc::new"
    if not cx.f.has_fn(name):
        cx.ob("R-MERC-K0-GUARDED", "anchor", False, "anchor-missing: %s" % name)
        return
    f = cx.f.fn(name)
    n = 0
    for bb, t in f.calls():
        if not ((f.callee(t) or "").endswith("BTreeMap::<K, V, A>::insert") and len(f.arg_terms(bb)) > 2 and
                K._const_key(f.arg_terms(bb)[1]) == "k_0"):
            continue
        n += 1
        guarded = False
        oks = K.ok_blocks(f)
        for g in sorted(f.reachable()):
            sw = f.term(g)
            if sw["k"] != "switch" or g == bb or not f.dominates(g, bb):
                continue
            c = mir.strip_refs(f.operand(sw["discr"], f.end_point(g)))
            if not ((c[0] == "bin" or (c[0] == "call" and isinstance(c[1], str) and c[1].rsplit("::", 1)[-1].startswith("is_"))
                     or c[0] == "un") and "lat_ts" in _keys_deep(f, c)):
                continue
            # the side that does not lead to the write still builds the operator (a test that merely refuses bad values
            # does not count)
            for sx in f.succ[g]:
                if f.dominates(sx, bb):
                    continue
                if oks & f.reach_from([sx], avoid=[bb]):
                    guarded = True
        cx.ob("R-MERC-K0-GUARDED", "new/k_0-write%d" % (n - 1), guarded,
              "merc replaces k_0 only under a test of lat_ts" if guarded else
              "merc::new overwrites k_0 whether or not lat_ts was given: `merc k_0=0.9996` has scale 1 on the equator",
              cx.where(t["span"]))
    if n == 0:
        cx.ob("R-MERC-K0-GUARDED", "none", True, "merc::new does not replace k_0", nontrivial=False)
    cx.count("R-MERC-K0-GUARDED", "functions", 1)


@rule("R-OMERC-LABORDE", ["C05", "C13"])
def r_omerc_laborde(cx):
    """omerc without `gamma_c` is the Laborde case, which the operator approximates by Hotine variant B with gamma_c = alpha
    (documented in the source and in Rumination 002): a missing gamma_c forces the variant B branch. In omerc's forward
    and inverse function, every per-tuple decision that looks at the `variant` flag also looks at whether gamma_c is NaN."""
    import guards
    n = 0
    for role, fn in (("fwd", "inner_op::omerc::fwd"), ("inv", "inner_op::omerc::inv")):
        if not cx.f.has_fn(fn):
            cx.ob("R-OMERC-LABORDE", role, False, "anchor-missing: %s" % fn)
            continue
        f = cx.f.fn(fn)
        k = 0
        for bb in sorted(f.reachable()):
            sw = f.term(bb)
            if sw["k"] != "switch" or f.innermost_loop(bb) is None:
                continue
            d = f.operand(sw["discr"], f.end_point(bb))
            ats = guards.atoms(f, d)
            flag = nanc = False
            for a in ats:
                a = mir.strip_refs(a)

                def vis(y):
                    nonlocal flag, nanc
                    if y[0] == "call" and isinstance(y[1], str) and y[1].endswith("ParsedParameters::boolean") and len(y[2]) > 1 and \
                            K._const_key(y[2][1]) == "variant":
                        flag = True
                    if y[0] == "call" and isinstance(y[1], str) and y[1].endswith("::is_nan"):
                        nanc = True
                    return True
                mir.walk(a, vis)
            if not flag:
                continue
            n += 1
            cx.ob("R-OMERC-LABORDE", "%s/variant-test%d" % (role, k), nanc,
                  "omerc %s: the variant decision also covers the Laborde case (gamma_c missing)" % role if nanc else
                  "omerc %s decides between variant A and B on the `variant` flag alone: a definition without gamma_c (the "
                  "Laborde case, documented as variant B with gamma_c = alpha) is evaluated as variant A, and the projection centre "
                  "maps u_c away from the false origin" % role, cx.where(sw["span"]))
            k += 1
    cx.count("R-OMERC-LABORDE", "variant_tests", n)
