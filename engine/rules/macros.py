"""Macro / modifier plumbing rules: R-INV-SOURCE, R-INV-SCOPE, R-MACRO-ARGS, R-ARG-PRECEDENCE, R-CHASE-ORDER,
R-LOOKUP-FRESH, R-DISPATCH (C03, C04, C01)."""
import mir
import keys as K
from rulebase import rule

OPOP = "op::Op::op"
NEXT = "op::raw_parameters::RawParameters::next"
CHASE = "op::parsed_parameters::chase"
SPLIT = "split_into_parameters"


def _calls_in(t, pred):
    out = []

    def visit(x):
        if x[0] == "call" and isinstance(x[1], str) and pred(x[1]):
            out.append(x)
        return True

    mir.walk(t, visit)
    return out


def _const_strs(t):
    out = []

    def visit(x):
        if x[0] == "const" and isinstance(x[2], tuple) and x[2][0] == "str":
            out.append(x[2][1])
        return True

    mir.walk(t, visit)
    return out


@rule("R-INV-SOURCE", ["C03", "C04"])
def r_inv_source(cx):
    """every consumer of the inv modifier reads it from the tokenizer's parameter map (as the elementary-operator path
    does through the `inv` flag of the gamut), not from a text search of the definition"""
    n = 0
    for name in cx.f.fn_names():
        if not name.startswith("op::"):
            continue
        f = cx.f.fn(name)
        k = 0
        for bb, t in f.calls():
            if (f.callee(t) or "") != "op::Op::handle_inversion":
                continue
            n += 1
            k += 1
            inv = f.arg_terms(bb)[1]
            via_flag = _calls_in(inv, lambda c: c == K.PP + "::boolean")
            via_map = _calls_in(inv, lambda c: c.endswith(SPLIT))
            text_search = _calls_in(inv, lambda c: c.split("::")[-1] in ("contains", "ends_with", "starts_with", "find",
                                                                         "matches", "rfind"))
            names_inv = "inv" in _const_strs(inv)
            ok = names_inv and (bool(via_flag) or bool(via_map)) and not text_search
            cx.ob("R-INV-SOURCE", "%s/handle_inversion@%d" % (name, k), ok,
                  "%s takes the inv modifier from the parsed parameter map" % name if ok else
                  "%s decides inversion by %s instead of looking `inv` up in the tokenized parameters: the elementary "
                  "operator path accepts `inv` anywhere and `inv=true`, this site does not (two sites disagree on how "
                  "the modifier is detected)" % (
                      name, "a text search (%s)" % ", ".join(sorted({c[1].split("::")[-1] for c in text_search}))
                      if text_search else "something else"), cx.where(t["span"]))
    cx.count("R-INV-SOURCE", "consumers", n)


@rule("R-INV-SCOPE", ["C03", "C04"])
def r_inv_scope(cx):
    if not cx.f.has_fn(NEXT):
        cx.ob("R-INV-SCOPE", "anchor", False, "anchor-missing: RawParameters::next")
        return
    f = cx.f.fn(NEXT)
    # every call that adds entries to a map in `next` (the merge of the invocation arguments into the globals)
    ext = [bb for bb, t in f.calls() if (t.get("callee") or "").endswith("Extend::extend") or
           (f.callee(t) or "").split("::")[-1] in ("insert", "or_insert", "or_insert_with", "append") and
           "BTreeMap" in (t.get("callee_full") or f.callee(t) or "")]
    rem = {}
    for bb, t in f.calls():
        c = f.callee(t) or ""
        if c.endswith("BTreeMap::<K, V, A>::remove"):
            k = K._const_key(f.arg_terms(bb)[1])
            rem.setdefault(k, []).append(bb)
    cx.count("R-INV-SCOPE", "extend_sites", len(ext))
    for n, e in enumerate(ext):
        # every path from the extend to a return passes remove("inv")
        targets = set(rem.get("inv", []))
        reach = f.reach_from([e], avoid=targets)
        leaks = [b for b in reach if f.term(b)["k"] == "return"]
        ok = bool(targets) and not leaks
        cx.ob("R-INV-SCOPE", "extend%d/inv-removed" % n, ok,
              "after the invocation arguments are copied into the globals, `inv` is removed on every path" if ok else
              "the invocation's `inv` can stay in the globals handed to the macro body: every step of the body would "
              "then see it through chase()", cx.where(f.term(e)["span"]))
        nm = [b for b in rem.get("_name", []) if f.dominates(b, e)]
        cx.ob("R-INV-SCOPE", "extend%d/name-cleared" % n, bool(nm),
              "the inherited `_name` is removed before the invocation arguments are copied" if nm else
              "an inherited `_name` is not cleared before the invocation arguments are merged", cx.where(f.term(e)["span"]),
              nontrivial=False)


@rule("R-MACRO-ARGS", ["C04"])
def r_macro_args(cx):
    """in the macro branch of Op::op the frame for the body is made from the invocation text (which carries the
    arguments), and arguments overwrite inherited values"""
    if not cx.f.has_fn(OPOP) or not cx.f.has_fn(NEXT):
        cx.ob("R-MACRO-ARGS", "anchor", False, "anchor-missing: Op::op / RawParameters::next")
        return
    f = cx.f.fn(OPOP)
    rp_fields = [x["name"] for x in cx.f.lib["adts"]["op::raw_parameters::RawParameters"]["variants"][0]["fields"]]
    di = rp_fields.index("definition")
    n = 0
    for bb, t in f.calls():
        if (f.callee(t) or "") != NEXT:
            continue
        n += 1
        a = f.arg_terms(bb)[1]
        from_def = []

        def visit(x):
            if x[0] == "proj" and x[2] == ("f", di) and x[1] == ("arg", 1):
                from_def.append(1)
            return True

        mir.walk(a, visit)
        via_name = _calls_in(a, lambda c: c.endswith("operator_name"))
        ok = bool(from_def) and not via_name
        cx.ob("R-MACRO-ARGS", "Op::op/next-arg%d" % n, ok,
              "the body frame is built from the invocation text `parameters.definition`" if ok else
              "the body frame is built from %s instead of the invocation text: the invocation's arguments never reach "
              "the macro body" % ("the operator name" if via_name else "something else"), cx.where(t["span"]))
    cx.count("R-MACRO-ARGS", "next_calls", n)
    g = cx.f.fn(NEXT)
    ext = [(bb, t) for bb, t in g.calls() if (t.get("callee") or "").endswith("Extend::extend")]
    weak = [(bb, t) for bb, t in g.calls() if (g.callee(t) or "").split("::")[-1] in ("or_insert", "or_insert_with", "entry",
                                                                                    "try_insert")]
    ok = False
    for bb, t in ext:
        args = g.arg_terms(bb)
        if _calls_in(args[1], lambda c: c.endswith(SPLIT)):
            ok = True
    cx.ob("R-MACRO-ARGS", "next/args-overwrite", ok and not weak,
          "invocation arguments are merged into the globals with overwrite semantics (extend)" if ok and not weak else
          "invocation arguments do not overwrite inherited values in RawParameters::next (%s)" % (
              "entry/or_insert used" if weak else "no extend of the tokenized invocation"), cx.where(g.d["span"]))


@rule("R-CHASE-ORDER", ["C04"])
def r_chase_order(cx):
    if not cx.f.has_fn(CHASE):
        cx.ob("R-CHASE-ORDER", "anchor", False, "anchor-missing: chase")
        return
    f = cx.f.fn(CHASE)
    finds = [(bb, t) for bb, t in f.calls() if (t.get("callee") or "").endswith("Iterator::find")]
    cx.count("R-CHASE-ORDER", "finds", len(finds))
    for n, (bb, t) in enumerate(finds):
        full = t.get("callee_full", "")
        shape = full.startswith("<std::iter::Rev<std::iter::Chain<std::collections::btree_map::Iter")
        # entry value of the iterator: rev(chain(iter(globals=arg1), iter(locals=arg2)))
        recv = f.arg_terms(bb)[0]
        val = f.local_value(recv[2], f.end_point(bb)) if recv[0] == "refplace" else recv
        guard = 0
        while val[0] in ("mod", "loopphi") and guard < 8:
            guard += 1
            if val[0] == "mod":
                val = val[1]
            else:
                d = f.phi_def(val)
                preds = f.header_preds(val[1][0])
                lps = [l for l in f.loops() if l.header == val[1][0]]
                ops = [o for p, o in zip(preds, d[2]) if lps and p not in lps[0].body] if d[0] == "phi" else []
                if len(ops) != 1:
                    break
                val = ops[0]
        order = None
        for c in _calls_in(val, lambda c: c.endswith("Iterator::chain")):
            a, b = c[2][0], c[2][1]
            ra = _root_arg(a)
            rb = _root_arg(b)
            order = (ra, rb)
        rev = bool(_calls_in(val, lambda c: c.endswith("Iterator::rev")))
        ok = shape and order == (1, 2) and rev
        cx.ob("R-CHASE-ORDER", "find%d" % n, ok,
              "chase searches rev(globals.chain(locals)): step-local values are met before caller values" if ok else
              "chase does not search locals before globals (iterator %s, chain order %s, reversed %s)" % (
                  full[:60], order, rev), cx.where(t["span"]))


def _root_arg(t, depth=0):
    t = mir.strip_refs(t)
    if t[0] == "arg":
        return t[1]
    if t[0] == "call" and t[2] and depth < 6:
        return _root_arg(t[2][0], depth + 1)
    if t[0] == "proj" and depth < 6:
        return _root_arg(t[1], depth + 1)
    return None


@rule("R-LOOKUP-FRESH", ["C04"])
def r_lookup_fresh(cx):
    """a search inside a loop whose predicate captures a variable that the loop reassigns must run on an iterator
    created in the same iteration (a partially consumed sorted iterator misses keys on the consumed side)"""
    n = 0
    for name in cx.f.fn_names():
        if not name.startswith("op::"):
            continue
        f = cx.f.fn(name)
        for bb, t in f.calls():
            tail = (t.get("callee") or "").split("::")[-1]
            if tail not in ("find", "position", "any") or "Iterator" not in (t.get("callee") or ""):
                continue
            lp = f.innermost_loop(bb)
            if lp is None:
                continue
            args = f.arg_terms(bb)
            clos = args[1] if len(args) > 1 else None
            if clos is None or clos[0] != "agg":
                continue
            # captured variables reassigned in the loop
            caps = []
            for op in clos[2]:
                o = op
                if o[0] == "refplace" and any(r[0] in lp.body for r in f.defs().get(o[2], ())):
                    caps.append(f.lname(o[2]))
            if not caps:
                continue
            n += 1
            recv = args[0]
            root = recv[2] if recv[0] == "refplace" else None
            created_in_loop = root is not None and any(
                r[0] in lp.body and r[2] in ("full", "calldest") for r in f.defs().get(root, ()))
            cx.ob("R-LOOKUP-FRESH", "%s/%s" % (name, tail), created_in_loop,
                  "the search in %s runs on an iterator created in the same iteration" % name if created_in_loop else
                  "%s searches with a key (%s) that changes from one iteration to the next, but on an iterator created "
                  "before the loop and partly consumed: keys sorting on the consumed side are never found (e.g. "
                  "`m:outer1 z=1` with m:outer1 = `m:inner1 a=$z`, m:inner1 = `helmert x=$a`)" % (name, ", ".join(caps)),
                  cx.where(t["span"]))
    cx.count("R-LOOKUP-FRESH", "searches", n)


@rule("R-DISPATCH", ["C01", "C03"])
def r_dispatch(cx):
    """Op::apply: (inverted, Fwd) -> inv slot, (inverted, Inv) -> fwd slot, otherwise the identity mapping;
    handle_inversion toggles `inverted` iff requested and invertible, else Err when requested"""
    name = "op::Op::apply"
    if not cx.f.has_fn(name):
        cx.ob("R-DISPATCH", "anchor", False, "anchor-missing: Op::apply")
        return
    f = cx.f.fn(name)
    od = [x["name"] for x in cx.f.lib["adts"]["op::op_descriptor::OpDescriptor"]["variants"][0]["fields"]]
    table = {}
    # enumerate the 2x2 truth table by abstract evaluation of the branch conditions
    for inverted in (False, True):
        for fwd in (False, True):
            slot = _eval_apply(f, od, inverted, fwd)
            table[(inverted, fwd)] = slot
    want = {(False, True): "fwd", (False, False): "inv", (True, True): "inv", (True, False): "fwd"}
    for k in sorted(want):
        ok = table.get(k) == want[k]
        cx.ob("R-DISPATCH", "apply/inverted=%s/direction=%s" % (k[0], "Fwd" if k[1] else "Inv"), ok,
              "Op::apply(inverted=%s, %s) calls the %s slot" % (k[0], "Fwd" if k[1] else "Inv", want[k]) if ok else
              "Op::apply(inverted=%s, %s) calls the %s slot, expected %s" % (
                  k[0], "Fwd" if k[1] else "Inv", table.get(k), want[k]), cx.where(f.d["span"]))
    # handle_inversion
    hn = "op::Op::handle_inversion"
    if cx.f.has_fn(hn):
        g = cx.f.fn(hn)
        res = {}
        for invertible in (False, True):
            for req in (False, True):
                res[(invertible, req)] = _eval_handle(g, od, invertible, req)
        wanth = {(True, True): "toggled", (True, False): "same", (False, True): "err", (False, False): "same"}
        for k in sorted(wanth):
            ok = res.get(k) == wanth[k]
            cx.ob("R-DISPATCH", "handle_inversion/invertible=%s/requested=%s" % k, ok,
                  "handle_inversion(invertible=%s, requested=%s) -> %s" % (k[0], k[1], wanth[k]) if ok else
                  "handle_inversion(invertible=%s, requested=%s) -> %s, expected %s" % (k[0], k[1], res.get(k), wanth[k]),
                  cx.where(g.d["span"]))


def _abs_eval(f, t, env):
    """evaluate a boolean term under an environment of named atoms"""
    for pat, val in env:
        if pat(t):
            return val
    if t[0] == "const" and isinstance(t[2], bool):
        return t[2]
    if t[0] == "un" and t[1] == "Not":
        v = _abs_eval(f, t[2], env)
        return None if v is None else (not v)
    if t[0] == "bin" and t[1] in ("Eq", "Ne"):
        a = _abs_eval(f, t[2], env)
        b = _abs_eval(f, t[3], env)
        if a is None or b is None:
            return None
        return (a == b) if t[1] == "Eq" else (a != b)
    if t[0] == "call" and isinstance(t[1], str) and t[1].endswith("::eq") and len(t[2]) == 2:
        a = _abs_eval(f, mir.strip_refs(t[2][0]), env)
        b = _abs_eval(f, mir.strip_refs(t[2][1]), env)
        if a is None or b is None:
            return None
        return a == b
    if t[0] == "call" and isinstance(t[1], str) and t[1].endswith("::ne") and len(t[2]) == 2:
        a = _abs_eval(f, mir.strip_refs(t[2][0]), env)
        b = _abs_eval(f, mir.strip_refs(t[2][1]), env)
        if a is None or b is None:
            return None
        return a != b
    return None


def _walk_cfg(f, env, on_block):
    bb = 0
    for _ in range(200):
        r = on_block(bb)
        if r is not None:
            return r
        t = f.term(bb)
        if t["k"] == "switch":
            c = f.operand(t["discr"], f.end_point(bb))
            v = _abs_eval(f, c, env)
            if v is None:
                # discriminant of an enum we model?
                return "unknown-branch"
            if t["discr_ty"] == "bool":
                tgt = None
                for val, b2 in t["targets"]:
                    if bool(val) == v:
                        tgt = b2
                bb = tgt if tgt is not None else t["otherwise"]
            else:
                tgt = None
                for val, b2 in t["targets"]:
                    if val == v:
                        tgt = b2
                bb = tgt if tgt is not None else t["otherwise"]
            continue
        ss = f.succ[bb]
        if not ss:
            return "end"
        bb = ss[0]
    return "loop"


def _eval_apply(f, od, inverted, fwd):
    fi = od.index("inverted")

    def is_inverted(t):
        return t[0] == "proj" and t[2] == ("f", fi)

    def is_dir_fwd(t):
        # `direction == Direction::Fwd` : eq(&direction, &Fwd) or discriminant compare
        return False

    def pat_dir(t):
        return t == ("arg", 4)

    env = [(is_inverted, inverted)]
    # Direction values: model arg4 as the enum value True(Fwd)/False(Inv); the Fwd constant aggregate as True
    env.append((pat_dir, fwd))
    env.append((lambda t: t[0] == "agg" and isinstance(t[1], tuple) and t[1][1].endswith("Direction") and t[1][2] == "Fwd", True))
    env.append((lambda t: t[0] == "agg" and isinstance(t[1], tuple) and t[1][1].endswith("Direction") and t[1][2] == "Inv", False))
    env.append((lambda t: t[0] == "discr" and t[1] == ("arg", 4), 0 if fwd else 1))

    def on_block(bb):
        t = f.term(bb)
        if t["k"] == "call" and t.get("callee") is None:
            ptr = f.operand(t["fnptr"], f.end_point(bb))
            names = []

            def visit(x):
                if x[0] == "proj" and isinstance(x[2], tuple) and x[2][0] == "f" and x[1][0] == "proj" and \
                        isinstance(x[1][2], tuple) and x[1][2][0] == "f":
                    pass
                return True
            s = mir.show(ptr, maxd=8)
            for nm in ("fwd", "inv"):
                if (".f:%d" % od.index(nm)) in s:
                    names.append(nm)
            return names[0] if len(names) == 1 else "ambiguous:" + s[:60]
        return None

    return _walk_cfg(f, env, on_block)


def _eval_handle(g, od, invertible, requested):
    ii = od.index("invertible")
    vi = od.index("inverted")
    env = [(lambda t: t[0] == "proj" and t[2] == ("f", ii), invertible), (lambda t: t == ("arg", 2), requested)]
    state = {"toggled": False}

    def on_block(bb):
        for i, s in enumerate(g.stmts(bb)):
            if s["k"] == "assign" and s["place"]["p"]:
                last = s["place"]["p"][-1]
                if isinstance(last, dict) and last.get("f") == vi:
                    v = g.rvalue(s["rv"], (bb, i))
                    if v[0] == "un" and v[1] == "Not":
                        state["toggled"] = not state["toggled"]
                    else:
                        state["toggled"] = "other"
            if s["k"] == "assign" and s["place"]["l"] == 0 and not s["place"]["p"] and s["rv"]["k"] == "agg":
                vn = s["rv"].get("vname")
                if vn == "Err":
                    return "err"
                if vn == "Ok":
                    return "toggled" if state["toggled"] is True else ("same" if state["toggled"] is False else "other")
        return None

    return _walk_cfg(g, env, on_block)


@rule("R-NAME-SIBLING", ["C03", "C04", "C18"])
def r_name_sibling(cx):
    """Op::op classifies the *operator name* (prefix modifiers rotated away by the tokenizer) while
    RawParameters::next classifies a whole definition with is_resource_name(): the two agree only if
    is_resource_name itself goes through operator_name()"""
    cands = [n for n in cx.f.fn_names() if n.endswith("Tokenize>::is_resource_name") or n.endswith("::is_resource_name")]
    cands = [n for n in cands if "token" in n]
    cx.count("R-NAME-SIBLING", "impls", len(cands))
    if not cands:
        cx.ob("R-NAME-SIBLING", "anchor", False, "anchor-missing: Tokenize::is_resource_name")
        return
    import elems
    for name in cands:
        f = cx.f.fn(name)
        r = elems.return_term(f)
        via = _calls_in(r, lambda c: c.endswith("operator_name")) if r is not None else []
        own_text_ops = [c for c in (_calls_in(r, lambda c: True) if r is not None else [])
                        if c[1].split("::")[-1] in ("split_whitespace", "split", "starts_with", "find", "next")]
        ok = bool(via) and not own_text_ops
        cx.ob("R-NAME-SIBLING", name, ok,
              "is_resource_name() is decided on operator_name(): prefix modifiers and sugar cannot hide a macro name" if ok
              else "is_resource_name() does its own text inspection instead of going through operator_name(): a macro "
                   "step with a prefix modifier (`omit_fwd foo:bar`, `< foo:bar`) is not recognised as a macro call by "
                   "RawParameters::next although Op::op resolves it as one", cx.where(f.d["span"]))


# ---------------------------------------------------------------------------------------------------------------------
# R-INV-HANDLED (C03): every elementary operator built by Op::op passes through the inversion handler

@rule("R-INV-HANDLED", ["C03"])
def r_inv_handled(cx):
    """In Op::op every operator obtained from a constructor called through a function pointer (user registered
    operators and built-ins alike) is handed to handle_op_inversion before it is returned: otherwise the `inv`
    modifier is silently ignored for that class of operators."""
    f = cx.f.fn("op::Op::op")
    n = 0
    handlers = {}
    for bb, t in f.calls():
        c = f.callee(t) or ""
        if c in ("op::Op::handle_op_inversion", "op::Op::handle_inversion"):
            handlers[bb] = f.arg_terms(bb)[0]
    for bb, t in f.calls():
        if "fnptr" not in t:
            continue
        n += 1
        me = f.call_term(t, bb)
        ok = any(_mentions_term(a, me) for a in handlers.values())
        cx.ob("R-INV-HANDLED", "Op::op/constructor%d" % (n - 1), ok,
              "the operator built by the constructor call is passed to handle_op_inversion" if ok else
              "Op::op returns the operator built by a constructor without passing it through handle_op_inversion: "
              "`inv` is ignored for these operators", cx.where(t["span"]))
    cx.count("R-INV-HANDLED", "constructor_calls", n)


def _mentions_term(t, needle):
    hit = []

    def v(x):
        if x == needle:
            hit.append(1)
            return False
        return not hit

    mir.walk(t, v)
    return bool(hit)


# ---------------------------------------------------------------------------------------------------------------------
# R-CHASE-CALLS (C04): every typed extraction looks parameters up the same way

@rule("R-CHASE-CALLS", ["C04", "C03"])
def r_chase_calls(cx):
    """All calls of `chase` in ParsedParameters::new pass (globals, &locals, key) in this order: globals are the
    RawParameters' globals, locals the tokenized definition. Both are BTreeMap<String, String>, so an exchanged pair
    type checks - and makes caller values win over step-local ones for that parameter type."""
    f = cx.f.fn(K.PP + "::new")
    adt = cx.f.lib["adts"]["op::raw_parameters::RawParameters"]
    gidx = [x["name"] for x in adt["variants"][0]["fields"]].index("globals")
    want_g = ("proj", ("proj", ("arg", 1), "deref"), ("f", gidx))
    n = 0
    for bb, t in f.calls():
        c = f.callee(t) or ""
        if not c.endswith("parsed_parameters::chase"):
            continue
        a = f.arg_terms(bb)
        g = f._deref(a[0], f.end_point(bb))
        loc = f._deref(a[1], f.end_point(bb))
        ok_g = mir.strip_refs(g) == want_g
        ok_l = loc[0] == "call" and isinstance(loc[1], str) and loc[1].endswith("split_into_parameters")
        n += 1
        ok = ok_g and ok_l
        # `key=$name` without a caller value for `name` is an error: the Err of chase is handed on with `?`, not
        # discarded (`if let Ok(Some(v)) = chase(..)` would let the operator's default stand in silently)
        tried = any((tt.get("callee") or "").endswith("Try::branch") and
                    mir.strip_refs(f.arg_terms(b2)[0])[0] == "call" and mir.strip_refs(f.arg_terms(b2)[0])[3] == bb
                    for b2, tt in f.calls())
        # caller values reach every step of a macro body however the step spells its parameters: the look-up is made
        # whether or not the step itself mentions the key
        import guards as _g
        gated = False
        for at, tv in _g.branch_facts(f, bb):
            at = mir.strip_refs(at)
            if at[0] == "call" and isinstance(at[1], str) and at[1].rsplit("::", 1)[-1] in ("contains_key", "contains") and "BTreeMap" in at[1]:
                recv = mir.strip_refs(at[2][0]) if at[2] else ("unknown",)
                if recv[0] == "call" and isinstance(recv[1], str) and recv[1].endswith("split_into_parameters"):
                    gated = True
        cx.ob("R-CHASE-CALLS", "new/chase%d/not-gated-by-locals" % (n - 1), not gated,
              "the look-up is made whether or not the step mentions the key" if not gated else
              "ParsedParameters::new looks this parameter up only when the step's own text mentions the key: a value (a flag) given "
              "on the macro invocation never reaches the steps of the body", cx.where(t["span"]))
        cx.ob("R-CHASE-CALLS", "new/chase%d/error-propagated" % (n - 1), tried,
              "the error of this look-up is handed on with `?`" if tried else
              "ParsedParameters::new discards the error of a chase(..): a `$name` that the caller did not supply is no longer "
              "an error for this parameter type - the operator's default is used silently", cx.where(t["span"]))
        cx.ob("R-CHASE-CALLS", "new/chase%d" % (n - 1), ok,
              "chase(globals, &locals, key): caller values first, step-local values second (later entries win)" if ok else
              "this call of chase does not pass (globals, &locals, ..): %s" % (
                  "its first argument is not the invocation's globals" if not ok_g else
                  "its second argument is not the tokenized step"), cx.where(t["span"]))
    cx.count("R-CHASE-CALLS", "chase_calls", n)
    # the two implicit modifiers are looked up independently: each look-up lies on every path to the Ok(..) result
    oks = []
    for bb, i, s in f.all_stmts():
        if s["k"] == "assign" and s["rv"]["k"] == "agg" and s["rv"].get("adt") == K.PP:
            oks.append(bb)
    for key in ("omit_fwd", "omit_inv"):
        sites = []
        for bb, t in f.calls():
            if (f.callee(t) or "").endswith("parsed_parameters::chase"):
                a = f.arg_terms(bb)
                if len(a) > 2 and K._const_key(a[2]) == key:
                    sites.append(bb)
        ok = bool(sites) and bool(oks)
        why = "no look-up of `%s` found" % key
        if ok:
            for okb in oks:
                if okb in f.reach_from([0], avoid=tuple(sites)):
                    ok = False
                    why = "the result can be built without `%s` having been looked up (the look-up is skipped on some " \
                          "path, e.g. when the other modifier is present)" % key
        cx.ob("R-CHASE-CALLS", "new/implicit-%s" % key, ok,
              "the implicit modifier `%s` is looked up on every path to the parsed result" % key if ok else
              "ParsedParameters::new: %s" % why, cx.where(f.d["span"]))


# ---------------------------------------------------------------------------------------------------------------------
# R-MODIFIER-ROTATE (C03, C16): every leading modifier is moved behind the operator name

@rule("R-MODIFIER-ROTATE", ["C03", "C16"])
def r_modifier_rotate(cx):
    """split_into_parameters moves the desugared prefix modifiers (inv, omit_fwd, omit_inv) behind the operator name
    by rotating the element list while its first element is a modifier. Since a step may carry several prefix
    modifiers (`a < inv b` desugars to `omit_fwd inv b`), the rotation sits in a loop whose continuation tests the
    (new) first element: a single conditional rotation leaves the second modifier in the name position."""
    name = "<T as token::Tokenize>::split_into_parameters"
    f = cx.f.fn(name)
    rots = [bb for bb, t in f.calls() if (f.callee(t) or "").endswith("::rotate_left")]
    n = len(rots)
    for k, bb in enumerate(rots):
        lp = f.innermost_loop(bb)
        ok = lp is not None
        tested = False
        if lp is not None:
            for b2, t2 in f.calls():
                if b2 in lp.body and (f.callee(t2) or "").endswith("::contains"):
                    tested = True
        cx.ob("R-MODIFIER-ROTATE", "split_into_parameters/rotate%d" % k, ok and tested,
              "the rotation of leading modifiers is repeated while the first element is a modifier" if ok and tested else
              "split_into_parameters rotates a leading modifier away only once (the rotation is not in a loop that "
              "re-tests the first element): with two prefix modifiers the second one is taken for the operator name",
              cx.where(f.term(bb)["span"]))
    if n == 0:
        cx.ob("R-MODIFIER-ROTATE", "split_into_parameters/rotate0", False,
              "anchor-missing: no rotate_left in split_into_parameters (the handling of prefix modifiers changed shape)",
              cx.where(f.d["span"]))
    cx.count("R-MODIFIER-ROTATE", "rotations", n)


# ---------------------------------------------------------------------------------------------------------------------
# R-NORMALIZE-ORDER (C16): the ordered string replacements of the tokenizer form a one-pass normal form

def _replace_chain(f):
    out = []
    for bb in f.rpo():
        t = f.term(bb)
        if t["k"] == "call" and (f.callee(t) or "").endswith("::replace"):
            a = f.arg_terms(bb)
            pair = []
            for x in a[1:3]:
                x = mir.strip_refs(x)
                if x[0] == "const" and isinstance(x[2], tuple) and x[2][0] in ("str", "char"):
                    pair.append(x[2][1])
                else:
                    pair.append(None)
            if len(pair) == 2:
                out.append((bb, pair[0], pair[1]))
    return out


@rule("R-NORMALIZE-ORDER", ["C16"])
def r_normalize_order(cx):
    """`normalize` canonicalises a definition by a fixed sequence of literal replacements, applied once each. For the
    result to be a normal form (normalising twice = normalising once; spelling variants with extra blanks end up
    equal) a later replacement must not be able to create an occurrence of an earlier one's pattern. The replacements
    that delete a blank next to a symbol (" =" -> "=", "= " -> "=", ...) join the symbol to its neighbour, so every
    replacement whose pattern is that symbol together with a neighbouring character ("₀=" -> "_0=") has to come after
    them. And split_into_steps turns both CR LF and a bare CR into LF before it splits lines."""
    f = cx.f.fn("<T as token::Tokenize>::normalize")
    chain = _replace_chain(f)
    if sum(1 for x in chain if x[1] is not None) < 5:
        # table driven form: a constant array of (from, to) pairs applied in order by a loop
        import consts
        tables = []

        def vis(x):
            if x[0] == "const" and isinstance(x[2], tuple) and x[2] and x[2][0] == "path":
                tables.append(x[2][1])
            return True
        for bb, t in f.calls():
            for a in f.arg_terms(bb):
                mir.walk(a, vis)
        for path in tables:
            try:
                v = consts.const_value(cx.f, path)
            except Exception:
                v = None
            if isinstance(v, (list, tuple)) and len(v) >= 5 and all(
                    isinstance(p, (list, tuple)) and len(p) == 2 and all(isinstance(q, str) for q in p) for p in v):
                pre = [x for x in chain if x[1] is not None]
                chain = pre + [(0, p[0], p[1]) for p in v]
                break
    n = 0
    for j, (bbj, fj, tj) in enumerate(chain):
        if fj is None or tj is None or not (len(fj) == len(tj) + 1 and fj.replace(" ", "", 1) == tj and " " in fj):
            continue
        sym = tj
        before = fj.startswith(" ")   # " =" joins the symbol to what precedes it
        for i, (bbi, fi, ti) in enumerate(chain):
            if fi is None or i == j or fi in (fj,) or len(fi) <= len(sym):
                continue
            creates = (before and fi.endswith(sym) and not fi[:-len(sym)].isspace()) or \
                      (not before and fi.startswith(sym) and not fi[len(sym):].isspace())
            if not creates:
                continue
            n += 1
            ok = i > j
            cx.ob("R-NORMALIZE-ORDER", "normalize/%r-after-%r" % (fi, fj), ok,
                  "the replacement of %r comes after the one of %r that can create its pattern" % (fi, fj) if ok else
                  "normalize replaces %r before it removes blanks by %r -> %r: `x %s` is left alone by the first and "
                  "turned into its pattern by the second, so the text is not in normal form after one pass and spelling "
                  "variants with blanks differ" % (fi, fj, tj, sym), cx.where(f.term(bbi)["span"]))
    cx.count("R-NORMALIZE-ORDER", "ordered_pairs", n)
    g = cx.f.fn("<T as token::Tokenize>::split_into_steps")
    chain = _replace_chain(g)
    froms = [x[1] for x in chain]
    tos = {x[1]: x[2] for x in chain}
    ok = "\r\n" in froms and "\r" in froms and tos.get("\r\n") == "\n" and tos.get("\r") == "\n" and \
        froms.index("\r\n") < froms.index("\r")
    cx.ob("R-NORMALIZE-ORDER", "split_into_steps/line-endings", ok,
          "split_into_steps maps CR LF and then a bare CR to LF before splitting lines" if ok else
          "split_into_steps does not map both CR LF and a bare CR to LF (in this order) before it splits the text into "
          "lines: comments and continuation colons are then cut differently for such texts",
          cx.where(g.d["span"]))


# ---------------------------------------------------------------------------------------------------------------------
# R-INV-DECLARED (C03, C01): an invertible operator can be asked for its inverse

INV_EXEMPT = {
    "inner_op::pushpop::push": "direction handled by the pipeline interpreter (push <-> pop)",
    "inner_op::pushpop::pop": "direction handled by the pipeline interpreter (push <-> pop)",
    "inner_op::stack::new": "direction handled by the pipeline interpreter (stack_fwd / stack_inv)",
}


@rule("R-INV-DECLARED", ["C03", "C01"])
def r_inv_declared(cx):
    """handle_op_inversion reads `params.boolean("inv")`, and ParsedParameters only ever holds flags that the
    operator's gamut declares. Every built-in constructor that registers an inverse function therefore declares the
    flag `inv` in the gamut it parses with - otherwise `<operator> inv` silently builds the forward operator, and an
    inverted pipeline containing it is not the inverse of the pipeline."""
    reg = cx.registry()
    n = 0
    for path, c in sorted(reg.ctors.items()):
        if c.inv_kind != "Some" or c.gamut is None:
            continue
        n += 1
        if path in INV_EXEMPT:
            cx.ob("R-INV-DECLARED", path, True, "exempt: " + INV_EXEMPT[path], nontrivial=False)
            continue
        ok = any(isinstance(e, dict) and str(e.get("__struct", "")).endswith("OpParameter::Flag") and e.get("key") == "inv"
                 for e in c.gamut)
        cx.ob("R-INV-DECLARED", path, ok,
              "%s registers an inverse and declares the flag `inv`" % path if ok else
              "%s registers an inverse function but its gamut (%s) has no flag `inv`: `%s inv` is built as the forward "
              "operator" % (path, c.gamut_const, (c.names or ["?"])[0]), c.gamut_const or path)
    cx.count("R-INV-DECLARED", "invertible_constructors", n)


# ---------------------------------------------------------------------------------------------------------------------
# R-CHASE-VISITED (C04): the look-up chain remembers every entry it went through

@rule("R-CHASE-VISITED", ["C04"])
def r_chase_visited(cx):
    """`chase` follows `$name` / `(default)` indirections from entry to entry, and terminates on a cycle only because
    an entry it has already followed is never entered again. There is a collection that grows inside the chase loop
    (the followed entries), and the search predicate asks a question about *all* of it (any / all / contains / position /
    find over the collection) - not only about one of its elements (`last()`, `first()`, `get(k)`): a chain that returns
    to a name it left two hops ago would otherwise go round until the round budget is used up, and a well-formed
    nested macro would be refused as circular."""
    base = "op::parsed_parameters::chase"
    f = cx.f.fn(base)
    WIDE = ("any", "all", "contains", "position", "find", "rposition", "find_map", "binary_search", "contains_key")
    visited = set()
    for bb, t in f.calls():
        c = f.callee(t) or ""
        if c.rsplit("::", 1)[-1] in ("push", "insert", "push_back") and f.innermost_loop(bb) is not None:
            a0 = f.arg_terms(bb)[0]
            if a0[0] == "refplace" and not a0[3]:
                visited.add(a0[2])
    caps = {}
    for bb, i, st in f.all_stmts():
        if st["k"] == "assign" and st["rv"]["k"] == "agg" and st["rv"].get("agg") == "closure":
            v = f.rvalue(st["rv"], (bb, i))
            if v[0] == "agg" and isinstance(v[1], tuple) and v[1][0] == "closure":
                caps[v[1][1]] = [x[2] if x[0] == "refplace" and not x[3] else None for x in v[2]]
    wide = 0

    def queries(g, env):
        """env: field index of the closure environment -> local of chase (or None for chase itself)"""
        nonlocal wide
        for bb, t in g.calls():
            tail = (g.callee(t) or "").rsplit("::", 1)[-1]
            if tail not in WIDE:
                continue
            recv = g.arg_terms(bb)[0]
            if recv[0] == "refplace" and not recv[3]:
                recv = g.local_value(recv[2], g.end_point(bb))
            hit = []

            def vis(y):
                if env is None:
                    if y[0] in ("refplace",) and y[2] in visited:
                        hit.append(1)
                else:
                    if y[0] == "proj" and isinstance(y[2], tuple) and y[2][0] == "f" and mir.strip_refs(y[1]) in (
                            ("proj", ("arg", 1), "deref"), ("arg", 1)) and y[2][1] < len(env) and env[y[2][1]] in visited:
                        hit.append(1)
                return True
            mir.walk(recv, vis)
            if hit:
                wide += 1
    queries(f, None)
    for cname, env in sorted(caps.items()):
        if cx.f.has_fn(cname):
            queries(cx.f.fn(cname), env)
    ok = bool(visited) and wide > 0
    cx.ob("R-CHASE-VISITED", "chase/followed-set", ok,
          "the search predicate of chase questions the whole collection of followed entries" if ok else
          ("anchor-missing: chase has no collection that grows with the entries it follows" if not visited else
           "chase records the entries it follows but its search never asks about all of them (only about one, e.g. the "
           "last): a look-up chain that returns to an earlier entry cycles until the round budget is exhausted and a "
           "well-formed nested macro is refused as circular"), cx.where(f.d["span"]))
    cx.count("R-CHASE-VISITED", "membership_tests", wide)


@rule("R-CHASE-NEEDLE", ["C04", "C09"])
def r_chase_needle(cx):
    """A look-up value `$name(default)` is split into one or two parts; the *name* is the next needle. `chase` takes the
    needle off the end of that list, so at that `pop` the list holds exactly one element on every path: wherever the
    list reaches the pop without having lost its second element, the branch decisions on that path establish that there
    was no second element (`len == 2` false). Otherwise a default met in mid-chase (`north=$n(1)` behind `y=$north`) is
    taken for the next name to look up."""
    import guards
    f = cx.f.fn("op::parsed_parameters::chase")
    pops = [(bb, t) for bb, t in f.calls() if (f.callee(t) or "").endswith("Vec::<T, A>::pop")]
    n = 0
    for bb, t in pops:
        a = f.arg_terms(bb)[0]
        if a[0] != "refplace" or a[3]:
            continue
        v = mir.strip_refs(f.local_value(a[2], f.end_point(bb)))
        if v[0] != "phi" or not isinstance(v[1][0], int):
            continue
        reach = f.reachable()
        preds = [p for p in f.pred[v[1][0]] if p in reach]
        if len(preds) != len(v[2]):
            continue
        n += 1
        bad = []
        for p, arm in zip(preds, v[2]):
            arm = mir.strip_refs(arm)
            if arm[0] == "mod":
                continue        # already shortened by a pop on this path
            facts = guards.edge_facts(f, p, v[1][0])
            excluded = False
            for at, tv in facts:
                at = mir.strip_refs(at)
                if at[0] == "bin" and at[1] in ("Eq", "Ne") and mir.strip_refs(at[3])[0] == "const" and mir.strip_refs(at[3])[2] == 2:
                    ln = mir.strip_refs(at[2])
                    if ln[0] == "call" and isinstance(ln[1], str) and ln[1].rsplit("::", 1)[-1] == "len" and \
                            mir.strip_refs(ln[2][0]) == arm and ((at[1] == "Eq" and not tv) or (at[1] == "Ne" and tv)):
                        excluded = True
            if not excluded:
                bad.append(p)
        ok = not bad
        ne = _excludes_empty(f, guards.branch_facts(f, bb))
        cx.ob("R-CHASE-NEEDLE", "chase/needle%d/nonempty" % (n - 1), ne,
              "the list is known to hold the name when the next needle is taken from it" if ne else
              "chase takes the next needle from a list that may be empty (`x=$`, `x=$()` leave nothing behind the sigil): "
              "`parts.pop().unwrap()` panics instead of returning a syntax error", cx.where(t["span"]))
        cx.ob("R-CHASE-NEEDLE", "chase/needle%d" % (n - 1), ok,
              "the list holds exactly the name when the next needle is taken from it" if ok else
              "chase can take the next needle from a `$name(default)` list that still holds its default (the default is "
              "only removed when no chase is in progress): `north=$n(1)` reached from `y=$north` looks up the name `1`",
              cx.where(t["span"]))
    cx.count("R-CHASE-NEEDLE", "needle_pops", n)


@rule("R-DEFAULT-LATEST", ["C04"])
def r_default_latest(cx):
    """A macro invocation is its expansion: for `inner = op x=$a(1)` invoked as `inner a=$b(5)` or `inner a=(5)` without a
    `b`, the argument `a` falls back to 5, so x is 5. In `chase` the default met later in a chase (it was given further
    out) therefore replaces the one met earlier: no assignment to the loop-carried default is guarded by a test of the
    default so far (`default.is_empty()`) or by the loop-carried `a look-up is in progress` flag."""
    import guards
    f = cx.f.fn("op::parsed_parameters::chase")
    n = 0
    for lp in f.loops():
        if lp.parent is not None:
            continue
        carried = f.loop_carried(lp.header)
        tested = set()
        for bb, t in f.calls():
            if (f.callee(t) or "").endswith("str>::is_empty"):
                a = mir.strip_refs(f.arg_terms(bb)[0])
                if a[0] in ("loopphi", "phi") and isinstance(a[1], tuple) and a[1][1] in carried:
                    tested.add(a[1][1])
        defaults = [l for l in carried if l in tested and "str" in str(f.local_ty(l))]
        flags = [l for l in carried if str(f.local_ty(l)) == "bool"]
        for bb, i, s in f.all_stmts():
            if not (s["k"] == "assign" and bb in lp.body and s["place"]["l"] in defaults and not s["place"].get("p")):
                continue
            n += 1
            bad = None
            for at, tv in guards.branch_facts(f, bb):
                at = mir.strip_refs(at)
                if at[0] == "call" and isinstance(at[1], str) and at[1].endswith("is_empty"):
                    a = mir.strip_refs(at[2][0])
                    if a[0] in ("loopphi", "phi") and isinstance(a[1], tuple) and a[1][1] in defaults:
                        bad = "the default met so far being empty"
                if at[0] in ("loopphi", "phi") and isinstance(at[1], tuple) and at[1][1] in flags:
                    bad = "no look-up being in progress"
            cx.ob("R-DEFAULT-LATEST", "chase/default%d" % (n - 1), bad is None,
                  "a default met in the chase replaces the one met before" if bad is None else
                  "chase records a default only on %s: for `inner = op x=$a(1)` invoked as `inner a=$b(5)` (or `a=(5)`) "
                  "without b, x is 1 where the expansion `inner a=5` gives 5" % bad, cx.where(s.get("span")))
    cx.count("R-DEFAULT-LATEST", "default_writes", n)


def _excludes_empty(f, facts):
    """do the branch decisions establish that some list has at least one element?"""
    def length_of(x):
        x = mir.strip_refs(x)
        return x[0] == "call" and isinstance(x[1], str) and x[1].rsplit("::", 1)[-1] == "len"
    for at, tv in facts:
        at = mir.strip_refs(at)
        if at[0] == "call" and isinstance(at[1], str) and at[1].endswith("::contains") and tv and len(at[2]) == 2 and length_of(at[2][1]):
            arr = mir.strip_refs(at[2][0])
            while arr[0] == "cast":
                arr = mir.strip_refs(arr[2])
            if arr[0] == "agg" and arr[1] == "array" and arr[2] and all(
                    mir.strip_refs(e)[0] == "const" and isinstance(mir.strip_refs(e)[2], int) and mir.strip_refs(e)[2] >= 1 for e in arr[2]):
                return True
        if at[0] == "bin" and length_of(at[2]) and mir.strip_refs(at[3])[0] == "const" and isinstance(mir.strip_refs(at[3])[2], int):
            c = mir.strip_refs(at[3])[2]
            if (at[1] == "Eq" and tv and c >= 1) or (at[1] == "Ne" and not tv and c >= 1) or (at[1] == "Eq" and not tv and c == 0) or \
                    (at[1] == "Ne" and tv and c == 0) or (at[1] == "Gt" and tv and c >= 0) or (at[1] == "Ge" and tv and c >= 1) or \
                    (at[1] == "Lt" and not tv and c >= 1) or (at[1] == "Le" and not tv and c >= 0):
                return True
        if at[0] == "call" and isinstance(at[1], str) and at[1].endswith("Vec::<T, A>::is_empty") and not tv:
            return True
    return False


@rule("R-FORWARD-SELF", ["C04"])
def r_forward_self(cx):
    """RawParameters::next copies the arguments of a macro invocation into the map of caller values its body sees. An
    argument forwarded under its own name (`a=$a`) is a reference to the caller's `a`: copied blindly it replaces the
    very entry it refers to, and the nested macro cannot resolve `$a` any more. The arguments are therefore filtered
    (a `retain` / `filter` whose predicate looks at the `$` prefix of the value) before they are merged into the
    caller's map - decided on the shape of `next`: the value handed to `extend` has passed such a filter."""
    name = "op::raw_parameters::RawParameters::next"
    f = cx.f.fn(name)
    n = 0
    for bb, t in f.calls():
        c = f.callee(t) or ""
        if not (c.rsplit("::", 1)[-1] in ("extend", "append") and "BTreeMap" in c):
            continue
        n += 1
        src = f.arg_terms(bb)[1] if len(f.arg_terms(bb)) > 1 else ("unknown",)
        if src[0] == "refplace" and not src[3]:
            src = f.local_value(src[2], f.end_point(bb))
        filtered = []
        consults = []
        names_only = []

        def vis(y):
            clos = None
            if y[0] == "mod" and isinstance(y[2], tuple) and len(y[2]) > 1 and isinstance(y[2][1], str) and \
                    y[2][1].rsplit("::", 1)[-1] in ("retain", "extract_if"):
                # the closure handed to that retain call
                sb = y[2][0]
                for x in f.arg_terms(sb):
                    if x[0] == "agg" and isinstance(x[1], tuple) and x[1][0] == "closure":
                        clos = x[1][1]
            if y[0] == "call" and isinstance(y[1], str) and y[1].rsplit("::", 1)[-1] in ("filter", "filter_map"):
                for x in y[2]:
                    if x[0] == "agg" and isinstance(x[1], tuple) and x[1][0] == "closure":
                        clos = x[1][1]
            if clos and cx.f.has_fn(clos):
                g = cx.f.fn(clos)
                names = [clos] + [x for x in cx.f.lib["fns"] if x.startswith(clos + "::{closure")]
                for nm in names:
                    gg = cx.f.fn(nm)
                    for b2, t2 in gg.calls():
                        if (gg.callee(t2) or "").rsplit("::", 1)[-1] in ("strip_prefix", "starts_with"):
                            a2 = gg.arg_terms(b2)
                            if len(a2) > 1 and mir.strip_refs(a2[1])[0] == "const" and mir.strip_refs(a2[1])[2] in (("char", "$"), ("str", "$")):
                                filtered.append(1)
                        if (gg.callee(t2) or "").rsplit("::", 1)[-1] in ("contains_key", "get") and "BTreeMap" in (gg.callee(t2) or ""):
                            consults.append(1)
                        if (gg.callee(t2) or "").rsplit("::", 1)[-1] in ("split", "split_once", "find", "splitn", "strip_suffix", "trim_end_matches"):
                            a3 = gg.arg_terms(b2)
                            if len(a3) > 1 and mir.strip_refs(a3[-1])[0] == "const" and "(" in str(mir.strip_refs(a3[-1])[2]):
                                names_only.append(1)
            return True
        mir.walk(src, vis)
        ok = bool(filtered)
        cx.ob("R-FORWARD-SELF", "next/extend%d" % (n - 1), ok,
              "the invocation's arguments are filtered for self-references before they are merged into the caller's values"
              if ok else
              "RawParameters::next merges the arguments of a macro invocation into the caller's values unfiltered: an "
              "argument forwarded under its own name (`inner:m a=$a`) replaces the caller's `a` by a reference to itself, "
              "and the nested macro reports `'a' not found`", cx.where(t["span"]))
        if ok:
            cx.ob("R-FORWARD-SELF", "next/extend%d/name-before-default" % (n - 1), bool(names_only),
                  "the self-reference test compares the name in front of an optional `(default)`" if names_only else
                  "RawParameters::next compares the whole text behind `$` with the key: `a=$a(5)` is not recognised as a "
                  "self-reference any more, the caller's value for `a` is replaced by the reference and the default is used",
                  cx.where(t["span"]))
            cx.ob("R-FORWARD-SELF", "next/extend%d/known-only" % (n - 1), bool(consults),
                  "a self-reference is dropped only when the caller has a value for it" if consults else
                  "RawParameters::next drops every argument forwarded under its own name, without asking whether the caller "
                  "has a value for it: `inner:m a=$a(5)` invoked without `a` loses its default, and the nested macro reports "
                  "`'a' not found` (or silently uses its own fallback)", cx.where(t["span"]))
    if n == 0:
        cx.ob("R-FORWARD-SELF", "next/extend", False, "anchor-missing: RawParameters::next does not merge maps with extend",
              cx.where(f.d["span"]))
    cx.count("R-FORWARD-SELF", "merges", n)


@rule("R-NEST-UNIT", ["C04"])
def r_nest_unit(cx):
    """The recursion guard bounds how deeply macros may nest. C04 counts nesting in macro expansions (every depth from 0
    to 50 must instantiate), so the guard's counter has to count macro expansions: `RawParameters::next` advances it
    only on the branch that handles a resource (macro) name. A counter that also advances for every pipeline frame and
    every elementary step makes the admissible depth depend on the shape of the macro bodies (about 5 per level for a
    macro whose body is a pipeline), and well-formed definitions nested 20 deep are refused as recursive."""
    name = "op::raw_parameters::RawParameters::next"
    f = cx.f.fn(name)
    adt = cx.f.lib["adts"].get("op::raw_parameters::RawParameters")
    fields = [x["name"] for x in adt["variants"][0]["fields"]] if adt else []
    incs = []
    for bb, i, s in f.all_stmts():
        if s["k"] == "assign" and s["rv"]["k"] == "bin" and str(s["rv"].get("op", "")).startswith("Add"):
            v = f.rvalue(s["rv"], (bb, i))
            m = []
            mir.walk(v, lambda y: (m.append(1) if y[0] == "proj" and isinstance(y[2], tuple) and y[2][0] == "f" and
                                   y[2][1] < len(fields) and fields[y[2][1]] == "recursion_level" else None) or True)
            lp = []
            mir.walk(v, lambda y: (lp.append(1) if y[0] in ("phi",) else None) or True)
            if m or lp:
                incs.append((bb, v, s.get("span")))
    res = [b for b, t in f.calls() if (t.get("callee") or "").endswith("Tokenize::is_resource_name")]
    n = 0
    for bb, v, sp in incs:
        n += 1
        # is this increment control dependent on the resource-name test?
        import slicing
        cd = slicing.control_deps(f)
        seen, work = set(), [bb]
        under = False
        while work:
            x = work.pop()
            for a in cd.get(x, ()):
                if a in seen:
                    continue
                seen.add(a)
                work.append(a)
                t = f.term(a)
                if t["k"] == "switch":
                    c = f.operand(t["discr"], f.end_point(a))
                    hit = []
                    mir.walk(c, lambda y: (hit.append(1) if y[0] == "call" and isinstance(y[1], str) and
                                           y[1].endswith("is_resource_name") else None) or True)
                    if hit:
                        under = True
        cx.ob("R-NEST-UNIT", "next/%s" % ("macro-increment%d" % (n - 1) if under else "unconditional-increment"), under,
              "the nesting counter advances where a macro is expanded" if under else
              "RawParameters::next advances the nesting counter for every frame (pipeline, elementary step), not only for "
              "macro expansions: the depth the guard admits depends on the shape of the bodies", cx.where(sp))
    cx.count("R-NEST-UNIT", "increments", n)


@rule("R-CHASE-MISSING", ["C04"])
def r_chase_missing(cx):
    """`key=$name` takes the caller's value for `name` and is an error when that is absent and no default was given.
    chase reports "not given" (`Ok(None)`) only when no look-up was in progress: on every path to that result the
    loop-carried flag that a `$name` has been followed is known to be false. A not-found result that can be reached
    with the flag set (because the error is made to depend on something else as well, e.g. on the name differing from
    the key) lets `x=$x` without an `x` pass silently with the operator's default."""
    import guards
    f = cx.f.fn("op::parsed_parameters::chase")
    n = 0
    for bb, i, s in f.all_stmts():
        if not (s["k"] == "assign" and s["rv"]["k"] == "agg" and s["rv"].get("vname") == "Ok" and s["place"]["l"] == 0):
            continue
        v = f.rvalue(s["rv"], (bb, i))
        inner = mir.strip_refs(v[2][0]) if v[0] == "agg" and v[2] else None
        if not (inner is not None and inner[0] == "agg" and "None" in str(inner[1])):
            continue
        n += 1
        facts = guards.branch_facts(f, bb)
        flags = [at for at, tv in facts if not tv and mir.strip_refs(at)[0] in ("loopphi", "phi") and
                 "bool" in str(f.local_ty(mir.strip_refs(at)[1][1]))]
        ok = bool(flags)
        cx.ob("R-CHASE-MISSING", "chase/absent%d" % (n - 1), ok,
              "chase answers `not given` only when no look-up is in progress" if ok else
              "chase can answer `not given` while a `$name` look-up is in progress: a missing caller argument (`x=$x` without "
              "x) is not an error any more, the operator silently uses its default", cx.where(s.get("span")))
    cx.count("R-CHASE-MISSING", "absent_results", n)


@rule("R-PIPELINE-NO-NAME", ["C04", "C03"])
def r_pipeline_no_name(cx):
    """A pipeline has no operator name: `operator_name` answers the empty string for a definition that `is_pipeline`,
    before it looks at the parameters. `is_resource_name` is built on it, and a pipeline whose first step is a macro
    (`m:inner | helmert x=1`) would otherwise count as a macro invocation - RawParameters then copies the sibling steps'
    arguments into the caller's values."""
    name = "<T as token::Tokenize>::operator_name"
    if not cx.f.has_fn(name):
        cx.ob("R-PIPELINE-NO-NAME", "anchor", False, "anchor-missing: %s" % name)
        return
    f = cx.f.fn(name)
    tests = [bb for bb, t in f.calls() if (t.get("callee") or f.callee(t) or "").endswith("is_pipeline")]
    splits = [bb for bb, t in f.calls() if (t.get("callee") or f.callee(t) or "").endswith("split_into_parameters")]
    ok = bool(tests) and bool(splits) and all(any(f.dominates(tb, sb) for tb in tests) for sb in splits)
    if ok:
        # the pipeline side does not reach the parameter look-up
        ok = False
        for tb in tests:
            sw = f.term(tb).get("target")
            if sw is not None and f.term(sw)["k"] == "switch":
                yes = f.term(sw)["otherwise"]
                if not any(sb in f.reach_from([yes]) for sb in splits):
                    ok = True
    cx.ob("R-PIPELINE-NO-NAME", "operator_name", ok,
          "operator_name answers the empty string for pipelines before looking at the parameters" if ok else
          "operator_name no longer short-cuts pipelines: a pipeline that starts with a macro step is taken for a macro "
          "invocation, and the arguments of its other steps leak into the values the macro body sees", cx.where(f.d["span"]))
    cx.count("R-PIPELINE-NO-NAME", "guards", len(tests))


def normalize_pairs(cx):
    """the ordered (from, to) literal replacements of Tokenize::normalize: a chain of `.replace(a, b)` calls, or a
    constant table of pairs applied by a loop"""
    f = cx.f.fn("<T as token::Tokenize>::normalize")
    chain = _replace_chain(f)
    pairs = [(x[1], x[2]) for x in chain if x[1] is not None and x[2] is not None]
    if len(pairs) < 5:
        import consts
        tables = []

        def vis(x):
            if x[0] == "const" and isinstance(x[2], tuple) and x[2] and x[2][0] == "path":
                tables.append(x[2][1])
            return True
        for bb, t in f.calls():
            for a in f.arg_terms(bb):
                mir.walk(a, vis)
        for path in tables:
            try:
                v = consts.const_value(cx.f, path)
            except Exception:
                v = None
            if isinstance(v, (list, tuple)) and len(v) >= 5 and all(
                    isinstance(p, (list, tuple)) and len(p) == 2 and all(isinstance(q, str) for q in p) for p in v):
                pairs = pairs + [(p[0], p[1]) for p in v]
                break
    return pairs


@rule("R-PIPELINE-FAIL-FAST", ["C04"])
def r_pipeline_fail_fast(cx):
    """Instantiation of cyclic macro definitions ends in bounded time because the error raised at the nesting limit
    unwinds the whole expansion: `pipeline::new` gives up at the first step that cannot be instantiated. From the
    failure side of the `Op::op` call in its loop over the steps no path leads back into the loop - a constructor that
    goes on to instantiate the remaining steps (to report them all, say) expands every reference of a cycle at every
    level, k^depth visits for a body that refers to the cycle k times."""
    name = "inner_op::pipeline::new"
    if not cx.f.has_fn(name):
        cx.ob("R-PIPELINE-FAIL-FAST", "anchor", False, "anchor-missing: %s" % name)
        return
    f = cx.f.fn(name)
    n = 0
    for bb, t in f.calls():
        if not (f.callee(t) or "").endswith("op::Op::op"):
            continue
        lp = f.innermost_loop(bb)
        if lp is None:
            continue
        fails = []
        for b2 in sorted(f.reachable()):
            sw = f.term(b2)
            if sw["k"] != "switch":
                continue
            d = f.operand(sw["discr"], f.end_point(b2))
            if d[0] != "discr":
                continue
            src = mir.strip_refs(d[1])
            if src[0] == "call" and isinstance(src[1], str) and src[1].endswith("Try>::branch") and src[2]:
                src = mir.strip_refs(src[2][0])
            if not (src[0] == "call" and src[3] == bb):
                continue
            tg = dict((v, x) for v, x in sw["targets"])
            if 1 in tg:
                fails.append(tg[1])
            elif 0 in tg:
                fails.append(sw["otherwise"])
        if not fails:
            continue
        n += 1
        back = any(lp.header in f.reach_from([x], avoid=[]) for x in fails)
        cx.ob("R-PIPELINE-FAIL-FAST", "pipeline/step-failure%d" % (n - 1), not back,
              "pipeline::new gives up at the first step that cannot be instantiated" if not back else
              "pipeline::new goes on with the remaining steps after one has failed: for a cyclic macro definition whose body "
              "refers to the cycle k times, the error raised at the nesting limit no longer ends the expansion - every "
              "reference is expanded at every level (k^depth instantiations)", cx.where(t["span"]))
    # the iterator form: `steps.iter().map(|s| Op::op(..)).collect::<Result<Vec<Op>, _>>()?` - collecting into a Result
    # stops at the first Err by construction
    for cname in sorted(cx.f.lib["fns"]):
        if not cname.startswith(name + "::{closure"):
            continue
        g = cx.f.fn(cname)
        if not any((g.callee(t) or "").endswith("op::Op::op") and g.innermost_loop(bb) is None for bb, t in g.calls()):
            continue
        for bb, t in f.calls():
            if (f.callee(t) or "").rsplit("::", 1)[-1] not in ("collect", "try_collect", "try_for_each", "try_fold"):
                continue
            full = t.get("callee_full") or ""
            if cname.rsplit("::", 1)[-1] and "closure@" in full:
                n += 1
                ok = "::collect::<std::result::Result<" in full or (f.callee(t) or "").rsplit("::", 1)[-1].startswith("try_")
                cx.ob("R-PIPELINE-FAIL-FAST", "pipeline/step-failure%d" % (n - 1), ok,
                      "pipeline::new collects its steps into a Result: the first failing step ends the instantiation" if ok else
                      "pipeline::new instantiates all of its steps before it looks at their results: for a cyclic macro "
                      "definition every reference is expanded at every level", cx.where(t["span"]))
    cx.count("R-PIPELINE-FAIL-FAST", "step_instantiations", n)


@rule("R-NORMALIZE-KEEPS-SEPARATORS", ["C03", "C16"])
def r_normalize_keeps_separators(cx):
    """`|`, `<` and `>` separate steps, and `<` / `>` in front of a step also mean `omit_fwd` / `omit_inv` for it - at the
    very start of a definition as much as between two steps. `Tokenize::normalize` therefore never trims these signs
    off the ends of the text (`.trim_matches(..)` with a pattern that holds one of them): `< addone | helmert x=2` would
    silently lose the one-way marker of its first step."""
    n = 0
    base = "<T as token::Tokenize>::normalize"
    for name in sorted(cx.f.lib["fns"]):
        if not (name == base or name.startswith(base + "::{closure")):
            continue
        f = cx.f.fn(name)
        for bb, t in f.calls():
            tail = (f.callee(t) or "").rsplit("::", 1)[-1]
            if not (tail.startswith("trim") or tail.startswith("strip_")) or len(f.arg_terms(bb)) < 2:
                continue
            n += 1
            chars = []
            mir.walk(f.arg_terms(bb)[1], lambda y: (chars.append(str(y[2][1])) if y[0] == "const" and isinstance(y[2], tuple) and
                                                   len(y[2]) == 2 and y[2][0] in ("char", "str") else None) or True)
            bad = sorted({c for p in chars for c in p if c in "|<>"})
            cx.ob("R-NORMALIZE-KEEPS-SEPARATORS", "normalize/%s%d" % (tail, n - 1), not bad,
                  "normalize trims %s off the ends of the text - no step separator" % (chars,) if not bad else
                  "normalize trims %s off the ends of the definition: a leading `<` or `>` is the omit_fwd / omit_inv marker "
                  "of the first step, which then runs in both directions" % (bad,), cx.where(t["span"]))
    # a continuation colon (a colon that starts a line) stands for white space: it is replaced by white space, never by
    # nothing, which would glue the last word of a line to the first of the next (`x=1\n:y=2` -> `x=1y=2`)
    try:
        pairs = list(normalize_pairs(cx))
    except Exception:
        pairs = []
    for name in sorted(cx.f.lib["fns"]):
        if not name.startswith("<T as token::Tokenize>::"):
            continue
        f = cx.f.fn(name)
        for bb, t in f.calls():
            if (f.callee(t) or "").rsplit("::", 1)[-1] == "replace" and len(f.arg_terms(bb)) == 3:
                a, b = (K._const_key(x) for x in f.arg_terms(bb)[1:])
                if a is not None and b is not None and (a, b) not in pairs:
                    pairs.append((a, b))
    for a, b in pairs:
        if a and a[0] in "\r\n" and a.rstrip(" ").endswith(":") and set(a) <= set("\r\n :"):
            n += 1
            ok = bool(b) and b.isspace() and "\n" in b
            cx.ob("R-NORMALIZE-KEEPS-SEPARATORS", "normalize/continuation", ok,
                  "a continuation colon is replaced by white space" if ok else
                  "normalize replaces a continuation colon (%r) by %r: the words on both sides of the line break are glued "
                  "together, so a continuation line changes the meaning of the definition" % (a, b),
                  cx.where(cx.f.fn(base).d["span"]))
    # ... and it is looked for after the line ends have been brought to `\n`: a colon behind a lone CR is a continuation
    # marker too
    for name in sorted(cx.f.lib["fns"]):
        if not name.startswith("<T as token::Tokenize>::"):
            continue
        f = cx.f.fn(name)
        crs, conts = [], []
        for bb, t in f.calls():
            if (f.callee(t) or "").rsplit("::", 1)[-1] == "replace" and len(f.arg_terms(bb)) == 3:
                pat = mir.strip_refs(f.arg_terms(bb)[1])
                if pat[0] == "const" and isinstance(pat[2], tuple) and len(pat[2]) == 2:
                    pv = str(pat[2][1])
                    if pv == "\r":
                        crs.append(bb)
                    if pv.startswith("\n") and pv.rstrip(" ").endswith(":"):
                        conts.append((bb, t))
        for cb, t in conts:
            if crs:
                n += 1
                okc = all(f.dominates(x, cb) for x in crs)
                cx.ob("R-NORMALIZE-KEEPS-SEPARATORS", "%s/continuation-after-line-ends" % name.rsplit("::", 1)[-1], okc,
                      "continuation colons are looked for after the line ends were cleaned up" if okc else
                      "%s looks for continuation colons before it has turned lone carriage returns into line feeds: with CR "
                      "line ends the colon stays in the text and is glued to its neighbours" % name, cx.where(t["span"]))
    if n == 0:
        cx.ob("R-NORMALIZE-KEEPS-SEPARATORS", "normalize/none", True, "normalize trims no characters off the ends of the text",
              nontrivial=False)
    cx.count("R-NORMALIZE-KEEPS-SEPARATORS", "functions", 1 if cx.f.has_fn(base) else 0)


@rule("R-FLAG-CASEFOLD", ["C03", "C16"])
def r_flag_casefold(cx):
    """A flag given in its `=true` form is on whatever the case of the word (`inv=True`, `inv = TRUE`): the elementary
    operators' Flag parameters fold the case before comparing, and so does every other place that looks at the value of
    `inv` or `omit_*` - the macro branch of Op::op included, or `my:macro inv=True` is instantiated *not* inverted without
    any error while `addone inv=True` is. Every comparison of a parameter value with the literal `true` in op:: and
    token:: has a lower-cased left-hand side (or ignores the case itself)."""
    n = 0
    for name in sorted(cx.f.lib["fns"]):
        if "::tests::" in name or not name.startswith(("op::", "token::", "<T as token::", "inner_op::pipeline")):
            continue
        f = cx.f.fn(name)
        k = 0
        for bb, t in f.calls():
            c = f.callee(t) or ""
            tail = c.rsplit("::", 1)[-1]
            if tail not in ("eq", "ne", "eq_ignore_ascii_case"):
                continue
            a = f.arg_terms(bb)
            lits = [i for i, x in enumerate(a) if K._const_key(x) == "true"]
            if len(a) != 2 or len(lits) != 1:
                continue
            n += 1
            other = a[1 - lits[0]]
            if other[0] == "refplace" and not other[3]:
                other = f.local_value(other[2], f.end_point(bb))
            folded = tail == "eq_ignore_ascii_case"
            hit = []
            mir.walk(other, lambda y: (hit.append(1) if y[0] == "call" and isinstance(y[1], str) and
                                       y[1].rsplit("::", 1)[-1] in ("to_lowercase", "to_ascii_lowercase", "make_ascii_lowercase") else None) or True)
            folded = folded or bool(hit)
            cx.ob("R-FLAG-CASEFOLD", "%s/true%d" % (name, k), folded,
                  "%s compares a lower-cased value with `true`" % name if folded else
                  "%s compares a parameter value with `true` without folding its case: `inv=True` is taken for `not given` "
                  "here, while the other places that read the flag accept it" % name, cx.where(t["span"]))
            k += 1
    cx.count("R-FLAG-CASEFOLD", "comparisons", n)
