"""Per-tuple loop rules: R-LOOP-CARRIED, R-TUPLE-INDEX, R-COUNT-OR-NAN, R-ELEMENT-PRESERVE, R-NO-SHARED-STATE."""
import re

import mir
import pertuple
from pertuple import mentions_loopphi, is_cs_call, READS, WRITES
from rulebase import rule, spec


# ---------------------------------------------------------------------------------------------------------------------
# helpers on terms

def is_carry(t, h, l):
    return t[0] in ("loopphi", "phi") and t[1] == (h, l)


def same_value(a, b):
    if a == b:
        return True
    if a[0] in ("loopphi", "phi") and b[0] in ("loopphi", "phi") and a[1] == b[1]:
        return True
    return False


def leaves(t, h, depth=0):
    """flatten joins inside one iteration (phi nodes that are not the header's)"""
    if t[0] == "phi" and t[1][0] != h and depth < 30:
        out = []
        for o in t[2]:
            out.extend(leaves(o, h, depth + 1))
        return out
    return [t]


def upd_chain(t):
    """-> (base, [(path, value)...]) following upd nodes (outermost last)"""
    ups = []
    while t[0] == "upd":
        ups.append((t[2], t[3]))
        t = t[1]
    ups.reverse()
    return t, ups


def is_const_num(t, val=None):
    if t[0] != "const":
        return False
    v = t[2]
    if isinstance(v, bool):
        return False
    if isinstance(v, int):
        return val is None or v == val
    if isinstance(v, tuple) and v[0] == "float":
        try:
            return val is None or float(v[1]) == val
        except ValueError:
            return False
    return False


def is_nan_const(t):
    if t[0] == "const":
        v = t[2]
        if isinstance(v, tuple) and v[0] == "float" and v[1] == "NaN":
            return True
        if isinstance(v, tuple) and v[0] == "path" and v[1].endswith("::NAN"):
            return True
    return False


def header_phi(f, h, l):
    d = f.phi_def(("loopphi", (h, l)))
    if d[0] == "phi" and d[1] == (h, l):
        return d, f.header_preds(h)
    return None, None


def carried_locals(f, lp):
    return f.loop_carried(lp.header)


def counter_locals(f, lp):
    """carried locals whose every latch leaf is the carry itself or carry + 1"""
    h = lp.header
    out = set()
    for l in carried_locals(f, lp):
        v, preds = header_phi(f, h, l)
        ok = True
        inc = False
        for p, o in zip(preds, v[2]):
            if p not in lp.body:
                continue
            for lf in leaves(o, h):
                if is_carry(lf, h, l):
                    continue
                if lf[0] == "bin" and lf[1] == "Add" and is_carry(lf[2], h, l) and is_const_num(lf[3], 1):
                    inc = True
                    continue
                ok = False
        if ok and inc and f.local_ty(l) in ("usize", "i32", "u32", "u64", "i64"):
            out.add(l)
    return out


def array_len(ty):
    m = re.match(r"^\[.*; (\d+)\]$", ty)
    return int(m.group(1)) if m else None


# ---------------------------------------------------------------------------------------------------------------------

def sink_terms(pt):
    """terms that decide what is written for the current tuple: arguments of the writes and every branch condition
    inside the loop body"""
    f = pt.f
    out = []
    for bb, m in pt.writes:
        args = f.arg_terms(bb)
        for a in args[2:]:
            if a[0] in ("ref", "refplace"):
                out.append(("write %s" % m, bb, f._deref(a, f.end_point(bb))))
            else:
                out.append(("write %s" % m, bb, a))
    for bb in sorted(pt.lp.body):
        t = f.term(bb)
        if t["k"] == "switch" and bb != pt.header:
            out.append(("branch", bb, f.operand(t["discr"], f.end_point(bb))))
    return out


def _is_loop_invariant(f, lp, t):
    """no loop-carried value and no call executed inside the loop body occurs in t"""
    bad = []

    def visit(x):
        if x[0] in ("loopphi", "phi") and isinstance(x[1], tuple) and x[1][0] == lp.header:
            bad.append(x)
        if x[0] == "call" and isinstance(x[3], int) and x[3] in lp.body:
            bad.append(x)
        return True

    mir.walk(t, visit)
    return not bad


def _reach_skipping_invariant_sides(f, lp, start, defblocks):
    """blocks reachable from start without passing a block of defblocks or the header; at a branch on a loop-invariant
    condition only the sides from which a definition is still reachable are followed (the other side is a mode of the
    whole call, not of this tuple)"""
    seen = set()
    st = [start]
    avoid = set(defblocks) | {lp.header}
    while st:
        x = st.pop()
        if x in seen or x in avoid or x not in lp.body:
            continue
        seen.add(x)
        t = f.term(x)
        succs = list(f.succ[x])
        if t["k"] == "switch" and _is_loop_invariant(f, lp, f.operand(t["discr"], f.end_point(x))):
            keep = [s for s in succs if f.reach_from([s], avoid=[lp.header]) & set(defblocks)]
            if keep:
                succs = keep
        st.extend(succs)
    return seen


TUPLE_READS = ("get_coord", "xy", "xyz", "xyzt")


def _tuple_atoms(t):
    """which elements of the operand tuple a term reads: {0, 1, 2, 3} or 'all' for a tuple used whole"""
    out = set()

    def v(x):
        if x[0] == "proj" and isinstance(x[2], tuple) and x[2][0] in ("elem", "f") and len(x[2]) > 1 and isinstance(x[2][1], int):
            b = mir.strip_refs(x[1])
            if b[0] == "call" and isinstance(b[1], str) and b[1].rsplit("::", 1)[-1] in TUPLE_READS:
                out.add(x[2][1])
                return False
        if x[0] == "call" and isinstance(x[1], str) and x[1].rsplit("::", 1)[-1] in TUPLE_READS:
            out.add("all")
            return False
        return True
    mir.walk(t, v)
    return out


def memo_guard(f, lp, l, exclude=frozenset()):
    """Recognise the memo idiom for carried local l of loop lp. Returns (ok, reason)."""
    h = lp.header
    v, preds = header_phi(f, h, l)
    if v is None:
        return False, "no header phi"
    entry_ops = [o for p, o in zip(preds, v[2]) if p not in lp.body]
    latch_ops = [o for p, o in zip(preds, v[2]) if p in lp.body]
    has_carry = False
    for o in latch_ops:
        # the value handed to the next tuple comes out of an inner loop that started from the carried value
        # (a budget or counter shared by all tuples): not a memo, whatever its shape
        if not any(is_carry(lf, h, l) for lf in leaves(o, h)) and o[0] == "loopphi" and o[1][0] != h and \
                l in mentions_loopphi(o, h, f):
            return False, "%s is carried on through an inner loop from one tuple to the next (it is not re-initialised " \
                          "per tuple)" % f.lname(l)
        for lf in leaves(o, h):
            if is_carry(lf, h, l):
                has_carry = True
                continue
            base, ups = upd_chain(lf)
            for path, val in ups:
                ms = mentions_loopphi(val, h) - exclude
                if ms:
                    return False, "the value assigned to %s in the loop depends on loop-carried %s (accumulates over tuples)" % (
                        f.lname(l), ", ".join(sorted(f.lname(x) for x in ms)))
            if ups:
                if is_carry(base, h, l) or (base[0] == "phi" and base[1] == (h, l)):
                    n = array_len(f.local_ty(l))
                    elems = {p[0][1] for p, _ in ups if p and len(p) == 1 and p[0][0] == "elem" and len(p[0]) == 2}
                    if n is None or elems != set(range(n)):
                        return False, "only part of %s is reassigned; the rest is carried from earlier tuples" % f.lname(l)
                elif mentions_loopphi(base, h) - exclude:
                    return False, "%s is rebuilt from a loop-carried value" % f.lname(l)
            else:
                ms = mentions_loopphi(base, h) - exclude
                if ms:
                    return False, "the value assigned to %s in the loop depends on loop-carried %s (accumulates over tuples)" % (
                        f.lname(l), ", ".join(sorted(f.lname(x) for x in ms)))
    if not has_carry:
        return True, "redefined from tuple-local values on every iteration path"
    # conditional definition: needs the memo guard  `key_i != m`  with  m := key_i  under the same guard
    defblocks = {r[0] for r in f.defs().get(l, ()) if r[0] in lp.body}
    for bb in sorted(lp.body):
        t = f.term(bb)
        if t["k"] != "switch" or bb == h:
            continue
        c = f.operand(t["discr"], f.end_point(bb))
        if c[0] != "bin" or c[1] not in ("Ne", "Eq"):
            continue
        sides = [c[2], c[3]]
        for a, b in (sides, sides[::-1]):
            ma = mentions_loopphi(a, h) - exclude
            if ma or not (b[0] == "loopphi" and b[1][0] == h):
                continue
            m = b[1][1]
            # successor taken when key differs from memo
            if c[1] == "Ne":
                diff = t["otherwise"]
            else:
                diff = t["targets"][0][1] if t["targets"] and t["targets"][0][0] == 0 else None
            if diff is None:
                continue
            if not all(f.dominates(diff, d) for d in defblocks):
                continue
            # whenever the key differs, the cached value must be refreshed: no path from the 'differs' successor
            # to the end of the iteration (or to a write) may bypass the definitions of l
            reach = _reach_skipping_invariant_sides(f, lp, diff, defblocks)
            bypass = any(h in f.succ[b] for b in reach) or any(
                f.term(b)["k"] == "call" and is_cs_call(f, f.term(b)) in WRITES for b in reach)
            if bypass:
                continue
            # m := key under the same guard, and only there
            mv, mpreds = header_phi(f, h, m)
            if mv is None:
                continue
            mdefs = {r[0] for r in f.defs().get(m, ()) if r[0] in lp.body}
            if not mdefs or not all(f.dominates(diff, d) for d in mdefs):
                continue
            okm = True
            for p, o in zip(mpreds, mv[2]):
                if p in lp.body:
                    for lf in leaves(o, h):
                        if not (is_carry(lf, h, m) or lf == a):
                            okm = False
                else:
                    if l != m and not is_nan_const(o):
                        okm = False
                    if l == m and not is_nan_const(o):
                        okm = False
            if okm:
                # the memo is sound only if the cached value depends on the tuple through the key alone
                want = _tuple_atoms(a)
                for o in latch_ops:
                    for lf in leaves(o, h):
                        if is_carry(lf, h, l):
                            continue
                        extra = _tuple_atoms(lf) - want
                        if extra and l != m:
                            return False, "%s is cached under the key %s but computed from other elements of the tuple (%s): " \
                                          "tuples that agree in the key and differ there get the previous tuple's value" % (
                                              f.lname(l), f.lname(m), ", ".join(sorted(str(x) for x in extra)))
                return True, "memo idiom: recomputed from the tuple's own key whenever it differs from %s" % f.lname(m)
    return False, "%s is assigned on some iterations only and carried over otherwise, without the memo guard " \
                  "(key != memo; memo := key; initial memo NaN)" % f.lname(l)


@rule("R-LOOP-CARRIED", ["C02", "C07", "C10", "C12"])
def r_loop_carried(cx):
    pts = pertuple.all_per_tuple_loops(cx)
    if cx.pid == "C07":
        pts = [pt for pt in pts if "helmert" in pt.f.name or "molodensky" in pt.f.name]
    cx.count("R-LOOP-CARRIED", "loops", len(pts))
    ncar = 0
    for pt in pts:
        f, h = pt.f, pt.header
        exclude = set(pt.iter_locals) | counter_locals(f, pt.lp)
        carried = {}
        for what, bb, term in sink_terms(pt):
            for l in mentions_loopphi(term, h, f):
                if l in exclude:
                    continue
                carried.setdefault(l, []).append((what, bb))
        where = cx.where(f.term(h)["span"])
        if not carried:
            cx.ob("R-LOOP-CARRIED", "%s/loop@%s/none" % (f.name, _loop_id(pt)), True,
                  "every value written and every branch in the per-tuple loop depends only on loop invariants and "
                  "the current tuple", where)
            continue
        for l, uses in sorted(carried.items()):
            ncar += 1
            ok, why = memo_guard(f, pt.lp, l, frozenset(exclude))
            cx.ob("R-LOOP-CARRIED", "%s/loop@%s/%s" % (f.name, _loop_id(pt), f.lname(l)), ok,
                  ("loop-carried `%s` reaches %s: %s" % (f.lname(l), uses[0][0], why)) if ok else
                  ("state carried between tuples: `%s` reaches a %s of the per-tuple loop, and %s; a tuple's result "
                   "then depends on the tuples before it" % (f.lname(l), uses[0][0], why)), where)
    cx.count("R-LOOP-CARRIED", "carried_cells", ncar)


def _loop_id(pt):
    """stable discriminator of a loop inside its function: ordinal among the function's per-tuple loops"""
    pts = [p for p in pertuple.per_tuple_loops(pt.f)]
    for n, p in enumerate(pts):
        if p.header == pt.header:
            return str(n)
    return "?"


# ---------------------------------------------------------------------------------------------------------------------
# R-COUNT-OR-NAN: per-iteration typestate (written, counted)

NAN_CTORS = ("coordinate::coor4d::Coor4D::nan", "coordinate::coor3d::Coor3D::nan", "coordinate::coor2d::Coor2D::nan",
             "coordinate::coor32::Coor32::nan")


def classify_write(f, bb, m):
    """'nan' if the write stores NaN by construction (whole tuple or an element explicitly set to NaN), else 'value'"""
    args = f.arg_terms(bb)
    vals = args[2:]
    if m == "set_coord":
        v = f._deref(vals[0], f.end_point(bb))
        return "nan" if _nanish(v) else "value"
    if all(is_nan_const(a) for a in vals):
        return "nan"
    return "value"


def _nanish(v, depth=0):
    v = mir.strip_refs(v)
    if v[0] == "call" and isinstance(v[1], str) and v[1] in NAN_CTORS:
        return True
    if v[0] == "upd":
        base, ups = upd_chain(v)
        if any(is_nan_const(val) for _, val in ups):
            return True
        return _nanish(base, depth + 1) if depth < 5 else False
    if v[0] == "agg" and v[2] and all(is_nan_const(x) for x in v[2]):
        return True
    if v[0] == "call" and isinstance(v[1], str) and v[1].endswith("::raw") and v[2] and all(is_nan_const(x) for x in v[2]):
        return True
    if v[0] == "phi" and depth < 5:
        return all(_nanish(o, depth + 1) for o in v[2])
    return False


def nan_test_edges(f, bb):
    """if block bb branches on `<iter>.any(|c| c.is_nan())` (possibly negated): returns (succ_when_nan, tested_term)"""
    t = f.term(bb)
    if t["k"] != "switch":
        return None
    c = f.operand(t["discr"], f.end_point(bb))
    neg = False
    while c[0] == "un" and c[1] == "Not":
        neg = not neg
        c = c[2]
    if c[0] != "call" or not isinstance(c[1], str) or not (c[1].endswith("::any") or c[1].endswith("::all")):
        return None
    clos = c[2][1] if len(c[2]) > 1 else None
    if clos is None or clos[0] != "agg" or not (isinstance(clos[1], tuple) and clos[1][0] == "closure"):
        return None
    cname = clos[1][1]
    if not f.facts.has_fn(cname):
        return None
    cf = f.facts.fn(cname)
    if not any((cf.callee(tt) or "").endswith("f64>::is_nan") or (cf.callee(tt) or "").endswith("::is_nan")
               for _, tt in cf.calls()):
        return None
    # does the closure answer `is NaN` or `is not NaN`?
    import elems as E
    rt = E.return_term(cf)
    closure_negated = rt is not None and rt[0] == "un" and rt[1] == "Not"
    if c[1].endswith("::any"):
        if closure_negated:
            return None          # any(|c| !c.is_nan()): "some element is a number" - not a NaN test of the tuple
    else:
        if not closure_negated:
            return None          # all(|c| c.is_nan())
        neg = not neg            # all(|c| !c.is_nan()) == !any(|c| c.is_nan())
    true_succ = t["otherwise"]
    false_succ = t["targets"][0][1] if t["targets"] else None
    nan_succ = false_succ if neg else true_succ
    return nan_succ, c[2][0]


def count_or_nan_states(pt, counters):
    """forward set-of-states dataflow over one iteration of the per-tuple loop.
    state = (last_write_site or None, kind none|value|nan, counted 0|1|2, nanknown 0|1)"""
    f, lp, h = pt.f, pt.lp, pt.header
    wsites = {bb: n for n, (bb, m) in enumerate(sorted(pt.writes))}
    wmeth = dict(pt.writes)
    ht = f.term(h)
    # the body entry is the successor of the header's `next` call chain where the discriminant is Some
    start_blocks = [s for s in _some_successors(f, lp)]
    init = (None, "none", 0, 0)
    inn = {}
    work = []
    for s in start_blocks:
        inn.setdefault(s, set()).add(init)
        work.append(s)
    latch_states = {}
    exit_states = {}
    while work:
        bb = work.pop()
        states = set(inn.get(bb, ()))
        # statements: counter increments
        out = set()
        for st in states:
            site, kind, cnt, nk = st
            for i, s in enumerate(f.stmts(bb)):
                if s["k"] == "assign" and not s["place"]["p"] and s["place"]["l"] in counters:
                    # every in-loop definition of a counter local is `c = c + 1` (see counter_locals)
                    cnt = min(cnt + 1, 2)
            t = f.term(bb)
            if t["k"] == "call" and bb in wsites:
                k = classify_write(f, bb, wmeth[bb])
                site, kind = wsites[bb], k
            out.add((site, kind, cnt, nk))
        nt = nan_test_edges(f, bb)
        for sx in f.succ[bb]:
            sts = out
            if nt is not None and sx == nt[0]:
                sts = {(a, b, c, 1) for (a, b, c, d) in out}
            if sx == h:
                latch_states.setdefault(bb, set()).update(sts)
                continue
            if sx not in lp.body:
                exit_states.setdefault((bb, sx), set()).update(sts)
                continue
            cur = inn.setdefault(sx, set())
            if not sts <= cur:
                cur |= sts
                work.append(sx)
    return latch_states, exit_states, wsites


def _some_successors(f, lp):
    """blocks entered when the header's iterator yields an item"""
    h = lp.header
    # follow header -> (call next) -> switch on discriminant; Some = value 1
    bb = h
    for _ in range(4):
        t = f.term(bb)
        if t["k"] == "switch":
            for v, tgt in t["targets"]:
                if v == 1 and tgt in lp.body:
                    return [tgt]
            return [s for s in f.succ[bb] if s in lp.body]
        ss = [s for s in f.succ[bb] if s in lp.body]
        if len(ss) != 1:
            return ss
        bb = ss[0]
    return []


def return_terms_after(f, from_blocks):
    """terms returned on paths starting at the given blocks"""
    out = []
    reach = f.reach_from(from_blocks)
    for bb in sorted(reach):
        if f.term(bb)["k"] == "return":
            out.append((bb, f.local_value(0, f.end_point(bb))))
    return out


def _is_len_term(t, depth=0):
    t = mir.strip_refs(t)
    if t[0] == "call" and isinstance(t[1], str) and t[1].endswith("CoordinateSet::len"):
        return True
    if t[0] in ("phi",) and depth < 6:
        return all(_is_len_term(o, depth + 1) for o in t[2])
    return False


@rule("R-COUNT-OR-NAN", ["C10", "C08", "C02"])
def r_count_or_nan(cx):
    pts = pertuple.all_per_tuple_loops(cx)
    if cx.pid == "C08":
        pts = [pt for pt in pts if any(x in pt.f.name for x in ("gridshift", "deformation", "deflection"))]
    cx.count("R-COUNT-OR-NAN", "loops", len(pts))
    nstates = 0
    for pt in pts:
        f = pt.f
        if not pt.writes:
            continue
        counters = counter_locals(f, pt.lp)
        latch, exits, wsites = count_or_nan_states(pt, counters)
        where = cx.where(f.term(pt.header)["span"])
        lid = _loop_id(pt)
        allstates = set()
        for bb, sts in latch.items():
            allstates |= sts
        for e, sts in exits.items():
            allstates |= sts
        nstates += len(allstates)
        if cx.pid == "C02":
            # a counter is only ever advanced: a carried integer that some path advances by one is not set to a constant
            # on another path of the same loop (`successes = 1` forgets what was counted before the tuple)
            for l in carried_locals(f, pt.lp):
                if f.local_ty(l) not in ("usize", "i32", "u32", "u64", "i64"):
                    continue
                v, preds = header_phi(f, pt.lp.header, l)
                if v is None:
                    continue
                inc = const = False
                for p, o in zip(preds, v[2]):
                    if p not in pt.lp.body:
                        continue
                    for lf in leaves(o, pt.lp.header):
                        if lf[0] == "bin" and lf[1] == "Add" and is_carry(lf[2], pt.lp.header, l) and is_const_num(lf[3], 1):
                            inc = True
                        elif is_const_num(lf):
                            const = True
                if inc:
                    cx.ob("R-COUNT-OR-NAN", "%s/loop@%s/never-reset/%s" % (f.name, lid, f.lname(l)), not const,
                          "the count `%s` is only ever advanced" % f.lname(l) if not const else
                          "%s: the count `%s` is advanced on one path of the per-tuple loop and set to a constant on another: "
                          "what was counted before that tuple is forgotten, so the result depends on where in the set the "
                          "tuple stands" % (f.name, f.lname(l)), where)
            # count additivity: each iteration adds 0 or 1
            bad = [s for s in allstates if s[2] > 1]
            cx.ob("R-COUNT-OR-NAN", "%s/loop@%s/additive" % (f.name, lid), not bad,
                  "each iteration of the per-tuple loop adds at most one to the success count" if not bad else
                  "an iteration of the per-tuple loop can add more than one to the success count", where)
            continue
        if counters:
            bad = {}
            for bb, sts in latch.items():
                for (site, kind, cnt, nk) in sts:
                    legal = (kind in ("value", "none") and cnt == 1) or (kind == "nan" and cnt == 0) or \
                            (kind == "value" and cnt == 0 and nk == 1)
                    if not legal:
                        bad.setdefault((site, kind, cnt), []).append(bb)
            if not bad:
                cx.ob("R-COUNT-OR-NAN", "%s/loop@%s/ok" % (f.name, lid), True,
                      "on every path through one iteration the tuple is either (written or passed) and counted once, "
                      "or overwritten with NaN and not counted (%d path states)" % len(allstates), where)
            for (site, kind, cnt), bbs in sorted(bad.items(), key=lambda x: str(x)):
                lines = sorted({f.term(b)["span"]["line"] for b in bbs})
                desc = {"none": "left unchanged", "value": "written with a value", "nan": "overwritten with NaN"}[kind]
                cdesc = {0: "not counted", 1: "counted", 2: "counted more than once"}[cnt]
                cx.ob("R-COUNT-OR-NAN", "%s/loop@%s/write%s:%s/count%d" % (
                    f.name, lid, "-" if site is None else site, kind, cnt), False,
                      "a path through one iteration ends with the tuple %s and %s (iteration ends at line(s) %s)" % (
                          desc, cdesc, ",".join(map(str, lines))), where)
        else:
            # no counter in this loop: what the function returns after it decides
            kinds = {s[1] for s in allstates}
            exit_targets = [e[1] for e in exits]
            rets = return_terms_after(f, exit_targets) if exit_targets else []
            if "nan" in kinds and kinds <= {"nan"}:
                bad = [bb for bb, t in rets if not is_const_num(t, 0)]
                cx.ob("R-COUNT-OR-NAN", "%s/loop@%s/nan-loop-returns-0" % (f.name, lid), not bad,
                      "the loop marks every tuple with NaN and every return after it reports 0 successes" if not bad
                      else "the loop marks every tuple with NaN but a return after it does not report 0", where)
            elif "nan" in kinds:
                cx.ob("R-COUNT-OR-NAN", "%s/loop@%s/mixed-without-counter" % (f.name, lid), False,
                      "the loop overwrites some tuples with NaN but keeps no success counter, so failed tuples are "
                      "counted as successes", where)
            else:
                bad = [bb for bb, t in rets if is_const_num(t, 0)]
                cx.ob("R-COUNT-OR-NAN", "%s/loop@%s/all-counted" % (f.name, lid), not bad,
                      "the loop writes a value for every tuple and no return after it reports 0" if not bad else
                      "the loop writes values for all tuples but a return after it reports 0 successes", where)
    cx.count("R-COUNT-OR-NAN", "path_states", nstates)


# ---------------------------------------------------------------------------------------------------------------------
# R-ELEMENT-PRESERVE

def _input_term(pt):
    """the get_coord(operands, i) call term of this loop, if the loop reads whole tuples"""
    f = pt.f
    for bb, m in pt.reads:
        if m == "get_coord":
            return f.call_term(f.term(bb), bb)
    return None


def changed_elements(pt, bb, m):
    """set of tuple elements that the write at bb may change relative to the tuple read in the same iteration;
    None = NaN write (exempt)"""
    import elems as E
    f = pt.f
    if m == "set_xy":
        vals = f.arg_terms(bb)[2:]
        return None if all(is_nan_const(v) for v in vals) else {0, 1}
    if m == "set_xyz":
        return {0, 1, 2}
    if m == "set_xyzt":
        return {0, 1, 2, 3}
    point = f.end_point(bb)
    v = f._deref(f.arg_terms(bb)[2], point)
    if _nanish(v) and _whole_nan(v):
        return None
    vs = mir.strip_refs(v)
    if vs[0] == "call" and isinstance(vs[1], tuple) and vs[1] and vs[1][0] == "fnptr":
        # the tuple written is the result of a function value handed in by the caller: not judged here
        return "indirect"
    inp = _input_term(pt)
    es = E.elems(f, v, point)
    out = set()
    for k in range(4):
        if inp is not None and E.same_elem(es[k], ("proj", inp, ("elem", k)), f, point):
            continue
        out.add(k)
    return out


def _whole_nan(v):
    v = mir.strip_refs(v)
    return v[0] == "call" and isinstance(v[1], str) and v[1] in NAN_CTORS


@rule("R-ELEMENT-PRESERVE", ["C10", "C07"])
def r_element_preserve(cx):
    reg = cx.registry()
    ops = spec("operators.json")["operators"]
    n_writes = 0
    n_ops = 0
    seen_fn = {}
    for cpath, c in sorted(reg.ctors.items()):
        for name in c.names:
            sp = ops.get(name)
            if sp is None:
                cx.ob("R-ELEMENT-PRESERVE", "%s/unclassified" % name, False,
                      "operator %s is registered but has no element class in spec/operators.json (review needed)" % name)
                continue
            if cx.pid == "C07" and name not in ("helmert", "molodensky"):
                continue
            if sp["elements"] == "free" or not c.fwd:
                continue
            allowed = set(sp["elements"])
            n_ops += 1
            fns = reg.reachable_from([c.fwd, c.inv], follow_virtual=False)
            for fname in sorted(fns):
                f = cx.f.fn(fname)
                for pt in pertuple.per_tuple_loops(f):
                    for wn, (bb, m) in enumerate(sorted(pt.writes)):
                        ch = changed_elements(pt, bb, m)
                        n_writes += 1
                        where = cx.where(f.term(bb)["span"])
                        key = "%s/%s/loop@%s/write%d" % (name, fname, _loop_id(pt), wn)
                        if ch is None:
                            cx.ob("R-ELEMENT-PRESERVE", key, True, "%s: NaN write (failure marker)" % name, where,
                                  nontrivial=False)
                            continue
                        if ch == "indirect":
                            cx.ob("R-ELEMENT-PRESERVE", key, True,
                                  "%s: the tuple written is computed by a function value handed in by the caller (not judged)" % name,
                                  where, nontrivial=False)
                            continue
                        extra = ch - allowed
                        cx.ob("R-ELEMENT-PRESERVE", key, not extra,
                              "%s: %s can change elements %s only (operator works on %s)" % (
                                  name, m, sorted(ch), sorted(allowed)) if not extra else
                              "%s works on elements %s, but this %s can change element(s) %s of the tuple (not a copy "
                              "of the same element of the input)" % (name, sorted(allowed), m, sorted(extra)), where)
    cx.count("R-ELEMENT-PRESERVE", "writes", n_writes)
    cx.count("R-ELEMENT-PRESERVE", "operators", n_ops)


# ---------------------------------------------------------------------------------------------------------------------
# R-TUPLE-LOOP-COMPLETE: a per-tuple loop visits every tuple, and touches only its own tuple

SET_WIDE = ("stomp",)


@rule("R-TUPLE-LOOP-COMPLETE", ["C02", "C10", "C06", "C14"])
def r_tuple_loop_complete(cx):
    """The only way out of a per-tuple loop is the exhaustion of its iterator: a `break` or `return` in the body leaves
    the tuples after the current one untransformed, uncounted and looking valid (their fate then depends on a
    neighbour). And the body writes only the current tuple: no set-wide overwrite (CoordinateSet::stomp) in it."""
    pts = pertuple.all_per_tuple_loops(cx)
    n = 0
    for pt in pts:
        f, lp = pt.f, pt.lp
        hs = {lp.header} | {s for s in f.succ[lp.header] if s in lp.body}
        odd = []
        for (a, b) in lp.exits:
            if a in hs:
                continue
            t = f.term(a)
            if f.term(b)["k"] in ("unreachable", "resume", "abort"):
                continue
            if t["k"] == "call" and b != t.get("target"):
                continue   # unwinding
            if t["k"] in ("assert", "drop"):
                continue
            odd.append((a, b))
        wide = [bb for bb, t in f.calls() if bb in lp.body and (f.callee(t) or "").rsplit("::", 1)[-1] in SET_WIDE]
        n += 1
        where = cx.where(f.term(odd[0][0])["span"]) if odd else (
            cx.where(f.term(wide[0])["span"]) if wide else cx.where(f.term(lp.header)["span"]))
        ok = not odd and not wide
        cx.ob("R-TUPLE-LOOP-COMPLETE", "%s/loop@%s" % (f.name, _loop_id(pt)), ok,
              "the per-tuple loop of %s ends only when its iterator is exhausted and writes only the current tuple" % f.name
              if ok else
              ("the per-tuple loop of %s can be left before all tuples are visited (break/return in the body): the "
               "remaining tuples stay untransformed and uncounted, depending on a neighbouring tuple" % f.name if odd else
               "the per-tuple loop of %s overwrites the whole set (stomp) from inside the body: tuples already "
               "transformed are wiped because of a neighbour" % f.name), where)
    cx.count("R-TUPLE-LOOP-COMPLETE", "loops", n)


# ---------------------------------------------------------------------------------------------------------------------
# R-NAN-TRANSPARENT (C10): no NaN-swallowing operation on the data path of a per-tuple loop

NAN_SWALLOWERS = ("min", "max", "fmin", "fmax", "minimum_number", "maximum_number")


@rule("R-NAN-TRANSPARENT", ["C10"])
def r_nan_transparent(cx):
    """`a NaN input element produces NaN in every output element that depends on it`. Arithmetic and the elementary
    functions propagate NaN; f64::min and f64::max do not (they return the other operand). Inside the per-tuple loops
    of the operators no f64::min / f64::max is applied (f64::clamp, which propagates NaN, is the idiom for a roundoff
    guard)."""
    pts = pertuple.all_per_tuple_loops(cx)
    n = 0
    bad = 0
    for pt in pts:
        f = pt.f
        n += 1
        k = 0
        for bb, t in f.calls():
            if bb not in pt.lp.body:
                continue
            c = f.callee(t) or ""
            if "f64" in c and c.rsplit("::", 1)[-1] in NAN_SWALLOWERS:
                bad += 1
                cx.ob("R-NAN-TRANSPARENT", "%s/loop@%s/call%d" % (f.name, _loop_id(pt), k), False,
                      "%s applies %s inside its per-tuple loop: for a NaN operand it returns the other operand, so a NaN "
                      "coordinate is turned into a finite, valid looking result" % (f.name, c.rsplit("::", 2)[-1]),
                      cx.where(t["span"]))
                k += 1
    cx.ob("R-NAN-TRANSPARENT", "summary", True,
          "%d per-tuple loops contain no NaN-swallowing f64::min / f64::max" % n, nontrivial=n > 0)
    cx.count("R-NAN-TRANSPARENT", "loops", n)


_TUPLE_READS = ("get_coord", "xy", "xyz", "xyzt", "xyt")


@rule("R-NO-PEEK", ["C02"])
def r_no_peek(cx):
    """An operator treats every tuple on its own: it never looks at the tuple in a fixed position of the set to decide
    something for the others (a missing epoch in the first tuple taken as `the data has no time coordinate`, say). In the
    operator code (inner_op::, op::, grid::) no tuple of a coordinate set is read at a constant index - the index of a
    read is the induction value of the per-tuple loop, or comes in through a parameter."""
    n = 0
    for name in sorted(cx.f.lib["fns"]):
        if "::tests::" in name or not name.startswith(("inner_op::", "op::", "grid::")):
            continue
        f = cx.f.fn(name)
        k = 0
        for bb, t in f.calls():
            c = t.get("callee") or ""
            if not (c.startswith("coordinate::set::CoordinateSet::") and c.rsplit("::", 1)[-1] in _TUPLE_READS):
                continue
            a = f.arg_terms(bb)
            if len(a) < 2:
                continue
            n += 1
            idx = mir.strip_refs(a[1])
            fixed = is_const_num(idx)
            if fixed or f.innermost_loop(bb) is None:
                cx.ob("R-NO-PEEK", "%s/read%d" % (name, k), not fixed,
                      "%s reads a tuple at an index handed in by its caller" % name if not fixed else
                      "%s reads the tuple at the fixed position %s of the set: what it finds there (e.g. a missing epoch) "
                      "decides for the whole set, so the result for a tuple depends on which tuple happens to stand there" % (
                          name, idx[2]), cx.where(t["span"]))
            k += 1
    cx.ob("R-NO-PEEK", "summary", True, "%d tuple reads in operator code examined" % n, nontrivial=False)
    cx.count("R-NO-PEEK", "tuple_reads", n)


@rule("R-COUNT-SPATIAL", ["C10", "C14"])
def r_count_spatial(cx):
    """cart converts the three spatial elements and passes the time through untouched: a tuple whose position converts is
    inside its domain and is counted, whatever its time element holds - 3D data reads as time = NaN, and every kp line
    without a time column does. The NaN test that guards the success count in cart_fwd / cart_inv looks at (at most) the
    three spatial results, never at the time element."""
    import guards
    n = 0
    for fn in ("inner_op::cart::cart_fwd", "inner_op::cart::cart_inv"):
        if not cx.f.has_fn(fn):
            cx.ob("R-COUNT-SPATIAL", "%s/anchor" % fn, False, "anchor-missing: %s" % fn)
            continue
        f = cx.f.fn(fn)
        k = 0
        for bb, i, st in f.all_stmts():
            if not (st["k"] == "assign" and st["rv"]["k"] == "bin" and str(st["rv"].get("op", "")).startswith("Add") and
                    f.innermost_loop(bb) is not None and "usize" in str(f.local_ty(st["place"]["l"]))):
                continue
            v = f.rvalue(st["rv"], (bb, i))
            if not (is_const_num(mir.strip_refs(v[3]), 1) and mir.strip_refs(v[2])[0] == "loopphi"):
                continue
            for at, tv in guards.branch_facts(f, bb):
                at = mir.strip_refs(at)
                if not (at[0] == "call" and isinstance(at[1], str) and at[1].rsplit("::", 1)[-1] in ("any", "all") and at[2]):
                    continue
                src = at[2][0]
                at_bb = bb
                for _ in range(6):
                    src = mir.strip_refs(src)
                    if src[0] == "refplace" and not src[3]:
                        # a temporary array: its value where the iterator over it was made
                        src = f.local_value(src[2], f.end_point(at_bb))
                    elif src[0] == "cast":
                        src = src[2]
                    elif src[0] == "call" and isinstance(src[1], str) and src[1].rsplit("::", 1)[-1] in ("iter", "into_iter") and src[2]:
                        if len(src) > 3 and isinstance(src[3], int):
                            at_bb = src[3]
                        src = src[2][0]
                    else:
                        break
                src = mir.strip_refs(src)
                n += 1
                bad = None
                if src[0] == "agg" and src[1] == "array":
                    timeish = [e for e in src[2] if mir.strip_refs(e)[0] == "proj" and mir.strip_refs(e)[2] == ("elem", 3)]
                    if len(src[2]) > 3 or timeish:
                        bad = "%d values, the time element among them" % len(src[2])
                elif src[0] == "call" and isinstance(src[1], str) and src[1].endswith("::index") and len(src[2]) == 2:
                    r = mir.strip_refs(src[2][1])
                    hi = r[2][-1] if r[0] == "agg" and r[2] else None
                    if not (hi is not None and is_const_num(mir.strip_refs(hi)) and mir.strip_refs(hi)[2] <= 3 and "RangeTo" in str(r[1])):
                        bad = "a slice that is not limited to the first three elements"
                elif (src[0] == "proj" and src[2] == ("f", 0)) or (src[0] == "refplace" and src[3] and src[3][-1] == ("f", 0)):
                    bad = "all four elements of the result"
                cx.ob("R-COUNT-SPATIAL", "%s/count%d" % (fn.rsplit("::", 1)[-1], k), bad is None,
                      "%s counts a tuple by its spatial results" % fn.rsplit("::", 1)[-1] if bad is None else
                      "%s counts a tuple only if %s are not NaN: a converted position with time = NaN (all 3D data) is reported "
                      "as unsuccessful" % (fn.rsplit("::", 1)[-1], bad), cx.where(st.get("span")))
                k += 1
    cx.count("R-COUNT-SPATIAL", "count_tests", n)
