"""Grid decoder rules (C15): R-BOUNDED-READ, R-DIV-GUARD, R-GRID-INVARIANT, R-LOOKUP-UNWRAP / R-UNWRAP-ORIGIN(grid),
R-ALLOC-BOUND, T-NTV2-OFFSETS."""
from fractions import Fraction

import affine as A
import consts
import mir
from rulebase import rule, spec

NTV2 = "grid::ntv2::"
LEN = ("sym", "LEN")  # the length of the file buffer


def ntv2_fns(cx):
    return [n for n in cx.f.fn_names() if n.startswith(NTV2) and "{closure" not in n]


def is_len_term(t):
    """length of a byte slice: [u8]::len(..) call or PtrMetadata of a slice pointer"""
    t = mir.strip_refs(t)
    if t[0] == "call" and isinstance(t[1], str) and t[1].endswith("<impl [T]>::len"):
        return True
    if t[0] == "un" and t[1] == "PtrMetadata":
        return True
    return False


def aff(t):
    """affine form with every buffer-length term folded into the LEN symbol"""
    coeffs, c = A.affine(t)
    out = {}
    for s, k in coeffs.items():
        key = LEN if is_len_term(s) else s
        out[key] = out.get(key, Fraction(0)) + k
    return ({s: k for s, k in out.items() if k != 0}, c)


def raw_requirements(f):
    """[(bb, affine form E, what)] meaning  E <= LEN  must hold when bb executes (reads of the byte buffer)"""
    out = []
    for bb, t in f.calls():
        c = f.callee(t) or ""
        if "slice::index" in c and c.endswith("::index"):
            args = f.arg_terms(bb)
            if len(args) == 2 and args[1][0] == "agg" and isinstance(args[1][1], tuple) and args[1][1][1].endswith("Range"):
                end = args[1][2][1]
                out.append((bb, aff(end), "slice [..%s]" % mir.show(end, maxd=3)))
    for bb in sorted(f.reachable()):
        t = f.term(bb)
        if t["k"] == "assert" and t["msg"] == "BoundsCheck":
            ln = f.operand(t["len"], f.end_point(bb))
            ix = f.operand(t["index"], f.end_point(bb))
            if is_len_term(ln):
                e = aff(ix)
                out.append((bb, (e[0], e[1] + 1), "index [%s]" % mir.show(ix, maxd=3)))
    return out


def guards(f):
    """[(dominating block, affine X, strict)] facts  X <= LEN (or X < LEN if strict) valid in blocks dominated by
    the given block; from tests `X > LEN` / `LEN < X` ... whose other branch the block lies on"""
    out = []
    for bb in sorted(f.reachable()):
        sw = f.term(bb)
        if sw["k"] != "switch":
            continue
        c = f.operand(sw["discr"], f.end_point(bb))
        if c[0] != "bin" or c[1] not in ("Gt", "Ge", "Lt", "Le"):
            continue
        l, r = c[2], c[3]
        op = c[1]
        if is_len_term(mir.strip_refs(l)) or _mentions_len(l):
            l, r = r, l
            op = {"Gt": "Lt", "Ge": "Le", "Lt": "Gt", "Le": "Ge"}[op]
        if not (_mentions_len(r)):
            continue
        # now: X op R  where R mentions LEN.  X, R affine
        x = A.sub(aff(l), aff(r))  # X - R  (contains -LEN)
        true_succ = sw["otherwise"]
        false_succ = sw["targets"][0][1] if sw["targets"] else None
        if op in ("Gt", "Ge"):
            # condition true = too long; the false successor knows  X - R <= 0 (Gt) or < 0 (Ge)
            if false_succ is not None:
                out.append((false_succ, x, op == "Ge"))
        else:
            # X < R true successor knows it
            out.append((true_succ, x, op == "Lt"))
    return out


def _mentions_len(t):
    found = []

    def visit(x):
        if is_len_term(x):
            found.append(1)
            return False
        return True

    mir.walk(t, visit)
    return bool(found)


def loop_bounds(f, sym):
    """if sym is the induction value of a `for i in a..b` loop, return (affine lower, affine upper-exclusive)"""
    if sym[0] != "proj":
        return None
    t = sym
    while t[0] == "proj":
        t = t[1]
    if t[0] != "call" or not isinstance(t[1], str) or not t[1].endswith("::next"):
        return None
    it = mir.strip_refs(t[2][0])
    # the iterator's value on loop entry: into_iter(Range[a, b]) possibly behind a loopphi
    seen = 0
    while it[0] in ("loopphi", "phi", "mod") and seen < 6:
        seen += 1
        if it[0] == "loopphi":
            d = f.phi_def(it)
            preds = f.header_preds(it[1][0])
            lp = [l for l in f.loops() if l.header == it[1][0]]
            ops = [o for p, o in zip(preds, d[2]) if lp and p not in lp[0].body] if d[0] == "phi" else []
            if len(ops) != 1:
                return None
            it = ops[0]
        elif it[0] == "mod":
            it = it[1]
        else:
            return None
    if it[0] == "call" and isinstance(it[1], str) and it[1].endswith("into_iter"):
        it = it[2][0]
    if it[0] == "agg" and isinstance(it[1], tuple) and it[1][1].endswith("Range") and len(it[2]) == 2:
        return aff(it[2][0]), aff(it[2][1])
    return None


def provable_nonpositive(f, d):
    """is the affine form d <= 0 for all values, using loop ranges for induction symbols?"""
    coeffs, c = d
    coeffs = dict(coeffs)
    for s in list(coeffs):
        if s == LEN:
            continue
        k = coeffs[s]
        lb = loop_bounds(f, s)
        if lb is None:
            continue
        lo, hi = lb
        # s <= hi - 1 (if k > 0),  s >= lo (if k < 0)
        del coeffs[s]
        bound = (hi[0], hi[1] - 1) if k > 0 else lo
        for s2, k2 in bound[0].items():
            coeffs[s2] = coeffs.get(s2, Fraction(0)) + k * k2
        c = c + k * bound[1]
    coeffs = {s: k for s, k in coeffs.items() if k != 0}
    return not coeffs and c <= 0


class BoundAnalysis:
    def __init__(self, cx):
        self.cx = cx
        self.memo = {}
        self.discharged = []
        self.stack = set()

    def requirements(self, name):
        """requirements of function `name` expressed over its own parameters: list of (affine over ('arg',n)/LEN, what)"""
        if name in self.memo:
            return self.memo[name]
        if name in self.stack:
            return []
        self.stack.add(name)
        f = self.cx.f.fn(name)
        reqs = []
        local = [(bb, e, what, name) for (bb, e, what) in raw_requirements(f)]
        # requirements inherited from callees
        for bb, t in f.calls():
            c = f.callee(t) or ""
            if c.startswith(NTV2) and self.cx.f.has_fn(c) and c != name:
                sub = self.requirements(c)
                if not sub:
                    continue
                args = f.arg_terms(bb)
                for (e, what, origin) in sub:
                    e2 = self._subst(f, e, args)
                    if e2 is not None:
                        local.append((bb, e2, what, origin))
        gs = guards(f)
        for (bb, e, what, origin) in local:
            ok = False
            for (gb, x, strict) in gs:
                if not f.dominates(gb, bb):
                    continue
                # fact: x <= 0 (x = X - LEN...) ; need e - LEN <= 0.   e - LEN - x <= 0 suffices
                d = A.sub((dict(e[0]), e[1]), ({LEN: Fraction(1)}, Fraction(0)))
                d = A.sub(d, x)
                if provable_nonpositive(f, d):
                    ok = True
                    break
            if ok:
                self.discharged.append((name, bb, what, origin))
                continue
            # can it be expressed over the parameters of f only?
            syms = [s for s in e[0] if s != LEN]
            if all(s[0] == "arg" or _is_arg_deref(s) for s in syms):
                reqs.append((e, what, origin))
            else:
                # try eliminating loop induction symbols by their range
                e3 = self._eliminate_loops(f, e)
                if e3 is not None and all(s == LEN or s[0] == "arg" or _is_arg_deref(s) for s in e3[0]):
                    reqs.append((e3, what, origin))
                else:
                    reqs.append((e, what + " (not expressible over the caller's arguments)", origin))
        self.stack.discard(name)
        self.memo[name] = reqs
        return reqs

    def _eliminate_loops(self, f, e):
        coeffs, c = dict(e[0]), e[1]
        for s in list(coeffs):
            lb = loop_bounds(f, s)
            if lb is None:
                continue
            k = coeffs.pop(s)
            lo, hi = lb
            bound = (hi[0], hi[1] - 1) if k > 0 else lo
            for s2, k2 in bound[0].items():
                coeffs[s2] = coeffs.get(s2, Fraction(0)) + k * k2
            c += k * bound[1]
        return ({s: k for s, k in coeffs.items() if k != 0}, c)

    def _subst(self, f, e, args):
        coeffs, c = {}, e[1]
        for s, k in e[0].items():
            if s == LEN:
                coeffs[LEN] = coeffs.get(LEN, Fraction(0)) + k
                continue
            t = None
            if s[0] == "arg" and s[1] - 1 < len(args):
                t = args[s[1] - 1]
            elif _is_arg_deref(s):
                base = s
                t = None
            if t is None:
                return None
            a2, c2 = aff(t)
            for s2, k2 in a2.items():
                coeffs[s2] = coeffs.get(s2, Fraction(0)) + k * k2
            c += k * c2
        return ({s: k for s, k in coeffs.items() if k != 0}, c)


def _is_arg_deref(s):
    return False


def _stable(f, e):
    """position-free rendering of an affine form: constant + symbols named by source variable where possible"""
    names = []
    for sym, k in e[0].items():
        if sym == LEN:
            nm = "LEN"
        elif sym[0] in ("loopphi", "phi") and isinstance(sym[1], tuple):
            nm = f.lname(sym[1][1])
        elif sym[0] == "arg":
            nm = "arg%d" % sym[1]
        else:
            nm = "expr"
        names.append("%s*%s" % (k, nm))
    return "[%s+%s]" % (e[1], ",".join(sorted(names)))


@rule("R-BOUNDED-READ", ["C15"])
def r_bounded_read(cx):
    ba = BoundAnalysis(cx)
    entries = [n for n in ntv2_fns(cx) if cx.f.lib["fns"][n].get("vis", "").startswith("Public") and
               n.startswith("grid::ntv2::Ntv2Grid::")]
    cx.count("R-BOUNDED-READ", "entry_points", len(entries))
    nreq = 0
    for name in sorted(entries):
        reqs = ba.requirements(name)
        f = cx.f.fn(name)
        seen = {}
        for (e, what, origin) in reqs:
            nreq += 1
            key = "%s/%s/%s" % (name, origin.split("::")[-1], what.split(" ")[0] + _stable(f, e))
            n = seen.get(key, 0)
            seen[key] = n + 1
            cx.ob("R-BOUNDED-READ", key + ("#%d" % n if n else ""), False,
                  "%s can read the file buffer out of bounds: %s in %s needs %s <= buffer length, and no dominating "
                  "comparison with the buffer length establishes it" % (name, what, origin, A.show(e)),
                  cx.where(f.d["span"]))
    for (name, bb, what, origin) in ba.discharged:
        f = cx.f.fn(name)
        nreq += 1
        cx.ob("R-BOUNDED-READ", "%s/%s/ok@%s" % (name, origin.split("::")[-1], what[:40]), True,
              "buffer read %s (from %s) is dominated in %s by a comparison with the buffer length that implies it is in "
              "bounds" % (what, origin, name), cx.where(f.term(bb)["span"]))
    cx.count("R-BOUNDED-READ", "read_requirements", nreq)


# ---------------------------------------------------------------------------------------------------------------------

def nonzero_guarded(f, bb, div):
    """is block bb dominated by the non-zero side of a test of term div against zero?"""
    for b2 in sorted(f.reachable()):
        sw = f.term(b2)
        if sw["k"] != "switch":
            continue
        c = f.operand(sw["discr"], f.end_point(b2))
        true_succ = sw["otherwise"]
        false_succ = sw["targets"][0][1] if sw["targets"] else None
        if c[0] == "bin" and c[1] in ("Eq", "Ne", "Gt", "Ge", "Lt", "Le"):
            x, k = c[2], A.const_int(c[3])
            if k is None:
                x, k = c[3], A.const_int(c[2])
                flip = {"Eq": "Eq", "Ne": "Ne", "Gt": "Lt", "Ge": "Le", "Lt": "Gt", "Le": "Ge"}[c[1]]
            else:
                flip = c[1]
            if k is None or x != div:
                continue
            nz = None
            if flip == "Eq" and k == 0:
                nz = false_succ
            elif flip == "Ne" and k == 0:
                nz = true_succ
            elif flip == "Gt" and k >= 0:
                nz = true_succ
            elif flip == "Ge" and k >= 1:
                nz = true_succ
            elif flip == "Lt" and k <= 1:
                nz = false_succ
            elif flip == "Le" and k <= 0:
                nz = false_succ
            if nz is not None and f.dominates(nz, bb) and nz != bb or (nz == bb):
                if nz is not None and f.dominates(nz, bb):
                    return True
    return False


def grid_scope(cx):
    return [n for n in cx.f.fn_names() if n.startswith(("grid::", "<grid::")) and "{closure" not in n]


@rule("R-DIV-GUARD", ["C15"])
def r_div_guard(cx):
    n = 0
    for name in grid_scope(cx):
        f = cx.f.fn(name)
        k = 0
        for bb in sorted(f.reachable()):
            t = f.term(bb)
            if t["k"] != "assert" or t["msg"] not in ("DivisionByZero", "RemainderByZero"):
                continue
            # the assert's operand is the dividend; the divisor is the x of `cond = Eq(x, 0)`
            cond = f.operand(t["cond"], f.end_point(bb))
            if cond[0] == "bin" and cond[1] == "Eq":
                div = cond[2]
            else:
                div = ("unknown", "divisor")
            if A.const_int(div) not in (None, 0):
                continue
            n += 1
            ok = nonzero_guarded(f, bb, div)
            cx.ob("R-DIV-GUARD", "%s/div%d" % (name, k), ok,
                  "integer division in %s: divisor %s is tested against zero on every path before" % (name, mir.show(div, maxd=3))
                  if ok else
                  "integer division by a file-derived value in %s can divide by zero: divisor %s is not tested before "
                  "(a NaN or degenerate header makes it 0)" % (name, mir.show(div, maxd=3)), cx.where(t["span"]))
            k += 1
    cx.count("R-DIV-GUARD", "divisions", n)


@rule("R-GRID-INVARIANT", ["C15", "C08"])
def r_grid_invariant(cx):
    """`self.field - k` in the query methods of BaseGrid needs field >= k from every constructor"""
    adt = "grid::BaseGrid"
    info = cx.f.lib["adts"].get(adt)
    if info is None:
        cx.ob("R-GRID-INVARIANT", "anchor", False, "anchor-missing: grid::BaseGrid not found")
        return
    fields = [x["name"] for x in info["variants"][0]["fields"]]
    needs = {}
    for name in cx.f.fn_names():
        d = cx.f.lib["fns"][name]
        if not (d.get("impl_self") == adt or name.startswith("<grid::BaseGrid as")):
            continue
        f = cx.f.fn(name)
        for bb in sorted(f.reachable()):
            t = f.term(bb)
            if t["k"] == "assert" and t["msg"].startswith("Overflow(Sub"):
                # the checked subtraction feeding this assert
                for i, s in enumerate(f.stmts(bb)):
                    if s["k"] == "assign" and s["rv"]["k"] == "bin" and s["rv"]["op"] == "SubWithOverflow":
                        a = f.operand(s["rv"]["a"], (bb, i))
                        b = f.operand(s["rv"]["b"], (bb, i))
                        k = A.const_int(b)
                        fi = _self_field(a)
                        if k is not None and fi is not None:
                            needs.setdefault((fields[fi], k), []).append((name, bb))
        # x.clamp(lo, (self.field - k) as _) panics when hi < lo: field >= k + lo
        for bb, t in f.calls():
            c = f.callee(t) or ""
            if c.endswith("::clamp") and len(t["args"]) == 3:
                args = f.arg_terms(bb)
                lo = A.const_int(args[1])
                hi = args[2]
                while hi[0] == "cast":
                    hi = hi[2]
                if lo is not None and hi[0] == "bin" and hi[1] == "Sub":
                    k = A.const_int(hi[3])
                    fi = _self_field(hi[2])
                    if k is not None and fi is not None:
                        needs.setdefault((fields[fi], k + lo), []).append((name, bb))
    # keep only the strongest need per field
    strongest = {}
    for (field, k), sites in needs.items():
        if field not in strongest or k > strongest[field][0]:
            strongest[field] = (k, sites)
    needs = {(fld, k): sites for fld, (k, sites) in strongest.items()}
    cx.count("R-GRID-INVARIANT", "needs", len(needs))
    # constructors: functions that build the struct
    ctors = []
    for name in cx.f.fn_names():
        f = cx.f.fn(name)
        for bb, i, s in f.all_stmts():
            if s["k"] == "assign" and s["rv"]["k"] == "agg" and s["rv"].get("adt") == adt and \
                    not (s["span"].get("exp") or "").startswith("macro"):
                ctors.append((name, bb, i, s))
    cx.count("R-GRID-INVARIANT", "constructors", len(ctors))
    for (field, k), sites in sorted(needs.items()):
        fi = fields.index(field)
        for (cname, bb, i, s) in ctors:
            f = cx.f.fn(cname)
            val = f.operand(s["rv"]["ops"][fi], (bb, i))
            ok = _lower_bounded(f, bb, val, k)
            cx.ob("R-GRID-INVARIANT", "%s/%s>=%d" % (cname, field, k), ok,
                  "%s establishes %s >= %d before building the grid (needed by `self.%s - %d` in %s)" % (
                      cname, field, k, field, k, sites[0][0]) if ok else
                  "%s can build a grid with %s < %d; `self.%s - %d` in %s then underflows at the first query" % (
                      cname, field, k, field, k, sites[0][0]), cx.where(s["span"]))


def _self_field(t):
    # (*self).field : proj(proj(arg1, deref), f:k)
    if t[0] == "proj" and isinstance(t[2], tuple) and t[2][0] == "f" and t[1][0] == "proj" and t[1][2] == "deref" \
            and t[1][1] == ("arg", 1):
        return t[2][1]
    return None


def _lower_bounded(f, bb, val, k):
    """is val >= k established at block bb by the branch decisions that dominate it (looking through stored booleans
    and short-circuit joins)?"""
    import guards
    for (c, truth) in guards.branch_facts(f, bb):
        if c[0] != "bin" or c[1] not in ("Lt", "Le", "Gt", "Ge"):
            continue
        x, kk, op = c[2], A.const_int(c[3]), c[1]
        if kk is None:
            x, kk = c[3], A.const_int(c[2])
            op = {"Gt": "Lt", "Ge": "Le", "Lt": "Gt", "Le": "Ge"}[op]
        if kk is None or x != val:
            continue
        if not truth:
            op = {"Lt": "Ge", "Le": "Gt", "Ge": "Lt", "Gt": "Le"}[op]
        if op == "Ge" and kk >= k:
            return True
        if op == "Gt" and kk >= k - 1:
            return True
    return False


@rule("R-UNWRAP-GRID", ["C15"])
def r_unwrap_grid(cx):
    """every unwrap/expect in grid::* is classified: constant-length slice conversion, a constant-key lookup that
    every constructor guarantees, or a reviewed site"""
    n = 0
    for name in grid_scope(cx):
        f = cx.f.fn(name)
        k = 0
        for bb, t in f.calls():
            c = f.callee(t) or ""
            tail = c.split("::")[-1]
            if tail not in ("unwrap", "expect") or not ("Option" in c or "Result" in c):
                continue
            if (t["span"].get("exp") or "").startswith("macro"):
                continue
            n += 1
            a = mir.strip_refs(f.arg_terms(bb)[0])
            ok, why = _classify_unwrap(cx, f, a)
            cx.ob("R-UNWRAP-GRID", "%s/unwrap%d" % (name, k), ok,
                  "unwrap in %s cannot fail: %s" % (name, why) if ok else
                  "unwrap in %s can panic on file-derived data: %s" % (name, why), cx.where(t["span"]))
            k += 1
    cx.count("R-UNWRAP-GRID", "unwraps", n)


def _classify_unwrap(cx, f, a):
    if a[0] == "call" and isinstance(a[1], str) and a[1].endswith("try_into"):
        src = mir.strip_refs(a[2][0])
        if src[0] == "call" and "slice::index" in str(src[1]) and src[2][1][0] == "agg":
            rng = src[2][1][2]
            d = A.sub(A.affine(rng[1]), A.affine(rng[0]))
            if not d[0] and d[1] > 0:
                return True, "conversion of a slice of constant length %d into an array" % d[1]
    if a[0] == "call" and isinstance(a[1], str) and a[1].endswith("BTreeMap::<K, V, A>::get"):
        recv = mir.strip_refs(a[2][0])
        key = mir.strip_refs(a[2][1])
        fi = _self_field(recv)
        if fi is not None:
            kstr = None
            kk = key
            # key may be &String built from a literal
            lit = _string_literal(kk)
            if lit is not None:
                ok = _ctor_guarantees_key(cx, f, fi, lit)
                return ok, ("every constructor checks that key %r is present" % lit) if ok else \
                    ("the lookup of key %r is unwrapped, but no constructor guarantees that the key exists" % lit)
            return False, "lookup with a data-derived key is unwrapped"
    if a[0] == "call" and isinstance(a[1], str) and a[1].endswith("Iterator::next"):
        return False, "iterator item unwrapped"
    return False, "unrecognised origin %s" % mir.show(a, maxd=2)[:80]


def _string_literal(t, depth=0):
    t = mir.strip_refs(t)
    if t[0] == "const" and isinstance(t[2], tuple) and t[2][0] == "str":
        return t[2][1]
    if t[0] == "call" and isinstance(t[1], str) and t[1].split("::")[-1] in ("to_string", "from", "to_owned", "into") \
            and t[2] and depth < 3:
        return _string_literal(t[2][0], depth + 1)
    if t[0] in ("phi",) and depth < 3:
        vals = {_string_literal(o, depth + 1) for o in t[2]}
        if len(vals) == 1:
            return vals.pop()
    if t[0] == "mod" and depth < 3:
        return None
    return None


def _origin_local(g, l, depth=0):
    """follow `_a = move _b` chains back to the user variable"""
    recs = g.defs().get(l, ())
    full = [r for r in recs if r[2] == "full"]
    if len(recs) == 1 and len(full) == 1 and depth < 8:
        rv = full[0][4]["rv"]
        if rv["k"] == "use":
            pl = mir.op_place(rv["a"])
            if pl is not None and not pl["p"]:
                return _origin_local(g, pl["l"], depth + 1)
    return l


def _ctor_guarantees_key(cx, f, field_idx, lit):
    """every function that builds the struct of `self` has, dominating the aggregate, a successful contains_key(lit)
    test (or an unconditional insert of lit) on the map that becomes field `field_idx`"""
    self_ty = cx.f.lib["fns"][f.name].get("impl_self")
    found_ctor = False
    for name in cx.f.fn_names():
        g = cx.f.fn(name)
        for bb, i, s in g.all_stmts():
            if s["k"] == "assign" and s["rv"]["k"] == "agg" and s["rv"].get("adt") == self_ty and \
                    not (s["span"].get("exp") or "").startswith("macro"):
                found_ctor = True
                pl = mir.op_place(s["rv"]["ops"][field_idx])
                if pl is None:
                    return False
                mlocal = _origin_local(g, pl["l"])
                ok = False
                for b2, t in g.calls():
                    c = g.callee(t) or ""
                    if c.endswith("::contains_key") or c.endswith("::insert"):
                        args = g.arg_terms(b2)
                        recv = args[0]
                        root = recv[2] if recv[0] == "refplace" else None
                        if root != mlocal:
                            continue
                        if _string_literal(args[1]) != lit:
                            continue
                        if c.endswith("::insert") and g.dominates(b2, bb):
                            ok = True
                        if c.endswith("::contains_key"):
                            nxt = t.get("target")
                            if nxt is not None and g.term(nxt)["k"] == "switch":
                                if g.dominates(g.term(nxt)["otherwise"], bb):
                                    ok = True
                if not ok:
                    return False
    return found_ctor


@rule("R-ALLOC-BOUND", ["C15"])
def r_alloc_bound(cx):
    n = 0
    for name in grid_scope(cx):
        f = cx.f.fn(name)
        gs = None
        k = 0
        for bb, t in f.calls():
            c = f.callee(t) or ""
            if not (c.endswith("Vec::<T>::with_capacity") or c.endswith("::with_capacity")):
                continue
            n += 1
            size = f.arg_terms(bb)[0]
            e = aff(size)
            syms = [s for s in e[0] if s != LEN]
            if not syms:
                cx.ob("R-ALLOC-BOUND", "%s/alloc%d" % (name, k), True, "allocation of constant size", cx.where(t["span"]),
                      nontrivial=False)
                k += 1
                continue
            if gs is None:
                gs = guards(f)
            ok = False
            for (gb, x, strict) in gs:
                if f.dominates(gb, bb) and all(x[0].get(s, 0) > 0 for s in syms):
                    ok = True
            cx.ob("R-ALLOC-BOUND", "%s/alloc%d" % (name, k), ok,
                  "allocation size %s in %s is bounded by the buffer length through a dominating comparison" % (
                      mir.show(size, maxd=3), name) if ok else
                  "allocation size %s in %s comes from the file and is not compared with the buffer length before" % (
                      mir.show(size, maxd=3), name), cx.where(t["span"]))
            k += 1
    cx.count("R-ALLOC-BOUND", "allocations", n)


@rule("T-NTV2-OFFSETS", ["C15"])
def t_ntv2_offsets(cx):
    sp = spec("ntv2_records.json")
    sub = sp["subgrid_header"]
    names = sp["const_names"]
    n = 0
    for cname, recname in names.items():
        hits = [c for c in cx.f.lib["consts"] if c.startswith(NTV2) and c.split("::")[-1] == cname]
        if len(hits) != 1:
            cx.ob("T-NTV2-OFFSETS", "const/%s" % cname, False, "anchor-missing: constant %s not found in grid::ntv2" % cname)
            continue
        v = consts.const_value(cx.f, hits[0])
        want = 16 * sub.index(recname) + 8
        n += 1
        cx.ob("T-NTV2-OFFSETS", "const/%s" % cname, v == want,
              "%s = %d = 16*%d+8 (value field of record %s)" % (cname, want, sub.index(recname), recname) if v == want else
              "%s = %s, but the value field of record %s (no. %d) of the sub-grid header is at %d" % (
                  cname, v, recname, sub.index(recname), want), cx.where(cx.f.const(hits[0])["span"]))
    for cname, want in sp["sizes"].items():
        hits = [c for c in cx.f.lib["consts"] if c.startswith(NTV2) and c.split("::")[-1] == cname]
        if len(hits) != 1:
            cx.ob("T-NTV2-OFFSETS", "const/%s" % cname, False, "anchor-missing: constant %s not found" % cname)
            continue
        v = consts.const_value(cx.f, hits[0])
        n += 1
        cx.ob("T-NTV2-OFFSETS", "const/%s" % cname, v == want, "%s = %s as in the NTv2 format" % (cname, want)
              if v == want else "%s = %s, the NTv2 format says %s" % (cname, v, want),
              cx.where(cx.f.const(hits[0])["span"]))
    # literal offsets used with record keys in Ntv2Grid::new
    ov = sp["overview_header"]
    newname = "grid::ntv2::Ntv2Grid::new"
    if cx.f.has_fn(newname):
        f = cx.f.fn(newname)
        for bb, t in f.calls():
            c = f.callee(t) or ""
            if c.endswith("NTv2Parser::cmp_str"):
                args = f.arg_terms(bb)
                off = A.const_int(args[1])
                lit = _string_literal(args[2])
                if lit in ov:
                    want = 16 * ov.index(lit)
                    n += 1
                    cx.ob("T-NTV2-OFFSETS", "new/key/%s" % lit, off == want, "record key %s is looked for at %d" % (lit, want)
                          if off == want else "record key %s is looked for at %s, it is at %d" % (lit, off, want),
                          cx.where(t["span"]))
                elif lit in sp["overview_values"]:
                    rec = sp["overview_values"][lit]
                    want = 16 * ov.index(rec) + 8
                    n += 1
                    cx.ob("T-NTV2-OFFSETS", "new/value/%s" % lit, off == want,
                          "value %s of record %s is looked for at %d" % (lit, rec, want) if off == want else
                          "value %s of record %s is looked for at %s, it is at %d" % (lit, rec, off, want),
                          cx.where(t["span"]))
            if c.endswith("NTv2Parser::get_u32"):
                args = f.arg_terms(bb)
                off = A.const_int(args[1])
                ok = off in (16 * ov.index("NUM_OREC") + 8, 16 * ov.index("NUM_FILE") + 8)
                n += 1
                cx.ob("T-NTV2-OFFSETS", "new/u32@%s" % off, ok,
                      "integer field read at %s is NUM_OREC (8) or NUM_FILE (40)" % off if ok else
                      "integer field read at %s is neither NUM_OREC (8) nor NUM_FILE (40)" % off, cx.where(t["span"]))
    cx.count("T-NTV2-OFFSETS", "checks", n)


# ---------------------------------------------------------------------------------------------------------------------
# R-SUBGRID-KEPT (C15, C08): every sub-grid record of an NTv2 file ends up in the hierarchy

@rule("R-SUBGRID-KEPT", ["C15", "C08"])
def r_subgrid_kept(cx):
    """In Ntv2Grid::new every pass of the loop over the sub-grid records either fails the whole decode (returns an
    error) or stores the decoded sub-grid (`subgrids.insert`) and registers it under its parent (`push` onto the
    parent's list): no path back to the loop header skips either - the format allows any order of the records, so
    a record may not be dropped because of what has or has not been seen before it."""
    name = "grid::ntv2::Ntv2Grid::new"
    f = cx.f.fn(name)
    n = 0
    for lp in f.loops():
        dec = [bb for bb, t in f.calls() if bb in lp.body and (f.callee(t) or "").endswith("subgrid::ntv2_subgrid")]
        if not dec:
            continue
        n += 1
        stores = {bb for bb, t in f.calls() if bb in lp.body and (f.callee(t) or "").endswith("BTreeMap::<K, V, A>::insert")}
        regs = {bb for bb, t in f.calls() if bb in lp.body and (f.callee(t) or "").endswith("Vec::<T, A>::push")}
        for what, must in (("stored in the sub-grid table", stores), ("registered under its parent", regs)):
            # path from the decode call back to the header avoiding `must`
            start = f.term(dec[0]).get("target")
            seen, work, leak = set(), [start], False
            while work:
                x = work.pop()
                if x in seen or x in must or x not in lp.body:
                    continue
                seen.add(x)
                if x == lp.header:
                    leak = True
                    break
                work.extend(f.succ[x])
            cx.ob("R-SUBGRID-KEPT", "new/%s" % what.split()[0], not leak and bool(must),
                  "every decoded sub-grid record is %s before the next record is read" % what if (not leak and must) else
                  "Ntv2Grid::new can go on to the next record without the decoded sub-grid being %s: records are "
                  "dropped depending on their order in the file" % what, cx.where(f.term(dec[0])["span"]))
    cx.count("R-SUBGRID-KEPT", "record_loops", n)


# ---------------------------------------------------------------------------------------------------------------------
# R-NTV2-FIELDS (C15): each field of the decoded sub-grid header comes from its own record

NTV2_FIELD_RECORD = {"name": "SUB_NAME", "parent": "PARENT", "nlat": "N_LAT", "slat": "S_LAT", "wlon": "W_LONG",
                     "elon": "E_LONG", "dlat": "LAT_INC", "dlon": "LONG_INC", "num_nodes": "GS_COUNT"}


@rule("R-NTV2-FIELDS", ["C15", "C08"])
def r_ntv2_fields(cx):
    """SubGridHeader::new fills every field of the header it returns from the value part of the record of that name
    (record k of the sub-grid header sits at offset + 16 k, its value at + 8; order of records from the NTv2
    developer's guide, spec/ntv2_records.json): `dlon` from LONG_INC, not from LAT_INC, and so on."""
    recs = spec("ntv2_records.json")["subgrid_header"]
    name = "grid::ntv2::subgrid::SubGridHeader::new"
    f = cx.f.fn(name)
    adt = cx.f.lib["adts"]["grid::ntv2::subgrid::SubGridHeader"]
    fields = [x["name"] for x in adt["variants"][0]["fields"]]
    n = 0
    for bb, i, s in f.all_stmts():
        if s["k"] != "assign" or s["rv"]["k"] != "agg" or not str(s["rv"].get("adt", "")).endswith("SubGridHeader"):
            continue
        v = f.rvalue(s["rv"], (bb, i))
        for k, fname in enumerate(fields):
            rec = NTV2_FIELD_RECORD.get(fname)
            if rec is None or rec not in recs or k >= len(v[2]):
                continue
            want = 16 * recs.index(rec) + 8
            offs = set()

            def vis(x):
                if x[0] == "call" and isinstance(x[1], str) and "NTv2Parser::get_" in x[1] and len(x[2]) > 1:
                    o = x[2][1]
                    if o[0] == "bin" and o[1] in ("Add", "AddWithOverflow"):
                        for side in (o[2], o[3]):
                            if side[0] == "const" and isinstance(side[2], int):
                                offs.add(side[2])
                    else:
                        offs.add("?")
                    return False
                return True
            mir.walk(v[2][k], vis)
            n += 1
            ok = offs == {want}
            cx.ob("R-NTV2-FIELDS", "SubGridHeader/%s" % fname, ok,
                  "header field `%s` is decoded from the record %s (offset + %d)" % (fname, rec, want) if ok else
                  "header field `%s` must be decoded from the record %s (offset + %d) but is computed from the value(s) "
                  "read at offset + %s" % (fname, rec, want, sorted(map(str, offs)) or "nothing"), cx.where(s["span"]))
    cx.count("R-NTV2-FIELDS", "fields", n)


# ---------------------------------------------------------------------------------------------------------------------
# R-ROWCOUNT-AGREE (C15): the Gravsoft reader and BaseGrid::plain derive the grid dimensions from the header alike

def _rowcount_sites(f):
    """(block, c) for values of the form floor(extent / step + c)"""
    out = []
    for bb, t in f.calls():
        c = f.callee(t) or ""
        if not c.endswith("::floor"):
            continue
        a = f.arg_terms(bb)
        x = mir.strip_refs(a[0]) if a else None
        if x is None or x[0] != "bin" or x[1] != "Add":
            continue
        for q, k in ((x[2], x[3]), (x[3], x[2])):
            q, k = mir.strip_refs(q), mir.strip_refs(k)
            if q[0] == "bin" and q[1] == "Div" and k[0] == "const" and isinstance(k[2], tuple) and k[2][0] == "float":
                out.append((bb, float(k[2][1])))
    return out


@rule("R-ROWCOUNT-AGREE", ["C15"])
def r_rowcount_agree(cx):
    """The Gravsoft reader computes the number of rows and columns from the header (`floor(extent / step + 1.5)`) to
    know how many values to expect; BaseGrid::plain computes them again from the same header for the grid it builds.
    The two must round alike (the half step of slack absorbs the representation error of extents like 0.3 / 0.1):
    all row/column counts of the plain-grid code use one and the same rounding constant."""
    sites = []
    for name in sorted(cx.f.lib["fns"]):
        if not name.startswith("grid::") or name.startswith("grid::ntv2") or "::tests" in name:
            continue
        f = cx.f.fn(name)
        for bb, c in _rowcount_sites(f):
            sites.append((name, bb, c, f.term(bb)["span"]))
    consts_ = sorted({c for _, _, c, _ in sites})
    fns = sorted({n for n, _, _, _ in sites})
    ok = len(sites) >= 2 and len(consts_) == 1
    cx.ob("R-ROWCOUNT-AGREE", "grid/rounding", ok,
          "all %d row / column counts of the plain-grid code are floor(extent / step + %s)" % (len(sites), consts_[0]) if ok else
          ("anchor-missing: fewer than two row / column count computations in the plain-grid code" if len(sites) < 2 else
           "the row / column counts of the plain-grid code round differently (%s in %s): for an extent that is not an exact "
           "multiple of the step in floating point (54.0..54.3 by 0.1) the reader expects one row less than the grid it "
           "then builds, and a valid file is rejected" % (consts_, ", ".join(fns))),
          cx.where(sites[0][3]) if sites else "src/grid/mod.rs")
    cx.count("R-ROWCOUNT-AGREE", "count_sites", len(sites))


@rule("R-GRID-SIZE-CHECK", ["C15", "C09"])
def r_grid_size_check(cx):
    """A BaseGrid that holds its own node values (offset 0) is only built when the vector is at least as long as
    rows * cols * bands - the interpolation indexes it up to that product. Decided by reachability under a partial
    assignment: assume the stored offset *value* is 0 and the product exceeds the length of the vector; the block that
    builds the grid must then be unreachable in BaseGrid::plain. A size test keyed on the *presence* of an offset
    (`offset.is_none()`) instead of its value is skipped for NTv2 sub-grids, which pass `Some(0)`."""
    import guards
    name = "grid::BaseGrid::plain"
    if not cx.f.has_fn(name):
        cx.ob("R-GRID-SIZE-CHECK", "anchor", False, "anchor-missing: %s" % name)
        return
    f = cx.f.fn(name)
    ctor = [bb for bb, i, s in f.all_stmts() if s["k"] == "assign" and s["rv"]["k"] == "agg" and s["rv"].get("adt") == "grid::BaseGrid"]
    assign = {}
    n_size = 0
    for b in sorted(f.reachable()):
        t = f.term(b)
        if t["k"] != "switch":
            continue
        for at in guards.atoms(f, f.operand(t["discr"], f.end_point(b))):
            at = mir.strip_refs(at)
            if at[0] != "bin":
                continue
            lens = [sd for sd in (at[2], at[3]) if mir.strip_refs(sd)[0] == "call" and isinstance(mir.strip_refs(sd)[1], str)
                    and mir.strip_refs(sd)[1].rsplit("::", 1)[-1] == "len" and _mentions_mul_free(mir.strip_refs(sd))]
            prod = [sd for sd in (at[2], at[3]) if mir.strip_refs(sd)[0] == "bin" and mir.strip_refs(sd)[1] == "Mul"]
            if lens and prod and at[1] in ("Gt", "Ge", "Lt", "Le"):
                # truth value that means "the product exceeds the length"
                prod_left = mir.strip_refs(at[2])[0] == "bin"
                exceeds = (at[1] in ("Gt", "Ge")) == prod_left
                assign[at] = exceeds
                n_size += 1
            # the offset value compared with zero
            for x, k in ((at[2], at[3]), (at[3], at[2])):
                if at[1] in ("Eq", "Ne") and mir.strip_refs(k)[0] == "const" and mir.strip_refs(k)[2] == 0:
                    m = []
                    mir.walk(x, lambda y: (m.append(1) if y == ("arg", 3) else None) or True)
                    if m:
                        assign[at] = (at[1] == "Eq")
    ok = False
    if ctor and n_size:
        reach = guards.reach_under(f, assign)
        ok = not any(c in reach for c in ctor)
    cx.ob("R-GRID-SIZE-CHECK", "plain/size", ok,
          "a grid holding its own values (offset 0) is never built from a vector shorter than rows * cols * bands" if ok else
          ("anchor-missing: BaseGrid::plain does not compare rows * cols * bands with the length of the vector" if not n_size else
           "BaseGrid::plain can build a grid with offset 0 whose vector is shorter than rows * cols * bands (the size test does "
           "not depend on the offset value being 0 - e.g. it is keyed on the offset being absent, and NTv2 sub-grids pass "
           "Some(0)): a damaged header is accepted and the first query indexes out of bounds"), cx.where(f.d["span"]))
    cx.count("R-GRID-SIZE-CHECK", "size_tests", n_size)


def _mentions_mul_free(t):
    return True


@rule("R-NTV2-OFFSET-ACCUMULATES", ["C15"])
def r_ntv2_offset_accumulates(cx):
    """The sub-grid records of an NTv2 file follow each other: record k starts after the overview header, k sub-grid
    headers and the nodes of *all* earlier sub-grids. In Ntv2Grid::new the offset handed to the sub-grid decoder is
    therefore built from loop-carried state that accumulates: every value carried around the loop that the offset
    depends on (other than the loop counter) is updated from its own previous value. A carried `nodes_read` that is
    overwritten with the size of the last sub-grid alone places the third and later records inside earlier node data."""
    name = "grid::ntv2::Ntv2Grid::new"
    f = cx.f.fn(name)
    n = 0
    for bb, t in f.calls():
        c = f.callee(t) or ""
        if not c.endswith("subgrid::ntv2_subgrid"):
            continue
        lp = f.innermost_loop(bb)
        if lp is None:
            continue
        n += 1
        off = f.arg_terms(bb)[1]
        carried = set()

        def vis(y):
            if y[0] == "loopphi" and y[1][0] == lp.header:
                carried.add(y[1][1])
            return True
        mir.walk(off, vis)
        bad = []
        for l in sorted(carried):
            ty = str(f.local_ty(l))
            if "Range" in ty or "Iter" in ty or "iter" in ty:
                continue
            d = f.phi_def(("loopphi", (lp.header, l)))
            if d is None or d[0] != "phi":
                continue
            preds = f.header_preds(lp.header)
            latch_ops = [o for p, o in zip(preds, d[2]) if p in lp.body]
            self_ref = all(_additive_self(o, lp.header, l) for o in latch_ops)
            if not self_ref:
                bad.append(f.lname(l) or str(l))
        ok = bool(carried) and not bad
        cx.ob("R-NTV2-OFFSET-ACCUMULATES", "new/offset%d" % (n - 1), ok,
              "the record offset is built from accumulating loop state" if ok else
              ("the record offset handed to ntv2_subgrid depends on `%s`, which is overwritten in each round instead of "
               "accumulated: the third and later sub-grid records are read from the wrong place" % ", ".join(bad) if bad else
               "the record offset does not depend on the sizes of the earlier records at all"), cx.where(t["span"]))
    cx.count("R-NTV2-OFFSET-ACCUMULATES", "decoder_calls", n)


def _mentions_loopphi_of(t, h, l):
    hit = []

    def vis(y):
        if y == ("loopphi", (h, l)):
            hit.append(1)
            return False
        return not hit
    mir.walk(t, vis)
    return bool(hit)


def _additive_self(t, h, l, depth=0):
    """t = loopphi(h, l) + something (the carried value is an additive term of its own update)"""
    t = mir.strip_refs(t)
    if depth > 12:
        return False
    if t == ("loopphi", (h, l)):
        return True
    if t[0] == "bin" and t[1] in ("Add", "AddWithOverflow"):
        return _additive_self(t[2], h, l, depth + 1) or _additive_self(t[3], h, l, depth + 1)
    if t[0] == "bin" and t[1] in ("Sub", "SubWithOverflow"):
        return _additive_self(t[2], h, l, depth + 1)
    if t[0] == "proj" and mir.strip_refs(t[1])[0] == "bin":
        return _additive_self(t[1], h, l, depth + 1)
    if t[0] == "cast":
        return _additive_self(t[2], h, l, depth + 1)
    if t[0] == "phi":
        return all(_additive_self(o, h, l, depth + 1) for o in t[2])
    return False


@rule("R-HEADER-PRECISION", ["C15", "C08"])
def r_header_precision(cx):
    """The geometry of a Gravsoft grid (boundaries and spacing) is what the file says, to double precision: in
    `gravsoft_grid_reader` (and its closures) the numbers of the text are parsed as f64, and what is stored as f64 has not
    been through f32 on its way (parse::<f32>, or a narrowing cast) - that would move the boundaries by up to 4e-6
    degrees, so that points on the boundary fall outside and node positions no longer coincide with the nodes."""
    name = "grid::gravsoft_grid_reader"
    if not cx.f.has_fn(name):
        cx.ob("R-HEADER-PRECISION", "anchor", False, "anchor-missing: %s" % name)
        return
    n = 0
    for fn in sorted(cx.f.lib["fns"]):
        if not (fn == name or fn.startswith(name + "::{closure")):
            continue
        f = cx.f.fn(fn)
        for bb, t in f.calls():
            c = f.callee(t) or ""
            full = t.get("callee_full") or ""
            if c.endswith("str>::parse") and full.rsplit("parse::<", 1)[-1].rstrip(">") in ("f32", "f64"):
                n += 1
                ok = full.endswith("parse::<f64>")
                cx.ob("R-HEADER-PRECISION", "gravsoft/parse%d" % (n - 1), ok,
                      "the numbers of a Gravsoft file are parsed as f64" if ok else
                      "gravsoft_grid_reader parses the numbers of the file as f32: boundaries and spacing of the grid are "
                      "rounded to single precision", cx.where(t["span"]))
            if c.endswith("Vec::<T, A>::push") and full.startswith("std::vec::Vec::<f64>") and len(f.arg_terms(bb)) > 1:
                narrow = []
                mir.walk(f.arg_terms(bb)[1], lambda y: (narrow.append(1) if y[0] == "cast" and len(y) > 3 and str(y[3]) == "f32" else None) or True)
                if narrow:
                    cx.ob("R-HEADER-PRECISION", "gravsoft/narrowed", False,
                          "gravsoft_grid_reader stores a number as f64 that went through a narrowing cast to f32: boundaries "
                          "and spacing of the grid are rounded to single precision", cx.where(t["span"]))
    cx.count("R-HEADER-PRECISION", "header_stores", n)


@rule("R-GRAVSOFT-ANGULAR", ["C15", "C08"])
def r_gravsoft_angular(cx):
    """A Gravsoft grid whose boundaries are angles (degrees) has its geometry converted to radians and its node values
    to the internal units; only a grid in projected coordinates is left as it is. Angles written in a file go up to a full
    circle (longitudes 0..360): the test by which normalize_gravsoft_grid_values takes a boundary for a projected
    coordinate (`|h| > T`, early return) leaves every |h| <= 360 on the angular side."""
    name = "grid::normalize_gravsoft_grid_values"
    if not cx.f.has_fn(name):
        cx.ob("R-GRAVSOFT-ANGULAR", "anchor", False, "anchor-missing: %s" % name)
        return
    f = cx.f.fn(name)
    n = 0
    for bb in sorted(f.reachable()):
        sw = f.term(bb)
        if sw["k"] != "switch":
            continue
        c = mir.strip_refs(f.operand(sw["discr"], f.end_point(bb)))
        if not (c[0] == "bin" and c[1] in ("Gt", "Ge", "Lt", "Le")):
            continue
        l, r = mir.strip_refs(c[2]), mir.strip_refs(c[3])
        op = c[1]
        if l[0] == "const" and r[0] != "const":
            l, r = r, l
            op = {"Gt": "Lt", "Ge": "Le", "Lt": "Gt", "Le": "Ge"}[op]
        if not (l[0] == "call" and isinstance(l[1], str) and l[1].endswith("::abs") and r[0] == "const" and
                isinstance(r[2], tuple) and r[2][0] == "float"):
            continue
        T = float(r[2][1])
        # the side on which |h| is large must be the one that returns early
        big = sw["otherwise"] if op in ("Gt", "Ge") else (sw["targets"][0][1] if sw["targets"] else None)
        if big is None or f.innermost_loop(bb) is None:
            continue
        lp = f.innermost_loop(bb)
        if lp.header in f.reach_from([big], avoid=[]):
            continue
        n += 1
        ok = (op in ("Gt", "Le") and T >= 360.0) or (op in ("Ge", "Lt") and T > 360.0)
        cx.ob("R-GRAVSOFT-ANGULAR", "threshold%d" % (n - 1), ok,
              "boundaries up to a full circle (|h| <= 360) count as angles (threshold %s)" % T if ok else
              "normalize_gravsoft_grid_values takes a boundary with |h| %s %s for a projected coordinate: a grid in degrees that "
              "reaches %s (longitudes 0..360, say) is not converted to radians, and its corrections are used as if in "
              "metres" % (">" if op in ("Gt", "Le") else ">=", T, "beyond %s" % T if T < 360 else "360"), cx.where(sw["span"]))
    # the same test written as `header.iter().take(4).any(|h| h.abs() > T)`
    import elems as E
    for cname in sorted(cx.f.lib["fns"]):
        if not cname.startswith(name + "::{closure"):
            continue
        g = cx.f.fn(cname)
        rt = E.return_term(g)
        c = mir.strip_refs(rt) if rt is not None else None
        if not (c is not None and c[0] == "bin" and c[1] in ("Gt", "Ge", "Lt", "Le")):
            continue
        l, r = mir.strip_refs(c[2]), mir.strip_refs(c[3])
        op = c[1]
        if l[0] == "const" and r[0] != "const":
            l, r = r, l
            op = {"Gt": "Lt", "Ge": "Le", "Lt": "Gt", "Le": "Ge"}[op]
        if not (l[0] == "call" and isinstance(l[1], str) and l[1].endswith("::abs") and r[0] == "const" and
                isinstance(r[2], tuple) and r[2][0] == "float" and op in ("Gt", "Ge")):
            continue
        used_by_any = any((f.callee(t) or "").rsplit("::", 1)[-1] == "any" and cname in str(f.arg_terms(bb)) for bb, t in f.calls())
        if not used_by_any:
            continue
        T = float(r[2][1])
        n += 1
        ok = (op == "Gt" and T >= 360.0) or (op == "Ge" and T > 360.0)
        cx.ob("R-GRAVSOFT-ANGULAR", "threshold%d" % (n - 1), ok,
              "boundaries up to a full circle (|h| <= 360) count as angles (threshold %s)" % T if ok else
              "normalize_gravsoft_grid_values takes a boundary with |h| %s %s for a projected coordinate: a grid in degrees that "
              "reaches 360 is not converted to radians" % (">" if op == "Gt" else ">=", T), cx.where(g.d["span"]))
    cx.count("R-GRAVSOFT-ANGULAR", "thresholds", n)


@rule("R-HEADER-PER-NUMBER", ["C15", "C08"])
def r_header_per_number(cx):
    """The header of a Gravsoft grid is the first six numbers of the file, wherever the line breaks fall: whether a number
    belongs to the header is decided number by number. In gravsoft_grid_reader the `header.len() < 6` test that sends a
    number to the header is evaluated in the same (innermost) loop that handles the number - not once per line, which
    would swallow the node values that share a line with the end of the header."""
    import guards
    name = "grid::gravsoft_grid_reader"
    if not cx.f.has_fn(name):
        cx.ob("R-HEADER-PER-NUMBER", "anchor", False, "anchor-missing: %s" % name)
        return
    f = cx.f.fn(name)
    n = 0
    for bb, t in f.calls():
        if not ((f.callee(t) or "").endswith("Vec::<T, A>::push") and (t.get("callee_full") or "").startswith("std::vec::Vec::<f64>")):
            continue
        lp = f.innermost_loop(bb)
        if lp is None:
            continue
        recv = mir.strip_refs(f.arg_terms(bb)[0])
        for at, tv in guards.branch_facts(f, bb):
            at = mir.strip_refs(at)
            if not (at[0] == "bin" and at[1] in ("Lt", "Le", "Ge", "Gt", "Eq", "Ne")):
                continue
            l = mir.strip_refs(at[2])
            if not (l[0] == "call" and isinstance(l[1], str) and l[1].endswith("::len") and isinstance(l[3], int)):
                continue
            n += 1
            inside = l[3] in lp.body
            cx.ob("R-HEADER-PER-NUMBER", "gravsoft/header-test%d" % (n - 1), inside,
                  "the header-or-value decision is taken for each number" if inside else
                  "gravsoft_grid_reader decides once per line whether its numbers belong to the header: node values on the "
                  "line that completes the header are stored as header numbers and the grid is rejected as incomplete",
                  cx.where(f.term(l[3])["span"]))
    if n == 0:
        cx.ob("R-HEADER-PER-NUMBER", "none", True, "no length test guards the header stores in a loop", nontrivial=False)
    cx.count("R-HEADER-PER-NUMBER", "header_tests", n)
