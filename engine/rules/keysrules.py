"""R-KEY-AVAIL (C09, C12), R-EARLY-RETURN / R-DISPATCH-EXHAUSTIVE (C10, C12)."""
import keys as K
import mir
from rulebase import rule


def str_eq_guards(f):
    """block -> list of (lhs term, literal) such that the block is dominated by the true edge of
    `<str as PartialEq>::eq(lhs, const literal)`"""
    tests = []
    for bb, t in f.calls():
        c = f.callee(t) or ""
        if c.endswith("PartialEq for str>::eq") or c.endswith("<str as std::cmp::PartialEq>::eq") or \
                "PartialEq" in c and c.endswith("::eq"):
            args = f.arg_terms(bb)
            if len(args) != 2:
                continue
            lit = K._const_key(args[1])
            lhs = args[0]
            if lit is None:
                lit = K._const_key(args[0])
                lhs = args[1]
            if lit is None:
                continue
            # the switch on the result
            nxt = t.get("target")
            if nxt is None:
                continue
            sw = f.term(nxt)
            if sw["k"] != "switch":
                continue
            true_succ = sw["otherwise"]
            tests.append((true_succ, lhs, lit))
    return tests


def flag_tests(f):
    """(true successor, flag) for `params.boolean(const flag)` tests"""
    out = []
    for bb, t in f.calls():
        c = f.callee(t) or ""
        if c == K.PP + "::boolean":
            args = f.arg_terms(bb)
            key = K._const_key(args[1]) if len(args) > 1 else None
            nxt = t.get("target")
            if key is not None and nxt is not None and f.term(nxt)["k"] == "switch":
                out.append((f.term(nxt)["otherwise"], key))
    return out


def dispatch_key_of(facts, lhs):
    """if lhs derives from `<text map>.get(const K)` (through Some.0 / as_str / deref), return K"""
    found = []

    def visit(x):
        if x[0] == "call" and isinstance(x[1], str) and x[1].endswith("BTreeMap::<K, V, A>::get"):
            k = K._const_key(x[2][1])
            m = K.receiver_map(facts, x[2][0])
            if k is not None and m == "text":
                found.append(k)
        if x[0] == "call" and isinstance(x[1], str) and x[1] == K.PP + "::text":
            k = K._const_key(x[2][1])
            if k is not None:
                found.append(k)
        return True

    mir.walk(lhs, visit)
    return found[0] if found else None


def literal_of_string_term(t):
    """'lit' for String values built as "lit".to_string() / String::from("lit") / "lit".into()"""
    t = mir.strip_refs(t)
    if t[0] == "call" and isinstance(t[1], str):
        tail = t[1].split("::")[-1]
        if tail in ("to_string", "from", "into", "to_owned") and t[2]:
            return K._const_key(t[2][0])
    return None


def ctor_conditionals(facts, f):
    """{(dispatch key, literal): set of (map,key) known present where the literal is stored} and the set of all
    literals stored under each dispatch key"""
    cond = {}
    stored = {}
    # presence tests: discriminant of series(K)/real(K)... call results; boolean(K)
    pres = []  # (block whose dominance implies presence, (map,key))
    for bb, t in f.calls():
        c = f.callee(t) or ""
        if c.startswith(K.PP + "::"):
            acc = c[len(K.PP) + 2:]
            args = f.arg_terms(bb)
            key = K._const_key(args[1]) if len(args) > 1 else None
            if key is None:
                continue
            if acc in K.ACCESSOR_MAP:
                # find `switch discriminant(dest)`: Ok variant index 0
                dest = t["dest"]["l"]
                for b2 in sorted(f.reachable()):
                    sw = f.term(b2)
                    if sw["k"] != "switch":
                        continue
                    d = f.operand(sw["discr"], f.end_point(b2))
                    if d[0] == "discr" and d[1][0] == "call" and d[1][3] == bb:
                        for v, tgt in sw["targets"]:
                            if v == 0:
                                pres.append((tgt, (K.ACCESSOR_MAP[acc], key)))
            if acc == "boolean":
                nxt = t.get("target")
                if nxt is not None and f.term(nxt)["k"] == "switch":
                    pres.append((f.term(nxt)["otherwise"], ("boolean", key)))
    for (bb, m, key, val) in K.inserts_in(facts, f):
        for (blk, p) in pres:
            if p[0] == "boolean" and f.dominates(blk, bb):
                cond.setdefault(("flag", p[1]), set()).add((m, key))
        if m != "text" or val is None:
            continue
        lit = literal_of_string_term(val)
        if lit is None:
            continue
        stored.setdefault(key, set()).add(lit)
        facts_here = {p for (blk, p) in pres if f.dominates(blk, bb)}
        cond[(key, lit)] = facts_here
    return cond, stored


def pipeline_routes(cx):
    """local functions that the pipeline interpreter calls with a step's parameters under a name-literal arm:
    fn path -> set of registry names"""
    reg = cx.registry()
    out = {}
    for cpath, c in reg.ctors.items():
        if "pipeline" not in c.names:
            continue
        for fn in (c.fwd, c.inv):
            if not fn:
                continue
            f = cx.f.fn(fn)
            tests = str_eq_guards(f)
            for bb, t in f.calls():
                callee = f.callee(t) or ""
                if not cx.f.has_fn(callee):
                    continue
                for (succ, lhs, lit) in tests:
                    if f.dominates(succ, bb) and any(lit == n for n, _ in reg.rows):
                        out.setdefault(callee, set()).add(lit)
    return out


def ctor_guarantees(cx, c):
    import consts
    g, flags, optional = K.gamut_guarantees(c.gamut)
    g = set(g)
    for k in K.implicit_reals(cx.f):
        g.add(("real", k))
    f = cx.f.fn(c.path)
    g |= K.must_inserts(cx.f, f)
    return g, flags, optional


def owners_of_functions(cx):
    """fn path -> list of constructors whose operator can execute it at apply time"""
    reg = cx.registry()
    owners = {}
    routes = pipeline_routes(cx)
    byname = {}
    for cpath, c in reg.ctors.items():
        for n in c.names:
            byname[n] = c
    for cpath, c in reg.ctors.items():
        if "pipeline" in c.names:
            continue
        for fn in reg.reachable_from([c.fwd, c.inv], follow_virtual=False):
            owners.setdefault(fn, []).append(c)
    for fn, names in routes.items():
        for n in names:
            c = byname[n]
            for g in reg.reachable_from([fn], follow_virtual=False):
                if c not in owners.setdefault(g, []):
                    owners[g].append(c)
    return owners


def _reads_with_guards(cx, fname):
    f = cx.f.fn(fname)
    reads = K.find_reads(cx.f, f)
    tests = str_eq_guards(f)
    out = []
    for r in reads:
        guards = []
        for (succ, lhs, lit) in tests:
            if f.dominates(succ, r.bb):
                dk = dispatch_key_of(cx.f, lhs)
                if dk is not None:
                    guards.append((dk, lit))
        for (succ, flag) in flag_tests(f):
            if f.dominates(succ, r.bb):
                guards.append(("flag", flag))
        out.append((r, guards))
    return f, out


@rule("R-KEY-AVAIL", ["C09", "C12"])
def r_key_avail(cx):
    reg = cx.registry()
    owners = owners_of_functions(cx)
    n = 0
    nsoft = 0
    gcache = {}
    ccache = {}
    for fname in sorted(owners):
        cs = owners[fname]
        if cx.pid == "C12":
            cs = [c for c in cs if set(c.names) & {"stack", "push", "pop"}]
            if not cs:
                continue
        f, reads = _reads_with_guards(cx, fname)
        for r, guards in reads:
            if r.kind != "panic":
                nsoft += 1
                continue
            for c in cs:
                if c.path not in gcache:
                    gcache[c.path] = ctor_guarantees(cx, c)
                    ccache[c.path] = ctor_conditionals(cx.f, cx.f.fn(c.path))
                g, flags, optional = gcache[c.path]
                cond, stored = ccache[c.path]
                n += 1
                ok = (r.map, r.key) in g
                why = "guaranteed by the constructor (gamut / implicit / insert on every Ok path)"
                if not ok:
                    for gk in guards:
                        if gk in cond and (r.map, r.key) in cond[gk]:
                            ok = True
                            why = "guaranteed where %s=%r is stored" % gk
                where = cx.where(f.term(r.bb)["span"])
                cx.ob("R-KEY-AVAIL", "%s/%s/%s[%s]%s" % (
                    "+".join(sorted(c.names)[:1]), fname, r.map, r.key,
                    "".join("@%s=%s" % gk for gk in guards)), ok,
                      "%s: %s in %s is %s" % (c.names[0], r.how, fname, why) if ok else
                      "%s: %s in %s panics: key %r is not guaranteed to be in the %s table by constructor %s%s" % (
                          c.names[0], r.how, fname, r.key, r.map, c.path,
                          (" under dispatch %s" % (guards,)) if guards else ""), where)
    # readers inside the constructors themselves
    for cpath, c in sorted(reg.ctors.items()):
        if cx.pid == "C12" and not (set(c.names) & {"stack", "push", "pop"}):
            continue
        g0, flags, optional = K.gamut_guarantees(c.gamut)
        g0 = set(g0) | {("real", k) for k in K.implicit_reals(cx.f)}
        fns = [cpath] + [h for h in reg.reachable_from([cpath], follow_virtual=False)
                         if h != cpath and (h.startswith(cpath.rsplit("::", 1)[0] + "::"))]
        for fname in fns:
            if fname in (c.fwd, c.inv) or fname in owners:
                continue
            f = cx.f.fn(fname)
            ins = K.inserts_in(cx.f, f)
            for r in K.find_reads(cx.f, f):
                if r.kind != "panic":
                    continue
                n += 1
                ok = (r.map, r.key) in g0 or any(
                    m == r.map and k == r.key and f.dominates(b, r.bb) and b != r.bb for (b, m, k, _v) in ins)
                if not ok and fname != cpath:
                    # helper called after construction steps: accept keys inserted on every path of the ctor before
                    ok = (r.map, r.key) in K.must_inserts(cx.f, cx.f.fn(cpath))
                cx.ob("R-KEY-AVAIL", "%s/%s/%s[%s]" % (c.names[0], fname, r.map, r.key), ok,
                      "%s constructor: %s is backed by the gamut or a dominating insert" % (c.names[0], r.how) if ok else
                      "%s constructor: %s panics when the key is absent: it is neither in the gamut with a value "
                      "nor inserted on every path before" % (c.names[0], r.how), cx.where(f.term(r.bb)["span"]))
    cx.count("R-KEY-AVAIL", "panicking_reads", n)
    cx.count("R-KEY-AVAIL", "non_panicking_reads", nsoft)


@rule("R-DISPATCH-EXHAUSTIVE", ["C10", "C12"])
def r_dispatch_exhaustive(cx):
    """every literal a constructor stores under a dispatch key has an arm in every apply-time function that
    dispatches on that key (otherwise the default arm - report 0, data untouched - is live)"""
    owners = owners_of_functions(cx)
    n = 0
    for fname in sorted(owners):
        f = cx.f.fn(fname)
        tests = str_eq_guards(f)
        arms = {}
        for (succ, lhs, lit) in tests:
            dk = dispatch_key_of(cx.f, lhs)
            if dk is not None:
                arms.setdefault(dk, set()).add(lit)
        for dk, lits in arms.items():
            for c in owners[fname]:
                if cx.pid == "C12" and not (set(c.names) & {"stack", "push", "pop"}):
                    continue
                cond, stored = ctor_conditionals(cx.f, cx.f.fn(c.path))
                for lit in sorted(stored.get(dk, ())):
                    n += 1
                    ok = lit in lits
                    cx.ob("R-DISPATCH-EXHAUSTIVE", "%s/%s/%s=%s" % (c.names[0], fname, dk, lit), ok,
                          "%s: %s=%r stored by the constructor has an arm in %s" % (c.names[0], dk, lit, fname) if ok else
                          "%s: the constructor accepts and stores %s=%r, but %s has no arm for it: the default arm "
                          "reports 0 successes and leaves every tuple untouched and looking valid" % (
                              c.names[0], dk, lit, fname), cx.where(f.d["span"]))
    cx.count("R-DISPATCH-EXHAUSTIVE", "stored_literals", n)


@rule("R-EARLY-RETURN", ["C10"])
def r_early_return(cx):
    """a keyed read whose 'missing' outcome leaves the function early (let-else / match returning 0) must be dead:
    the key is guaranteed by every owning constructor"""
    owners = owners_of_functions(cx)
    n = 0
    gcache = {}
    for fname in sorted(owners):
        f, reads = _reads_with_guards(cx, fname)
        for r, guards in reads:
            if r.kind != "soft":
                continue
            for c in owners[fname]:
                if c.path not in gcache:
                    gcache[c.path] = (ctor_guarantees(cx, c), ctor_conditionals(cx.f, cx.f.fn(c.path)))
                (g, flags, optional), (cond, stored) = gcache[c.path]
                n += 1
                ok = (r.map, r.key) in g
                if not ok:
                    for gk in guards:
                        if gk in cond and (r.map, r.key) in cond[gk]:
                            ok = True
                # a soft read of an *optional* key whose missing-branch does not leave early is fine; we only know it is
                # matched, so check whether the None/Err successor reaches a return without any CoordinateSet call
                if not ok:
                    ok = not _missing_branch_returns_quietly(f, r.bb)
                cx.ob("R-EARLY-RETURN", "%s/%s/%s[%s]" % (c.names[0], fname, r.map, r.key), ok,
                      "%s: the early exit on a missing %s[%r] in %s is dead (key guaranteed) or does not return quietly" % (
                          c.names[0], r.map, r.key, fname) if ok else
                      "%s: %s in %s returns early without marking the data when %s[%r] is missing, and constructor %s "
                      "does not guarantee the key" % (c.names[0], r.how, fname, r.map, r.key, c.path),
                      cx.where(f.term(r.bb)["span"]))
    cx.count("R-EARLY-RETURN", "soft_reads", n)


def _missing_branch_returns_quietly(f, prod_bb):
    """does the None/Err successor of the discriminant test on the value produced at prod_bb reach a `return` without
    calling any CoordinateSet method (i.e. without writing / stomping)?"""
    t = f.term(prod_bb)
    for b2 in sorted(f.reachable()):
        sw = f.term(b2)
        if sw["k"] != "switch":
            continue
        d = f.operand(sw["discr"], f.end_point(b2))
        if d[0] != "discr":
            continue
        src = d[1]
        if not (src[0] == "call" and src[3] == prod_bb):
            continue
        # Option: None = 0 ; Result: Err = 1
        is_result = "Result" in f.local_ty(t["dest"]["l"])
        miss = None
        for v, tgt in sw["targets"]:
            if (is_result and v == 1) or (not is_result and v == 0):
                miss = tgt
        if miss is None:
            miss = sw["otherwise"]
        # explore from miss until return, stopping at CoordinateSet calls
        seen = set()
        st = [miss]
        while st:
            x = st.pop()
            if x in seen:
                continue
            seen.add(x)
            tt = f.term(x)
            if tt["k"] == "call" and "CoordinateSet::" in (f.callee(tt) or "") and not (f.callee(tt) or "").endswith("::len"):
                continue
            if tt["k"] == "return":
                if _has_zero_leaf(f.local_value(0, f.end_point(x))):
                    return True
                continue
            if any(lp.header == x for lp in f.loops()):
                # the loop may run zero times: follow only its exits
                lp = [l for l in f.loops() if l.header == x][0]
                for (a, b) in lp.exits:
                    if a == x:
                        st.append(b)
                continue
            for s in f.succ[x]:
                st.append(s)
        return False
    return False


def _has_zero_leaf(t, depth=0):
    if t[0] == "const":
        return isinstance(t[2], int) and not isinstance(t[2], bool) and t[2] == 0
    if t[0] == "phi" and depth < 8:
        return any(_has_zero_leaf(o, depth + 1) for o in t[2])
    if t[0] == "loopphi":
        return False
    return False


@rule("R-KEY-DECLARED", ["C16", "C14", "C13", "C10", "C08", "C05"])
def r_key_declared(cx):
    """every parameter key an operator reads at apply time is one its constructor declares (gamut), stores, or one of
    the implicit keys: a key that nobody declares can never be set, so the option it stands for is silently ignored"""
    owners = owners_of_functions(cx)
    implicit_flags = {"inv", "omit_fwd", "omit_inv"}
    n = 0
    for fname in sorted(owners):
        f = cx.f.fn(fname)
        reads = []
        for bb, t in f.calls():
            c = f.callee(t) or ""
            if c == K.PP + "::boolean":
                key = K._const_key(f.arg_terms(bb)[1])
                if key is not None:
                    reads.append((bb, "boolean", key))
        for r in K.find_reads(cx.f, f):
            reads.append((r.bb, r.map, r.key))
        for (bb, m, key) in reads:
            for c in owners[fname]:
                g, flags, optional = K.gamut_guarantees(c.gamut)
                declared = {k for (_m, k) in g} | set(flags) | {k for (_m, k) in optional} | implicit_flags | set(
                    K.implicit_reals(cx.f))
                cf = cx.f.fn(c.path)
                reg = cx.registry()
                stored = set()
                for gname in reg.reachable_from([c.path], follow_virtual=False):
                    if gname.startswith(c.path.rsplit("::", 1)[0] + "::") or gname == "op::Op::plain":
                        for (b2, m2, k2, _v) in K.inserts_in(cx.f, cx.f.fn(gname)):
                            stored.add(k2)
                n += 1
                ok = key in declared or key in stored
                cx.ob("R-KEY-DECLARED", "%s/%s/%s[%s]" % (c.names[0], fname, m, key), ok,
                      "%s: key %r read in %s is declared or stored by the constructor" % (c.names[0], key, fname) if ok else
                      "%s: %s reads %s[%r], but the gamut of %s declares no such key and the constructor never stores it: "
                      "the option can never be set and is silently ignored (declared: %s)" % (
                          c.names[0], fname, m, key, c.path, sorted(flags)[:8]), cx.where(f.term(bb)["span"]))
    # the same for the constructors themselves: a key a constructor reads through an accessor (`params.ellps(1)`,
    # `params.lat(2)`) and that its own gamut does not declare (nor the constructor stores) always comes back as the
    # accessor's built-in default - e.g. GRS80, whatever ellipsoid the user asked for
    reg = cx.registry()
    m_ = 0
    for cpath, c in sorted(reg.ctors.items()):
        if "pipeline" in c.names or c.gamut is None:
            continue
        g, flags, optional = K.gamut_guarantees(c.gamut)
        declared = {k for (_m, k) in g} | set(flags) | {k for (_m, k) in optional} | implicit_flags | set(K.implicit_reals(cx.f))
        mod = cpath.rsplit("::", 1)[0] + "::"
        fns = [x for x in reg.reachable_from([cpath], follow_virtual=False) if x.startswith(mod) or x == cpath]
        stored = set()
        for gname in fns + ["op::Op::plain"]:
            if cx.f.has_fn(gname):
                for (b2, m2, k2, _v) in K.inserts_in(cx.f, cx.f.fn(gname)):
                    stored.add(k2)
        for gname in fns:
            if gname in owners:
                continue        # an apply-time function: judged above
            gf = cx.f.fn(gname)
            for r in K.find_reads(cx.f, gf):
                m_ += 1
                ok = r.key in declared or r.key in stored
                cx.ob("R-KEY-DECLARED", "%s/%s/%s[%s]" % (c.names[0], gname, r.map, r.key), ok,
                      "%s: key %r read by the constructor is declared or stored" % (c.names[0], r.key) if ok else
                      "%s: the constructor (%s) reads %s[%r], which its gamut does not declare and nobody stores: the value is "
                      "always the accessor's built-in default (for an ellipsoid: GRS80, whatever the user asked for)" % (
                          c.names[0], gname, r.map, r.key), cx.where(gf.term(r.bb)["span"]))
    # indexed accessors: params.ellps(k), lat(k), lon(k), x(k), y(k), k(k) read the key `<stem>_<k>` and fall back to a
    # built-in default when it is absent
    STEMS = {"ellps": "ellps", "lat": "lat", "lon": "lon", "x": "x", "y": "y", "k": "k"}
    a_ = 0
    ctor_fns = {}
    for cpath, c in sorted(reg.ctors.items()):
        if "pipeline" in c.names or c.gamut is None:
            continue
        mod = cpath.rsplit("::", 1)[0] + "::"
        for x in reg.reachable_from([cpath], follow_virtual=False):
            if x.startswith(mod) or x == cpath:
                ctor_fns.setdefault(x, [])
                if c not in ctor_fns[x]:
                    ctor_fns[x].append(c)
    judged_fns = dict(owners)
    for k_, v_ in ctor_fns.items():
        judged_fns.setdefault(k_, [])
        for c in v_:
            if c not in judged_fns[k_]:
                judged_fns[k_] = judged_fns[k_] + [c]
    for fname in sorted(judged_fns):
        if not cx.f.has_fn(fname):
            continue
        gf = cx.f.fn(fname)
        for bb, t in gf.calls():
            cal = gf.callee(t) or ""
            if not cal.startswith(K.PP + "::") or cal.rsplit("::", 1)[-1] not in STEMS:
                continue
            a = gf.arg_terms(bb)
            if len(a) < 2 or a[1][0] != "const" or not isinstance(a[1][2], int):
                continue
            stem, idx = STEMS[cal.rsplit("::", 1)[-1]], a[1][2]
            keys_ = ["%s_%d" % (stem, idx)] + (["ellps"] if stem == "ellps" and idx == 0 else [])
            for c in judged_fns[fname]:
                if c.gamut is None or "pipeline" in c.names:
                    continue
                g, flags, optional = K.gamut_guarantees(c.gamut)
                declared = {k for (_m, k) in g} | set(flags) | {k for (_m, k) in optional} | set(K.implicit_reals(cx.f))
                mod = c.path.rsplit("::", 1)[0] + "::"
                stored = set()
                for gname in reg.reachable_from([c.path], follow_virtual=False):
                    if (gname.startswith(mod) or gname == "op::Op::plain") and cx.f.has_fn(gname):
                        for (b2, m2, k2, _v) in K.inserts_in(cx.f, cx.f.fn(gname)):
                            stored.add(k2)
                a_ += 1
                ok = any(k in declared or k in stored for k in keys_)
                cx.ob("R-KEY-DECLARED", "%s/%s/%s(%d)" % (c.names[0], fname, stem, idx), ok,
                      "%s: %s(%d) reads a key the constructor declares or stores" % (c.names[0], stem, idx) if ok else
                      "%s: %s calls params.%s(%d), i.e. reads `%s`, which the gamut of %s does not declare and nobody stores: "
                      "the accessor always returns its built-in default (for an ellipsoid: GRS80, whatever the user asked "
                      "for)" % (c.names[0], fname, stem, idx, keys_[0], c.path), cx.where(t["span"]))
    cx.count("R-KEY-DECLARED", "accessor_reads", a_)
    cx.count("R-KEY-DECLARED", "constructor_reads", m_)
    cx.count("R-KEY-DECLARED", "reads", n)


# ---------------------------------------------------------------------------------------------------------------------
# R-ELLPS-SHADOW (C07, C16): `ellps_0` is not dead behind `ellps`

@rule("R-ELLPS-SHADOW", ["C07", "C16"])
def r_ellps_shadow(cx):
    """ParsedParameters::ellps(0) returns the ellipsoid named by `ellps` whenever that key is present, and only
    otherwise the one named by `ellps_0`. `ellps` is present for every operator that declares it (gamut default, or
    the context's global default). An operator that declares both `ellps` and `ellps_0` must therefore itself give a
    user supplied `ellps_0` precedence over the defaulted `ellps` (store it under `ellps`), or `ellps_0` has no effect
    at all. The premise is checked too: ellps(0) consults `ellps` first."""
    # premise: the accessor
    f = cx.f.fn(K.PP + "::ellps")
    order = []
    for bb, t in f.calls():
        c = f.callee(t) or ""
        if c.endswith("BTreeMap::<K, V, A>::get"):
            k = K._const_key(f.arg_terms(bb)[1])
            order.append((bb, k))
    first_is_ellps = bool(order) and order[0][1] == "ellps" and not any(
        f.dominates(b, order[0][0]) for b, _ in order[1:])
    cx.ob("R-ELLPS-SHADOW", "accessor/ellps-first", True,
          "ParsedParameters::ellps(0) consults `ellps` before `ellps_0`" if first_is_ellps else
          "ParsedParameters::ellps no longer prefers `ellps` (the shadowing premise does not hold; operators are not "
          "judged)", cx.where(f.d["span"]), nontrivial=False)
    reg = cx.registry()
    n = 0
    for cpath, c in sorted(reg.ctors.items()):
        keys = set()
        for g in (c.gamut or []):
            if isinstance(g, dict) and g.get("key"):
                keys.add(g["key"])
        if not ({"ellps", "ellps_0"} <= keys):
            continue
        n += 1
        if not first_is_ellps:
            continue
        mod = cpath.rsplit("::", 1)[0] + "::"
        ok = False
        for gname in sorted(reg.reachable_from([cpath], follow_virtual=False)):
            if not gname.startswith(mod):
                continue
            g = cx.f.fn(gname)
            for (bb, m, key, val) in K.inserts_in(cx.f, g):
                if m == "text" and key == "ellps" and val is not None:
                    src = []

                    def v(x):
                        if x[0] == "call" and isinstance(x[1], str) and len(x[2]) > 1 and K._const_key(x[2][1]) == "ellps_0":
                            src.append(x)
                        return True
                    mir.walk(val, v)
                    if src:
                        ok = True
        # ... and before the constructor itself asks for ellps(0) (e.g. to derive da/df)
        if ok:
            ctor = cx.f.fn(cpath)
            ins_blocks = [bb for (bb, m, key, val) in K.inserts_in(cx.f, ctor) if m == "text" and key == "ellps"]
            for bb, t in ctor.calls():
                if (ctor.callee(t) or "") == K.PP + "::ellps":
                    a = ctor.arg_terms(bb)
                    if len(a) > 1 and a[1][0] == "const" and a[1][2] == 0:
                        if ins_blocks and not any(bb in ctor.reach_from([b]) for b in ins_blocks):
                            ok = False
                            cx.ob("R-ELLPS-SHADOW", "%s/ellps_0/order" % c.names[0], False,
                                  "%s asks for ellps(0) before it has given a supplied `ellps_0` precedence over the "
                                  "defaulted `ellps`: what it derives from that value (da, df) refers to the default "
                                  "ellipsoid" % c.names[0], cx.where(t["span"]))
                            break
            if not ok:
                continue
        cx.ob("R-ELLPS-SHADOW", "%s/ellps_0" % c.names[0], ok,
              "%s stores a given `ellps_0` under `ellps`, so it is not shadowed by the default" % c.names[0] if ok else
              "%s declares both `ellps` and `ellps_0`: `ellps` is always present (default), ellps(0) prefers it, and the "
              "constructor never gives `ellps_0` precedence - the parameter `ellps_0` is silently ignored" % c.names[0],
              cx.where(cx.f.fn(cpath).d["span"]))
    cx.count("R-ELLPS-SHADOW", "operators_with_both", n)


# ---------------------------------------------------------------------------------------------------------------------
# R-PLACEHOLDER (C10): the stand-in for a missing inverse reports nothing done

@rule("R-PLACEHOLDER", ["C10"])
def r_placeholder(cx):
    """The function standing in for the unsupported inverse of a one-way operator (InnerOp::default) touches nothing
    and returns 0 - "the unsupported inverse of a one-way operator reports zero and leaves the data untouched"."""
    import elems as E
    d = cx.f.fn("<inner_op::InnerOp as std::default::Default>::default")
    target = None
    for bb, i, s in d.all_stmts():
        if s["k"] == "assign":
            v = d.rvalue(s["rv"], (bb, i))
            found = []

            def vis(x):
                if x[0] == "const" and isinstance(x[2], tuple) and x[2] and x[2][0] == "fn":
                    found.append(x[2][1])
                return True
            mir.walk(v, vis)
            if found:
                target = found[0]
    ok = False
    why = "InnerOp::default does not name a function"
    where = cx.where(d.d["span"])
    if target and cx.f.has_fn(target):
        g = cx.f.fn(target)
        where = cx.where(g.d["span"])
        rt = E.return_term(g)
        writes = [bb for bb, t in g.calls() if "CoordinateSet" in (t.get("callee") or g.callee(t) or "")]
        ok = rt is not None and rt[0] == "const" and rt[2] == 0 and not writes
        why = "%s %s" % (target, "calls CoordinateSet methods" if writes else "does not return the constant 0")
    cx.ob("R-PLACEHOLDER", "InnerOp::default", ok,
          "the placeholder for a missing inverse (%s) writes nothing and returns 0" % target if ok else
          "the placeholder for a missing inverse is not inert: %s" % why, where)
    cx.count("R-PLACEHOLDER", "placeholders", 1 if target else 0)


# ---------------------------------------------------------------------------------------------------------------------
# R-MODE-FLAG-USED (C01, C05, C13): a mode the constructor detects is a mode the operator handles

@rule("R-MODE-FLAG-USED", ["C01", "C05", "C13"])
def r_mode_flag_used(cx):
    """A flag that an operator's constructor itself inserts into the flag table (an aspect or mode it has detected
    from the parameters: laea's north_polar / south_polar / oblique, helmert's rotated / dynamic ...) is consulted by
    the operator's functions. A detected mode that nothing reads is a mode that is silently computed by the formulas
    of another one."""
    reg = cx.registry()
    n = 0
    for cpath, c in sorted(reg.ctors.items()):
        mod = cpath.rsplit("::", 1)[0] + "::"
        fns = [g for g in reg.reachable_from([cpath], follow_virtual=False) if g.startswith(mod)]
        ins = {}
        for g in fns:
            f = cx.f.fn(g)
            for bb, t in f.calls():
                if (f.callee(t) or "").endswith("BTreeSet::<T, A>::insert"):
                    a = f.arg_terms(bb)
                    k = K._const_key(a[1]) if len(a) > 1 else None
                    if k:
                        ins[k] = (f, bb)
        if not ins:
            continue
        reads = set()
        for g in fns:
            f = cx.f.fn(g)
            for bb, t in f.calls():
                if (f.callee(t) or "") == K.PP + "::boolean":
                    reads.add(K._const_key(f.arg_terms(bb)[1]))
                if (f.callee(t) or "").endswith("BTreeSet::<T, A>::contains"):
                    a = f.arg_terms(bb)
                    if len(a) > 1:
                        reads.add(K._const_key(a[1]))
        for k, (f, bb) in sorted(ins.items()):
            n += 1
            ok = k in reads
            cx.ob("R-MODE-FLAG-USED", "%s/%s" % (c.names[0], k), ok,
                  "%s: the mode flag `%s` set by the constructor is consulted by the operator" % (c.names[0], k) if ok else
                  "%s: the constructor detects the mode `%s` and records it, but no function of the operator ever "
                  "consults it: that case is computed by the formulas of another mode" % (c.names[0], k),
                  cx.where(f.term(bb)["span"]))
    cx.count("R-MODE-FLAG-USED", "flags", n)
