"""R-PARITY (C06, C14, C01): symmetry of the cartesian <-> geographic conversions under reflection in the equator.

Abstract interpretation of value-graph terms in the parity domain with respect to one input variable v:
  I (independent of v) | even | odd | none.
Reflection in the equatorial plane (Z -> -Z, or latitude -> -latitude) maps the ellipsoid onto itself: the longitude
and the height of a point are even in Z, the latitude is odd; X and Y are even in the latitude, Z is odd. A formula
that loses an `abs`, keeps a sign where it must not, or swaps a sine for a cosine in one term has no parity any more
(or the wrong one). The analysis is purely algebraic on the expression shapes (products, quotients, sums of like parity,
odd/even elementary functions, `copysign`, `atan2`, `hypot`), looks through crate-local callees, and demands the
required parity on every alternative of a branch."""
import elems as E
import mir
from rulebase import rule

I, EVEN, ODD, NONE = "indep", "even", "odd", "none"

ODD_FNS = ("sin", "tan", "asin", "atan", "sinh", "tanh", "asinh", "atanh", "to_radians", "to_degrees", "cbrt", "signum",
           "clone", "neg")
EVEN_FNS = ("cos", "cosh", "abs")
MONO_FNS = ("sqrt", "exp", "ln", "exp_m1", "ln_1p", "recip", "floor", "ceil", "round")   # of an even/indep argument only


def _mul(a, b):
    if NONE in (a, b):
        return NONE
    if a == I:
        return b
    if b == I:
        return a
    return EVEN if a == b else ODD


def _add(a, b):
    if NONE in (a, b):
        return NONE
    if a == I and b == I:
        return I
    if a == ODD and b == ODD:
        return ODD
    if a in (I, EVEN) and b in (I, EVEN):
        return EVEN
    return NONE


# functions evaluated by loops (Clenshaw summation, Newton iteration): their parity in one argument is a stated summary
SUMMARY = {
    "series::fourier::sin": ("odd", 0),        # sum c_k sin(k x)
    "series::fourier::cos": ("even", 0),       # sum c_k cos(k x)
    "gudermannian::fwd": ("odd", 0),
    "gudermannian::inv": ("odd", 0),
    "ancillary::sinhpsi_to_tanphi": ("odd", 0),
}


class Parity:
    def __init__(self, f, is_var, facts, is_indep=None):
        self.f = f
        self.is_var = is_var
        self.is_indep = is_indep or (lambda t: False)
        self.facts = facts
        self.memo = {}

    def of(self, t, depth=0):
        if not isinstance(t, tuple) or not t:
            return NONE
        try:
            if t in self.memo:
                return self.memo[t]
        except TypeError:
            return NONE
        if depth > 70:
            return NONE
        self.memo[t] = NONE
        r = self._of(t, depth)
        self.memo[t] = r
        return r

    def has_var(self, t):
        hit = []

        def v(x):
            # values carried by loops, modified in place or unknown may depend on anything
            if self.is_var(x) or x[0] in ("loopphi", "unknown", "mod"):
                hit.append(1)
                return False
            return not hit
        mir.walk(t, v)
        return bool(hit)

    def _of(self, t, depth):
        if self.is_var(t):
            return ODD
        if self.is_indep(t) or not self.has_var(t):
            return I
        tag = t[0]
        if tag == "const":
            return I
        if tag == "arg":
            return I
        if tag in ("ref",):
            return self.of(t[2], depth + 1)
        if tag == "cast":
            return self.of(t[2], depth + 1)
        if tag == "un":
            return self.of(t[2], depth + 1) if t[1] == "Neg" else NONE
        if tag == "bin":
            a, b = self.of(t[2], depth + 1), self.of(t[3], depth + 1)
            if t[1] in ("Add", "Sub"):
                return _add(a, b)
            if t[1] in ("Mul", "Div"):
                return _mul(a, b)
            return NONE
        if tag == "phi":
            ps = {self.of(x, depth + 1) for x in t[2]}
            if len(ps) == 1:
                return ps.pop()
            if ps <= {I, EVEN}:
                return EVEN
            return NONE
        if tag == "proj":
            base, pj = t[1], t[2]
            if base[0] == "call":
                c = base[1] if isinstance(base[1], str) else ""
                if c.endswith("::sin_cos") and isinstance(pj, tuple) and pj[0] == "f":
                    p = self.of(base[2][0], depth + 1)
                    if pj[1] == 0:
                        return p
                    return I if p == I else (EVEN if p in (ODD, EVEN) else NONE)
                r = self._inline(base)
                if r is not None:
                    return self.of(self.f._proj1(r, pj), depth + 1)
                if all(self.of(a, depth + 1) == I for a in base[2]):
                    return I
                return NONE
            if base[0] == "agg" and isinstance(pj, tuple) and pj[0] in ("f", "elem") and len(pj) > 1 and \
                    isinstance(pj[1], int) and pj[1] < len(base[2]):
                return self.of(base[2][pj[1]], depth + 1)
            if pj == "deref" or (isinstance(pj, tuple) and pj[0] == "variant"):
                return self.of(base, depth + 1)
            p = self.of(base, depth + 1)
            return I if p == I else NONE
        if tag == "call":
            c = t[1] if isinstance(t[1], str) else ""
            tail = c.rsplit("::", 1)[-1]
            args = [self.of(a, depth + 1) for a in t[2]]
            if "f64" in c or c.startswith(("core::f64", "std::f64")):
                if tail in ODD_FNS:
                    return args[0] if args else NONE
                if tail in EVEN_FNS:
                    return I if args and args[0] == I else (EVEN if args and args[0] in (ODD, EVEN) else NONE)
                if tail in MONO_FNS:
                    return args[0] if args and args[0] in (I, EVEN) else NONE
                if tail == "powi":
                    n = t[2][1] if len(t[2]) > 1 else None
                    if n is not None and n[0] == "const" and isinstance(n[2], int):
                        if args[0] == I:
                            return I
                        if args[0] == NONE:
                            return NONE
                        return EVEN if n[2] % 2 == 0 else args[0]
                    return NONE
                if tail == "powf":
                    return args[0] if args[0] in (I, EVEN) and args[1] == I else NONE
                if tail == "hypot":
                    if NONE in args:
                        return NONE
                    return I if all(a == I for a in args) else EVEN
                if tail == "atan2":
                    y, x = args
                    if NONE in (y, x) or x == ODD:
                        return NONE
                    return y if y != I or x == I else EVEN
                if tail == "copysign":
                    mag, sgn = args
                    if NONE in (mag, sgn):
                        return NONE
                    if sgn == ODD:
                        return ODD if mag in (I, EVEN) else EVEN
                    return I if (mag == I and sgn == I) else (EVEN if mag in (I, EVEN, ODD) else NONE)
                if tail in ("min", "max", "mul_add", "clamp"):
                    return I if all(a == I for a in args) else NONE
            if tail in ("clone", "unwrap", "into", "from", "deref", "borrow", "as_ref"):
                return args[0] if args else NONE
            for suf, (kind, k) in SUMMARY.items():
                if c.endswith(suf) and k < len(args):
                    if not all(a == I for j, a in enumerate(args) if j != k):
                        return NONE
                    a = args[k]
                    if kind == "odd":
                        return a
                    return I if a == I else (EVEN if a in (ODD, EVEN) else NONE)
            r = self._inline(t)
            if r is not None:
                return self.of(r, depth + 1)
            return I if all(a == I for a in args) else NONE
        if tag == "agg":
            ps = {self.of(x, depth + 1) for x in t[2]}
            return I if ps <= {I} else NONE
        return NONE

    def _inline(self, t):
        n = 0
        x = t
        while isinstance(x, tuple) and len(x) > 3 and isinstance(x[3], tuple) and x[3] and x[3][0] == "inl":
            n += 1
            x = x[3][1] if len(x[3]) > 1 and isinstance(x[3][1], tuple) else None
        if n >= 3:
            return None
        try:
            return E.inline_call(self.f, t, None)
        except Exception:
            return None


SPEC = [
    # (function, how to recognise the reflected input, required parity of the four written/returned elements, text)
    ("inner_op::cart::cart_inv", ("coord", 2), [EVEN, ODD, EVEN, None], "Z"),
    ("ellipsoid::geocart::GeoCart::geographic", ("tuple", 2, 2), [EVEN, ODD, EVEN, None], "Z"),
    ("ellipsoid::geocart::GeoCart::cartesian", ("tuple", 2, 1), [EVEN, EVEN, ODD, None], "the latitude"),
]


def _other_elems_pred(kind):
    """the other elements of the tuple that holds the reflected variable: independent variables"""
    if kind[0] == "coord":
        k = kind[1]

        def p(t):
            return t[0] == "proj" and isinstance(t[2], tuple) and t[2][0] == "elem" and len(t[2]) == 2 and t[2][1] != k \
                and t[1][0] == "call" and isinstance(t[1][1], str) and t[1][1].endswith("get_coord")
        return p
    return None


def _var_pred(kind):
    if kind[0] == "coord":
        k = kind[1]

        def p(t):
            return t[0] == "proj" and t[2] == ("elem", k) and t[1][0] == "call" and isinstance(t[1][1], str) and \
                t[1][1].endswith("get_coord")
        return p
    argn, k = kind[1], kind[2]

    def q(t):
        if t[0] != "proj" or t[1][0] != "call" or not isinstance(t[1][1], str):
            return False
        tail = t[1][1].rsplit("::", 1)[-1]
        if tail not in ("xyz", "xyzt", "xy"):
            return False
        r = mir.strip_refs(t[1][2][0]) if t[1][2] else None
        if r not in (("arg", argn), ("proj", ("arg", argn), "deref")):
            return False
        return t[2] == ("f", k)
    return q


@rule("R-PARITY", ["C06", "C14", "C01"])
def r_parity(cx):
    """cart / Ellipsoid::{cartesian, geographic}: under reflection in the equator (Z -> -Z, latitude -> -latitude) the
    longitude and the height are even, the latitude / Z are odd, X and Y are even - on every branch (polar short-cut
    included)."""
    import pertuple
    n = 0
    for fn, kind, want, vname in SPEC:
        if not cx.f.has_fn(fn):
            cx.ob("R-PARITY", fn, False, "anchor-missing: %s" % fn)
            continue
        f = cx.f.fn(fn)
        par = Parity(f, _var_pred(kind), cx.f, _other_elems_pred(kind))
        outs = []
        if kind[0] == "coord":
            for pt in pertuple.per_tuple_loops(f):
                for bb, m in sorted(pt.writes):
                    args = f.arg_terms(bb)
                    if m == "set_coord":
                        v = f._deref(args[2], f.end_point(bb))
                        outs.append((bb, E.elems(f, v, f.end_point(bb)), f.term(bb)["span"]))
        else:
            for bb in sorted(f.reachable()):
                if f.term(bb)["k"] == "return":
                    v = f.local_value(0, f.end_point(bb))
                    alts = v[2] if v[0] == "phi" else (v,)
                    for a in alts:
                        outs.append((bb, E.elems(f, a, f.end_point(bb)), f.d["span"]))
        for k, (bb, es, span) in enumerate(outs):
            for j, w in enumerate(want):
                if w is None:
                    continue
                n += 1
                got = par.of(es[j])
                ok = got == w or (w == EVEN and got == I)
                cx.ob("R-PARITY", "%s/out%d/elem%d" % (fn, k, j), ok,
                      "element %d written by %s is %s in %s" % (j, fn, w, vname) if ok else
                      "element %d written by %s must be %s in %s (reflection in the equator) but the expression is %s: %s"
                      % (j, fn, w, vname, {"none": "of no definite parity", "indep": "independent of it"}.get(got, got),
                         mir.show(es[j])[:80]), cx.where(span))
    cx.count("R-PARITY", "elements", n)
    # scalar functions of the latitude
    m = 0
    for name in sorted(cx.f.lib["fns"]):
        short = name.rsplit("::", 1)[-1]
        want = None
        if name.startswith("ellipsoid::latitudes::Latitudes::latitude_") and "coefficients" not in short:
            want = ODD
        elif name in ("ellipsoid::EllipsoidBase::prime_vertical_radius_of_curvature",
                      "ellipsoid::EllipsoidBase::meridian_radius_of_curvature"):
            want = EVEN
        elif name.startswith("ellipsoid::gravity::Gravity::") and short.endswith(("_gravity", "_gravity_1930", "_gravity_1948", "welmec")):
            want = EVEN
        if want is None:
            continue
        f = cx.f.fn(name)
        if f.nargs < 2 or str(f.local_ty(2)) != "f64":
            continue
        rt = E.return_term(f)
        if rt is None:
            continue
        par = Parity(f, lambda t: t == ("arg", 2), cx.f)
        alts = rt[2] if rt[0] == "phi" else (rt,)
        got = [par.of(a) for a in alts]
        m += 1
        ok = all(g == want or (want == EVEN and g == I) for g in got)
        cx.ob("R-PARITY", "%s/latitude" % name, ok,
              "%s is %s in the latitude" % (short, want) if ok else
              "%s must be %s in the latitude (the ellipsoid is symmetric about the equator) but its expression is %s" % (
                  short, want, ", ".join(got)), cx.where(f.d["span"]))
    cx.count("R-PARITY", "latitude_functions", m)
