"""R-TYPED-EXTRACT (C16): each declared parameter type is parsed by the parser of that type.

ParsedParameters::new dispatches on the OpParameter variant. In the arm of each variant the textual value is turned
into a number by exactly the parser the declared type calls for: Natural -> str::parse::<usize>, Integer ->
str::parse::<i64>, Real and Series -> parse_sexagesimal; Flag, Text and Texts use no numeric parser. A laxer parser
(e.g. parse::<f64> followed by `as usize`) accepts values that are not of the declared type."""
import mir
import keys as K
from rulebase import rule

EXPECT = {
    "Flag": set(),
    "Natural": {"core::str::<impl str>::parse::<usize>"},
    "Integer": {"core::str::<impl str>::parse::<i64>"},
    "Real": {"math::angular::parse_sexagesimal"},
    "Series": {"math::angular::parse_sexagesimal"},
    "Text": set(),
    "Texts": set(),
}


def _parser(f, t):
    c = f.callee(t) or ""
    full = t.get("callee_full") or c
    if c == "core::str::<impl str>::parse":
        return full
    if c == "math::angular::parse_sexagesimal":
        return c
    if c.rsplit("::", 1)[-1] in ("from_str", "from_str_radix"):
        return full
    return None


@rule("R-TYPED-EXTRACT", ["C16"])
def r_typed_extract(cx):
    f = cx.f.fn(K.PP + "::new")
    adt = cx.f.lib["adts"]["op::parameter::OpParameter"]
    vnames = [v["name"] for v in adt["variants"]]
    # the dispatch: a switch on the discriminant of the gamut element, with one target per variant
    disp = None
    for bb in sorted(f.reachable()):
        t = f.term(bb)
        if t["k"] != "switch" or len(t["targets"]) < len(vnames) - 1:
            continue
        d = f.operand(t["discr"], f.end_point(bb))
        if d[0] == "discr":
            disp = (bb, t)
            break
    if disp is None:
        cx.ob("R-TYPED-EXTRACT", "dispatch", False, "no dispatch on the OpParameter variant found in ParsedParameters::new")
        return
    bb0, t0 = disp
    arms = {}
    for v, bb in t0["targets"]:
        if v < len(vnames):
            arms[vnames[v]] = bb
    missing = [v for v in vnames if v not in arms]
    if len(missing) == 1 and f.term(t0["otherwise"])["k"] != "unreachable":
        arms[missing[0]] = t0["otherwise"]
    n = 0
    for v in vnames:
        if v not in EXPECT:
            cx.ob("R-TYPED-EXTRACT", "variant/%s" % v, False,
                  "OpParameter has a variant `%s` for which no parser is tabled" % v)
            continue
        a = arms.get(v)
        if a is None:
            cx.ob("R-TYPED-EXTRACT", "variant/%s" % v, False, "no arm for OpParameter::%s in ParsedParameters::new" % v)
            continue
        used = set()
        helpers = set()
        where = None
        for bb, t in f.calls():
            if not f.dominates(a, bb):
                continue
            p = _parser(f, t)
            if p:
                used.add(p)
                if p not in EXPECT[v]:
                    where = cx.where(t["span"])
            # a private helper of the module that does the parsing for this arm
            h = f.callee(t) or ""
            if h.startswith("op::parsed_parameters::") and not h.startswith(K.PP + "::") and cx.f.has_fn(h):
                helpers.add(h)
                g = cx.f.fn(h)
                for b2, t2 in g.calls():
                    p = _parser(g, t2)
                    if p:
                        used.add(p)
                        if p not in EXPECT[v]:
                            where = cx.where(t2["span"])
        n += 1
        ok = used == EXPECT[v]
        cx.ob("R-TYPED-EXTRACT", "variant/%s" % v, ok,
              "OpParameter::%s values are parsed by %s" % (v, ", ".join(sorted(used)) or "no numeric parser") if ok else
              "OpParameter::%s values are parsed by %s (declared type calls for %s): values that are not of the "
              "declared type are accepted or valid ones rejected" % (
                  v, ", ".join(sorted(used)) or "nothing", ", ".join(sorted(EXPECT[v])) or "no numeric parser"),
              where or cx.where(f.term(a)["span"]))
        # a value of the wrong type is an error naming the parameter: the arm can return Err(BadParam(key, value))
        if EXPECT[v]:
            bads = [bb for bb, i, st in f.all_stmts() if st["k"] == "assign" and st["rv"]["k"] == "agg" and
                    st["rv"].get("adt") == "Error" and st["rv"].get("vname") == "BadParam" and f.dominates(a, bb)]
            for h in sorted(helpers):
                g = cx.f.fn(h)
                bads += [bb for bb, i, st in g.all_stmts() if st["k"] == "assign" and st["rv"]["k"] == "agg" and
                         st["rv"].get("adt") == "Error" and st["rv"].get("vname") == "BadParam"]
            cx.ob("R-TYPED-EXTRACT", "rejects/%s" % v, bool(bads),
                  "a malformed %s value is rejected with BadParam" % v.lower() if bads else
                  "the %s arm of ParsedParameters::new has no BadParam error return any more: a malformed value is "
                  "silently replaced (by the default) or reported as missing" % v, cx.where(f.term(a)["span"]))
        # a required parameter (default: None) that is not given is an error: the arm can return MissingParam
        if v != "Flag":
            miss = [bb for bb, i, st in f.all_stmts() if st["k"] == "assign" and st["rv"]["k"] == "agg" and
                    st["rv"].get("adt") == "Error" and st["rv"].get("vname") == "MissingParam" and f.dominates(a, bb)]
            for h in sorted(helpers):
                g = cx.f.fn(h)
                miss += [bb for bb, i, st in g.all_stmts() if st["k"] == "assign" and st["rv"]["k"] == "agg" and
                         st["rv"].get("adt") == "Error" and st["rv"].get("vname") == "MissingParam"]
            cx.ob("R-TYPED-EXTRACT", "demands/%s" % v, bool(miss),
                  "a required %s parameter that is not given is reported with MissingParam" % v.lower() if miss else
                  "the %s arm of ParsedParameters::new has no MissingParam error return any more: a required parameter "
                  "(default: None) that is not given is silently treated as empty / absent" % v, cx.where(f.term(a)["span"]))
        # the stored value is the parser's result itself (no lossy conversion between parser and table)
        if v in ("Natural", "Integer"):
            for bb, t in f.calls():
                c = f.callee(t) or ""
                if f.dominates(a, bb) and c.endswith("BTreeMap::<K, V, A>::insert"):
                    args = f.arg_terms(bb)
                    m = K.receiver_map(cx.f, args[0])
                    if m != v.lower():
                        continue
                    casts = []

                    def vis(x):
                        if x[0] == "cast" and x[1] not in ("Transmute", "PtrToPtr", "PointerCoercion"):
                            casts.append(x)
                        return True
                    mir.walk(args[2], vis)
                    cx.ob("R-TYPED-EXTRACT", "stored/%s" % v, not casts,
                          "the %s stored is the parser's result, unconverted" % v.lower() if not casts else
                          "the %s stored is converted (`as`) after parsing: the conversion silently changes values "
                          "the parser accepted" % v.lower(), cx.where(t["span"]))
    cx.count("R-TYPED-EXTRACT", "variants", n)


# ---------------------------------------------------------------------------------------------------------------------
# R-BADPARAM-ORDER (C16): a rejected value is reported under the name of its parameter

@rule("R-BADPARAM-ORDER", ["C16"])
def r_badparam_order(cx):
    """`Error::BadParam(parameter, value)` prints "Malformed value for parameter '{0}': '{1}'". In every place where
    ParsedParameters::new rejects a value, the first field is the key of the gamut entry being parsed (field 0 of the
    OpParameter variant) and the second field is not - so that the message names the parameter and cites the value,
    and not the other way round."""
    f = cx.f.fn("op::parsed_parameters::ParsedParameters::new")
    n = 0

    def is_key(t, depth=0):
        t = mir.strip_refs(t)
        for _ in range(6):
            if t[0] == "call" and isinstance(t[1], str) and t[1].rsplit("::", 1)[-1] in ("to_string", "clone", "to_owned", "deref", "into", "from", "as_ref") and t[2]:
                t = mir.strip_refs(t[2][0])
            elif t[0] == "proj" and t[2] == "deref":
                t = mir.strip_refs(t[1])
            else:
                break
        return t[0] == "proj" and t[2] == ("f", 0) and mir.strip_refs(t[1])[0] == "proj" and \
            isinstance(mir.strip_refs(t[1])[2], tuple) and mir.strip_refs(t[1])[2][0] == "variant" and \
            mir.strip_refs(t[1])[2][2] in ("Flag", "Natural", "Integer", "Real", "Series", "Text", "Texts")
    for bb, i, s in f.all_stmts():
        if not (s["k"] == "assign" and s["rv"]["k"] == "agg" and s["rv"].get("adt") == "Error" and s["rv"].get("vname") == "BadParam"):
            continue
        v = f.rvalue(s["rv"], (bb, i))
        if v[0] != "agg" or len(v[2]) != 2:
            continue
        n += 1
        ok = is_key(v[2][0]) and not is_key(v[2][1])
        cx.ob("R-BADPARAM-ORDER", "new/badparam%d" % (n - 1), ok,
              "BadParam(key of the gamut entry, offending value)" if ok else
              "ParsedParameters::new builds Error::BadParam with %s: the message then names the value as the parameter and "
              "cites the parameter as the value" % ("the two fields exchanged" if is_key(v[2][1]) else
                                                    "a first field that is not the key of the gamut entry"), cx.where(s.get("span")))
    cx.count("R-BADPARAM-ORDER", "rejections", n)


_TRUNCATING = ("Zip<", "Take<", "TakeWhile<", "StepBy<", "Skip<", "SkipWhile<", "MapWhile<", "Filter<", "FilterMap<")


@rule("R-SPLIT-EXHAUSTIVE", ["C16"])
def r_split_exhaustive(cx):
    """A malformed value is refused with BadParam, never silently repaired: where a user value is taken apart at a
    separator (`,` between the elements of a series in ParsedParameters::new, `:` between degrees, minutes and seconds
    in parse_sexagesimal), every part is looked at. (a) The splitter is `str::split`, which yields an (empty) part
    behind a trailing separator - not `split_terminator`, `splitn` or `rsplitn`, which drop or merge parts, so that
    `order=2,1,` or `push=` would be accepted as a shorter series. (b) A loop over the parts is not cut short by an
    adaptor (zip with the slots to fill, take(3)): a fourth component of `1:30:36:59` must reach the code that refuses it."""
    import pertuple
    n = 0
    for name, seps in ((K.PP + "::new", (",",)), ("math::angular::parse_sexagesimal", (":",))):
        if not cx.f.has_fn(name):
            cx.ob("R-SPLIT-EXHAUSTIVE", "%s/anchor" % name.rsplit("::", 1)[-1], False, "anchor-missing: %s" % name)
            continue
        f = cx.f.fn(name)
        k = 0
        for bb, t in f.calls():
            c = f.callee(t) or ""
            tail = c.rsplit("::", 1)[-1]
            if not (c.startswith("core::str::<impl str>::") and ("split" in tail) and tail not in ("split_whitespace", "split_at", "split_once", "split_ascii_whitespace")):
                continue
            a = f.arg_terms(bb)
            if len(a) < 2:
                continue
            pat = mir.strip_refs(a[-1])
            if not (pat[0] == "const" and isinstance(pat[2], tuple) and pat[2][0] in ("char", "str") and pat[2][1] in seps):
                continue
            n += 1
            ok = tail == "split"
            short = name.rsplit("::", 1)[-1] if "angular" in name else "ParsedParameters::new"
            cx.ob("R-SPLIT-EXHAUSTIVE", "%s/split%d" % (short, k), ok,
                  "%s takes the value apart with str::split: every part, an empty last one included, is seen" % short if ok else
                  "%s takes a value apart at `%s` with `%s`, which does not yield every part (a trailing separator, or the "
                  "parts beyond a limit, go unnoticed): a malformed value is accepted as a shorter one instead of being "
                  "refused" % (short, pat[2][1], tail), cx.where(t["span"]))
            # a loop over these parts sees all of them
            for lp in f.loops():
                x = pertuple.iterator_entry_value(f, lp)
                if x is None:
                    continue
                hit = []
                mir.walk(x, lambda y: (hit.append(1) if y[0] == "call" and len(y) > 3 and y[3] == bb else None) or True)
                if not hit:
                    continue
                full = f.term(lp.header).get("callee_full", "")
                cut = [w for w in _TRUNCATING if w in full.split(" as ", 1)[0]]
                cx.ob("R-SPLIT-EXHAUSTIVE", "%s/split%d/loop" % (short, k), not cut,
                      "%s: the loop over the parts visits all of them" % short if not cut else
                      "%s: the loop over the parts of the value is cut short by `%s`: parts beyond the expected number are "
                      "never looked at, so an over-long value is accepted as its first parts" % (short, cut[0].rstrip("<")),
                      cx.where(f.term(lp.header)["span"]))
            k += 1
    # (c) white space is white space: the tokenizer (normalize, split_into_steps, split_into_parameters ...) collapses and
    # splits at Unicode white space throughout - a pass that only knows ASCII blanks leaves a no-break space glued to a
    # token, where a later pass then sees a separator: normalisation is no longer idempotent
    kinds = {}
    for name in sorted(cx.f.lib["fns"]):
        if "::tests::" in name or not name.startswith(("<T as token::Tokenize>::", "token::")):
            continue
        f = cx.f.fn(name)
        for bb, t in f.calls():
            tail = (f.callee(t) or "").rsplit("::", 1)[-1]
            if tail in ("split_whitespace", "split_ascii_whitespace"):
                kinds.setdefault(tail, []).append((name, t))
    if kinds:
        ascii_ = kinds.get("split_ascii_whitespace", [])
        cx.ob("R-SPLIT-EXHAUSTIVE", "tokenizer/whitespace-kind", not ascii_ or "split_whitespace" not in kinds,
              "the tokenizer splits at the same kind of white space throughout (%d sites)" % sum(len(v) for v in kinds.values())
              if not ascii_ or "split_whitespace" not in kinds else
              "%s splits at ASCII white space only while the rest of the tokenizer splits at Unicode white space: a definition "
              "spelled with a no-break (or other non-ASCII) space normalizes differently from the ordinary-space spelling, and "
              "normalisation is not idempotent" % ascii_[0][0], cx.where(ascii_[0][1]["span"]) if ascii_ else None)
    cx.count("R-SPLIT-EXHAUSTIVE", "splits", n)


@rule("R-SEXAGESIMAL-REFUSALS", ["C16", "C19"])
def r_sexagesimal_refusals(cx):
    """parse_sexagesimal turns `d:m:s` text into the value written: NaN (which the typed extraction turns into BadParam) is
    returned for text that is not a number - empty, a part that does not parse, too many parts - and never because of
    the *size* of a part: `12:30:59.5`, `0:59.75` are ordinary angles. No NaN result of the function is decided by a
    comparison of a parsed value with constants (a range check like `(0.0..=59.0).contains(&v)`)."""
    import elems as E
    import guards
    name = "math::angular::parse_sexagesimal"
    if not cx.f.has_fn(name):
        cx.ob("R-SEXAGESIMAL-REFUSALS", "anchor", False, "anchor-missing: %s" % name)
        return
    f = cx.f.fn(name)
    n = 0
    for bb, i, st in f.all_stmts():
        if not (st["k"] == "assign" and st["place"]["l"] == 0 and not st["place"]["p"] and st["rv"]["k"] == "use"):
            continue
        v = mir.strip_refs(f.rvalue(st["rv"], (bb, i)))
        if not (v[0] == "const" and isinstance(v[2], tuple) and str(v[2][-1]).lower() == "nan"):
            continue
        n += 1
        bad = None
        # the tests that lead here: those that dominate the block, and - for a condition written as a chain of `||` - the
        # switches whose edges meet in it
        conds = [at for at, tv in guards.branch_facts(f, bb)]
        seen_b, work = set(), [bb]
        while work and len(seen_b) < 60:
            x = work.pop()
            for pb in f.pred[x]:
                if pb in seen_b or pb not in f.reachable() or f.innermost_loop(pb) is not f.innermost_loop(bb):
                    continue
                seen_b.add(pb)
                tt = f.term(pb)
                if tt["k"] == "switch":
                    conds.extend(guards.atoms(f, f.operand(tt["discr"], f.end_point(pb))))
                    # a chain of `||`: the earlier tests fall through to this one
                    if len(f.pred[pb]) == 1 and f.term(f.pred[pb][0])["k"] == "switch":
                        work.append(pb)
                else:
                    work.append(pb)
        for at in conds:
            at = mir.strip_refs(at)
            parsed = []
            mir.walk(at, lambda y: (parsed.append(1) if y[0] == "call" and isinstance(y[1], str) and y[1].endswith("str>::parse") else None) or True)
            # a comparison with a floating point constant can only be about the size of a part (the stored parts may be
            # seen through an array carried round the loop, where the parse call is not visible any more)
            if at[0] == "bin" and at[1] in ("Lt", "Le", "Gt", "Ge") and any(
                    mir.strip_refs(z)[0] == "const" and isinstance(mir.strip_refs(z)[2], tuple) and mir.strip_refs(z)[2][0] == "float"
                    for z in (at[2], at[3])):
                bad = "a comparison of a part with a floating point constant"
            if not parsed:
                continue
            if at[0] == "bin" and at[1] in ("Lt", "Le", "Gt", "Ge"):
                bad = "a comparison of a parsed part with a constant"
            if at[0] == "call" and isinstance(at[1], str) and at[1].endswith("::contains") and "Range" in at[1]:
                bad = "a range test of a parsed part"
        cx.ob("R-SEXAGESIMAL-REFUSALS", "nan%d" % (n - 1), bad is None,
              "this NaN result is decided by the form of the text" if bad is None else
              "parse_sexagesimal returns NaN on %s: well-formed angles whose minutes or seconds fall outside that range "
              "(59.5 seconds) are rejected as malformed" % bad, cx.where(st.get("span")))
    cx.count("R-SEXAGESIMAL-REFUSALS", "nan_results", n)
