"""Exact algebraic identities and a generic ordering idiom."""
import mir
from rulebase import rule
from .numeric import _fnum


def _rf(t, atom, depth=0):
    """term -> (num Poly, den Poly); atom(t) -> symbol name or None"""
    from poly import Poly
    from fractions import Fraction
    t = mir.strip_refs(t)
    if depth > 40:
        return None
    s = atom(t)
    if s is not None:
        return (Poly.sym(s), Poly.const(1))
    v = _fnum(t)
    if v is not None:
        return (Poly.const(Fraction(v).limit_denominator(10**9)), Poly.const(1))
    if t[0] == "cast":
        return _rf(t[2], atom, depth + 1)
    if t[0] == "un" and t[1] == "Neg":
        r = _rf(t[2], atom, depth + 1)
        return None if r is None else (Poly.const(0) - r[0], r[1])
    if t[0] == "bin" and t[1] in ("Add", "Sub", "Mul", "Div"):
        a, b = _rf(t[2], atom, depth + 1), _rf(t[3], atom, depth + 1)
        if a is None or b is None:
            return None
        if t[1] == "Add":
            return (a[0] * b[1] + b[0] * a[1], a[1] * b[1])
        if t[1] == "Sub":
            return (a[0] * b[1] - b[0] * a[1], a[1] * b[1])
        if t[1] == "Mul":
            return (a[0] * b[0], a[1] * b[1])
        return (a[0] * b[1], a[1] * b[0])
    if t[0] == "call" and isinstance(t[1], str):
        tail = t[1].rsplit("::", 1)[-1]
        if tail == "recip" and t[2]:
            r = _rf(t[2][0], atom, depth + 1)
            return None if r is None else (r[1], r[0])
        if tail == "powi" and len(t[2]) == 2 and t[2][1][0] == "const" and isinstance(t[2][1][2], int) and 0 <= t[2][1][2] <= 6:
            r = _rf(t[2][0], atom, depth + 1)
            if r is None:
                return None
            from poly import Poly as P
            n, d = P.const(1), P.const(1)
            for _ in range(t[2][1][2]):
                n, d = n * r[0], d * r[1]
            return (n, d)
        if tail == "mul_add" and len(t[2]) == 3:
            a, b, c = (_rf(x, atom, depth + 1) for x in t[2])
            if a is None or b is None or c is None:
                return None
            return (a[0] * b[0] * c[1] + c[0] * a[1] * b[1], a[1] * b[1] * c[1])
    return None


@rule("R-CURVATURE-MEANS", ["C14", "C06"])
def r_curvature_means(cx):
    """The `curvature` operator combines the meridional radius M and the prime vertical radius N in three modes. Each
    combined value, read as a rational function of M, N and the sine / cosine of the azimuth, satisfies its defining
    identity exactly: gaussian R^2 = M N, mean (harmonic) R (M + N) = 2 M N, azimuthal (Euler) R (N cos^2 + M sin^2) = M N."""
    from poly import Poly
    f = cx.f.fn("inner_op::curvature::fwd")
    M, N, S, C = Poly.sym("M"), Poly.sym("N"), Poly.sym("S"), Poly.sym("C")
    one, two = Poly.const(1), Poly.const(2)

    def atom(t):
        if t[0] == "call" and isinstance(t[1], str):
            if t[1].endswith("::meridian_radius_of_curvature"):
                return "M"
            if t[1].endswith("::prime_vertical_radius_of_curvature"):
                return "N"
        if t[0] == "proj" and t[1][0] == "call" and isinstance(t[1][1], str) and t[1][1].endswith("::sin_cos") \
                and isinstance(t[2], tuple) and t[2][0] == "f":
            return "S" if t[2][1] == 0 else "C"
        return None
    found = {}
    n = 0
    for bb, t in f.calls():
        c = f.callee(t) or ""
        if not c.endswith("::set_xy"):
            continue
        a = f.arg_terms(bb)
        if len(a) < 3:
            continue
        v = mir.strip_refs(a[2])
        ms = set()
        mir.walk(v, lambda x: (ms.add(atom(x)) if isinstance(x, tuple) and x and atom(x) else None) or True)
        if not {"M", "N"} <= ms:
            continue
        n += 1
        sq = False
        if v[0] == "call" and isinstance(v[1], str) and v[1].endswith("::sqrt") and v[2]:
            v, sq = v[2][0], True
        r = _rf(v, atom)
        kind = None
        if r is not None:
            num, den = r
            if sq and num == M * N * den:
                kind = "gaussian"
            elif not sq and num * (M + N) == two * M * N * den:
                kind = "mean"
            elif not sq and num * (N * C * C + M * S * S) == M * N * den:
                kind = "azimuthal"
        ok = kind is not None and kind not in found
        if kind:
            found[kind] = 1
        cx.ob("R-CURVATURE-MEANS", "combined%d" % (n - 1) if kind is None else kind, ok,
              "the %s radius satisfies its defining identity in (M, N, azimuth)" % kind if ok else
              "curvature: a value combining the meridional and the prime vertical radius is none of sqrt(M N), the "
              "harmonic mean 2 M N / (M + N), or Euler's M N / (N cos^2 + M sin^2)" + ("" if r is None else ": it is (%s)/(%s)" % r),
              cx.where(t["span"]))
    for k in ("gaussian", "mean", "azimuthal"):
        if k not in found:
            cx.ob("R-CURVATURE-MEANS", k, False, "curvature: no value satisfies the %s identity" % k, cx.where(f.d["span"]))
    cx.count("R-CURVATURE-MEANS", "combined_values", n)


SORTS = ("sort", "sort_unstable", "sort_by", "sort_by_key", "sort_unstable_by", "sort_unstable_by_key", "sort_by_cached_key")


@rule("R-DEDUP-SORTED", ["C11"])
def r_dedup_sorted(cx):
    """`Vec::dedup*` removes *adjacent* repetitions only. Wherever adapt, axisswap or unitconvert de-duplicate a vector (to detect or to
    remove repeated entries: duplicate axes, repeated names), a sort of the same vector dominates the call - otherwise
    only neighbouring duplicates are seen. (No such call exists on the reviewed tree: the rule is kept alive by a
    self-test mutant.)"""
    n = 0
    fns = 0
    for name in sorted(cx.f.lib["fns"]):
        if "::tests::" in name or name.endswith("::tests"):
            continue
        if not name.startswith(("inner_op::adapt::", "inner_op::axisswap::", "inner_op::unitconvert::", "inner_op::units::")):
            continue    # the operators C11 is about
        f = cx.f.fn(name)
        fns += 1
        calls = list(f.calls())
        for bb, t in calls:
            c = f.callee(t) or ""
            tail = c.rsplit("::", 1)[-1]
            if not (tail in ("dedup", "dedup_by", "dedup_by_key") and "Vec" in c):
                continue
            a = f.arg_terms(bb)
            place = a[0][2] if a and a[0][0] == "refplace" else None
            n += 1
            ok = False
            for b2, t2 in calls:
                c2 = f.callee(t2) or ""
                if c2.rsplit("::", 1)[-1] not in SORTS or b2 == bb or not f.dominates(b2, bb):
                    continue
                hit = []
                for x in f.arg_terms(b2)[:1]:
                    mir.walk(x, lambda y: (hit.append(1) if isinstance(y, tuple) and y and y[0] == "refplace" and (place is None or y[2] == place) else None) or True)
                if hit:
                    ok = True
            cx.ob("R-DEDUP-SORTED", "%s/dedup%d" % (name, n - 1), ok,
                  "the vector is sorted before it is de-duplicated" if ok else
                  "%s de-duplicates a vector that was not sorted first: `dedup` only removes adjacent repetitions, so "
                  "non-neighbouring duplicates (order=1,2,1) go unnoticed" % name, cx.where(t["span"]))
    cx.ob("R-DEDUP-SORTED", "scan", fns > 0, "%d library functions scanned, %d dedup call(s)" % (fns, n), "src/")
    cx.count("R-DEDUP-SORTED", "functions_scanned", fns)


LAST_OCCURRENCE = ("rsplit", "rsplit_once", "rsplitn", "rfind", "rsplit_terminator", "rmatches", "rmatch_indices", "rposition")


@rule("R-COMMENT-FIRST", ["C16", "C15", "C20"])
def r_comment_first(cx):
    """A `#` starts a comment that runs to the end of the line - from the *first* `#` on. Wherever the text front ends
    (definition tokenizer, PROJ translator, Gravsoft reader, kp's argument reader) look for the comment character, they
    use a first-occurrence primitive (`split('#')` + first piece, `find`, `split_once`, `starts_with`); none hands `#`
    to a last-occurrence primitive (rsplit_once, rfind, ...), which would keep `a # b` of the line `a # b # c`."""
    n = sites = 0
    scope = {"C16": ("token::", "<T as token::", "op::raw_parameters", "context::"), "C15": ("grid::",), "C20": ()}[cx.pid]
    for where_, fns in (("lib", cx.f.lib["fns"]), ("kp", cx.f.kp["fns"] if cx.pid == "C20" else {})):
        for name in sorted(fns):
            if "::tests" in name:
                continue
            if where_ == "lib" and not name.startswith(scope):
                continue
            try:
                f = cx.f.fn(name, where_)
            except Exception:
                continue
            for bb, t in f.calls():
                a = f.arg_terms(bb)
                hashy = False
                for x in a[1:2]:
                    x = mir.strip_refs(x)
                    if x[0] == "const" and x[2] in (("char", "#"), ("str", "#")):
                        hashy = True
                if not hashy:
                    continue
                sites += 1
                tail = (f.callee(t) or "").rsplit("::", 1)[-1]
                if tail in LAST_OCCURRENCE:
                    n += 1
                    cx.ob("R-COMMENT-FIRST", "%s/%s" % (name, tail), False,
                          "%s looks for the comment character with `%s`: the line is cut at its last `#`, and the words "
                          "between the first and the last `#` are read as data" % (name, tail), cx.where(t["span"]))
    cx.ob("R-COMMENT-FIRST", "scan", sites > 0 and n == 0,
          "%d call(s) handling the comment character `#`, none by a last-occurrence primitive" % sites, "src/")
    cx.count("R-COMMENT-FIRST", "comment_sites", sites)


# ---------------------------------------------------------------------------------------------------------------------
# R-K0-LINEAR (C13, C05, C14, C01): k_0 scales the unshifted plane coordinates, and nothing else

K0_EXEMPT = {"omerc": "kc enters through the constants A and B of the oblique formulas, not as a final scale factor"}
_ARITH = ("Add", "Sub", "Mul", "Div")


def _k0_atom(symtab, inputs=None, f=None):
    inputs = inputs or {}

    def atom(t):
        if t in inputs:
            return inputs[t]
        if f is not None and t[0] == "proj":
            # a parameter handed back by a local helper (`let Setup { k_0, .. } = Setup::new(op)`)
            import elems as E
            t2 = E.look_through_calls(f, t)
            if t2 is not t and t2 != t:
                t = mir.strip_refs(t2)
                if t in inputs:
                    return inputs[t]
        if _fnum(t) is not None:
            return None
        if t[0] == "cast" or (t[0] == "un" and t[1] == "Neg") or (t[0] == "bin" and t[1] in _ARITH):
            return None
        if t[0] == "call" and isinstance(t[1], str):
            tail = t[1].rsplit("::", 1)[-1]
            if t[1].endswith("ParsedParameters::k"):
                return "K"
            if t[1].endswith("ParsedParameters::x"):
                return "X0"
            if t[1].endswith("ParsedParameters::y"):
                return "Y0"
            if tail in ("recip", "powi", "mul_add"):
                return None
        key = repr(t)
        if key not in symtab:
            symtab[key] = ("s%d" % len(symtab), t)
        return symtab[key][0]
    return atom


def _mentions_k(t):
    hit = []
    mir.walk(t, lambda x: (hit.append(1) if x[0] == "call" and isinstance(x[1], str) and
                           x[1].endswith("ParsedParameters::k") else None) or True)
    return bool(hit)


def _has_sym(p, sym):
    return any(sym in dict(k) for k in p.t)


def _indep(num, den, sym):
    """the rational function num/den does not depend on sym (compared with a copy in a fresh symbol)"""
    from poly import Poly, subst
    fresh = sym + "'"
    n2, d2 = subst(num, {sym: Poly.sym(fresh)}), subst(den, {sym: Poly.sym(fresh)})
    return num * d2 == n2 * den


def _children(t):
    for ch in t[1:]:
        if isinstance(ch, tuple):
            if ch and isinstance(ch[0], str):
                yield ch
            else:
                for c2 in ch:
                    if isinstance(c2, tuple) and c2 and isinstance(c2[0], str):
                        yield c2


@rule("R-K0-LINEAR", ["C13", "C05", "C14", "C01"])
def r_k0_linear(cx):
    """For the projections that read k_0 in their forward / inverse functions (merc, lcc, btmerc, butm): read as exact
    rational functions of k_0, x_0 / y_0 and opaque sub-terms, (a) the forward easting and northing are
    `offset + k_0 * G` with G free of k_0 and offset exactly x_0 resp. y_0 - nothing but the false origin escapes the
    scaling (a meridian arc of lat_0 subtracted outside the bracket does); (b) in the inverse every arithmetic expression
    of the input easting / northing depends on it only through (input - offset) / k_0 - substituting
    input = k_0 u + offset leaves no k_0 and no offset behind (an origin arc added inside the division does)."""
    from poly import Poly, subst
    from rules.projections import written_xy_terms, input_xy_terms, PLANE
    import pertuple
    reg = cx.registry()
    n = 0
    done = set()
    for cpath, c in sorted(reg.ctors.items()):
        names = [x for x in c.names if x in PLANE]
        if not names or not c.fwd or not c.inv or names[0] in K0_EXEMPT:
            continue
        f = cx.f.fn(c.fwd)
        if (c.fwd, c.inv) in done:
            continue
        mod = c.fwd.rsplit("::", 1)[0] + "::"
        readers = [f] + [cx.f.fn(x) for x in reg.reachable_from([c.fwd], follow_virtual=False)
                         if x.startswith(mod) and x != c.fwd and cx.f.has_fn(x)]
        if not any((h.callee(t) or "").endswith("ParsedParameters::k") for h in readers for bb, t in h.calls()):
            continue
        done.add((c.fwd, c.inv))
        for pt in pertuple.per_tuple_loops(f):
            for wn, (bb, e, nn) in enumerate(written_xy_terms(f, pt)):
                for axis, term, off in (("x", e, "X0"), ("y", nn, "Y0")):
                    symtab = {}
                    r = _rf(term, _k0_atom(symtab, None, f))
                    n += 1
                    why = None
                    if r is None:
                        why = "is not an arithmetic expression the analysis can read"
                    else:
                        num, den = r
                        if [1 for s, (nm, tt) in symtab.items() if _mentions_k(tt)]:
                            why = "uses k_0 inside a non-linear function"
                        elif _has_sym(den, "K") or max(dict(k).get("K", 0) for k in num.t) > 1:
                            why = "is not linear in k_0"
                        elif not (subst(num, {"K": Poly.const(0)}) == Poly.sym(off) * den):
                            why = "has a part other than %s_0 that is not multiplied by k_0" % axis
                    cx.ob("R-K0-LINEAR", "%s/fwd/write%d/%s" % (names[0], wn, axis), why is None,
                          "%s forward: %s = %s_0 + k_0 * G" % (names[0], "easting" if axis == "x" else "northing", axis)
                          if why is None else
                          "%s forward: the %s %s: k_0 no longer scales the unshifted coordinate as a whole (e.g. the meridian "
                          "arc of lat_0 escapes the scaling: off by (1 - k_0) * arc for lat_0 != 0, k_0 != 1)" % (
                              names[0], "easting" if axis == "x" else "northing", why), cx.where(f.term(bb)["span"]))
        g = cx.f.fn(c.inv)
        for pt in pertuple.per_tuple_loops(g):
            xs, ys = input_xy_terms(g, pt)
            inputs = {}
            for t in xs:
                inputs[t] = "XIN"
            for t in ys:
                inputs[t] = "YIN"
            for wn, (bb, e, nn) in enumerate(written_xy_terms(g, pt)):
                found, seen = [], set()

                def collect(t, depth=0):
                    t = mir.strip_refs(t)
                    if depth > 40 or not isinstance(t, tuple):
                        return
                    try:
                        if t in seen:
                            return
                        seen.add(t)
                    except TypeError:
                        return
                    symtab = {}
                    r = _rf(t, _k0_atom(symtab, inputs, g)) if t not in inputs else None
                    if r is not None and any(_has_sym(p, s) for p in r for s in ("XIN", "YIN")):
                        found.append((t, r))
                        for s, (nm, tt) in symtab.items():
                            for ch in _children(tt):
                                collect(ch, depth + 1)
                        return
                    for ch in _children(t):
                        collect(ch, depth + 1)
                collect(e)
                collect(nn)
                bad = []
                uses = 0
                for t, (num, den) in found:
                    for IN, OFF in (("XIN", "X0"), ("YIN", "Y0")):
                        if not (_has_sym(num, IN) or _has_sym(den, IN)):
                            continue
                        uses += 1
                        m = {IN: Poly.sym("K") * Poly.sym("u") + Poly.sym(OFF)}
                        n2, d2 = subst(num, m), subst(den, m)
                        if not (_indep(n2, d2, "K") and _indep(n2, d2, OFF)):
                            bad.append((IN, t))
                if uses == 0:
                    continue        # a special case that writes constants (the cone apex of lcc)
                n += 1
                ok = not bad
                cx.ob("R-K0-LINEAR", "%s/inv/write%d" % (names[0], wn), ok,
                      "%s inverse: the input enters only as (input - offset) / k_0 (%d expressions)" % (names[0], uses) if ok else
                      ("%s inverse: the input %s is combined with something else before the division by k_0 (or the false "
                       "origin is not removed first): %s" % (names[0], "easting" if bad[0][0] == "XIN" else "northing",
                                                             mir.show(bad[0][1], maxd=3)[:90]) if bad else ""), cx.where(g.term(bb)["span"]))
    # constants a constructor (or its helpers) derives from k_0 and stores: proportional to k_0 (`R = k_0 a sqrt(1-es) /
    # (..)`, `scaled_radius = k_0 a Q`) - k_0 under a square root, squared, or added to something is not a scale factor
    m = 0
    for cpath, c in sorted(reg.ctors.items()):
        names = [x for x in c.names if x in PLANE]
        if not names or names[0] in K0_EXEMPT:
            continue
        mod = cpath.rsplit("::", 1)[0] + "::"
        for gname in sorted(set(reg.reachable_from([cpath], follow_virtual=False))):
            if not (gname.startswith(mod) and cx.f.has_fn(gname)) or gname in (c.fwd, c.inv):
                continue
            g = cx.f.fn(gname)
            import keys as K_
            for (bb, mp, key, val) in K_.inserts_in(cx.f, g):
                if mp != "real" or val is None or key == "k_0":
                    continue
                reads = []
                mir.walk(val, lambda y: (reads.append(1) if _is_k0_read(mir.strip_refs(y)) else None) or True)
                if not reads:
                    continue
                symtab = {}
                base = _k0_atom(symtab)

                def atom(t, base=base):
                    if _is_k0_read(mir.strip_refs(t)):
                        return "K"
                    return base(t)
                r = _rf(val, atom)
                m += 1
                hidden = [1 for s_, (nm, tt) in symtab.items() if [1 for y in [tt] if _mentions_k0_read(y)]]
                ok = False
                if r is not None and not hidden and {dict(k).get("K", 0) for k in r[1].t} == {0} and \
                        {dict(k).get("K", 0) for k in r[0].t} <= {0, 1}:
                    at0 = subst(r[0], {"K": Poly.const(0)})
                    # proportional to k_0, or a false origin plus something proportional to k_0 (tmerc's `zb`)
                    ok = at0.is_zero() or at0 == Poly.sym("X0") * r[1] or at0 == Poly.sym("Y0") * r[1]
                cx.ob("R-K0-LINEAR", "%s/stored/%s" % (names[0], key), ok,
                      "%s: the stored constant `%s` is proportional to k_0" % (names[0], key) if ok else
                      "%s stores `%s`, derived from k_0, but not proportional to it (k_0 inside a root or another function, "
                      "squared, or added to something): k_0 then does not scale the plane coordinates linearly" % (names[0], key),
                      cx.where(g.term(bb)["span"]))
    cx.count("R-K0-LINEAR", "stored_constants", m)
    cx.count("R-K0-LINEAR", "judged", n)


@rule("R-TABLE-LOOKUP-EXACT", ["C06", "C14"])
def r_table_lookup_exact(cx):
    """A named ellipsoid is the table entry whose name *equals* the name asked for. The search predicates of
    Ellipsoid::named and TriaxialEllipsoid::named (closures handed to position / find over ELLIPSOID_LIST) are equality
    comparisons - not prefix, suffix, substring or case-folded matches, which make `clrk80ign` resolve to the earlier
    entry `clrk80` - and the two sibling constructors use the same predicate."""
    import elems as E
    kinds = {}
    n = 0
    for fn in ("ellipsoid::biaxial::Ellipsoid::named", "ellipsoid::triaxial::TriaxialEllipsoid::named"):
        if not cx.f.has_fn(fn):
            cx.ob("R-TABLE-LOOKUP-EXACT", fn, False, "anchor-missing: %s" % fn)
            continue
        f = cx.f.fn(fn)
        found = False
        for bb, t in f.calls():
            tail = (f.callee(t) or "").rsplit("::", 1)[-1]
            if tail not in ("position", "find", "any", "find_map", "filter"):
                continue
            for a in f.arg_terms(bb):
                if a[0] == "agg" and isinstance(a[1], tuple) and a[1][0] == "closure" and cx.f.has_fn(a[1][1]):
                    g = cx.f.fn(a[1][1])
                    rt = E.return_term(g)
                    rt = mir.strip_refs(rt) if rt is not None else ("unknown",)
                    found = True
                    n += 1
                    kind = None
                    if rt[0] == "call" and isinstance(rt[1], str):
                        kind = rt[1].rsplit("::", 1)[-1]
                    elif rt[0] == "bin":
                        kind = rt[1]
                    ok = kind in ("eq", "Eq")
                    kinds[fn] = kind
                    cx.ob("R-TABLE-LOOKUP-EXACT", fn, ok,
                          "%s looks the name up by equality" % fn if ok else
                          "%s matches table names by `%s`, not by equality: a name that merely starts with (contains, ...) "
                          "an earlier entry resolves to that entry (`clrk80ign` becomes `clrk80`)" % (fn, kind),
                          cx.where(t["span"]))
        if not found:
            cx.ob("R-TABLE-LOOKUP-EXACT", fn, False, "anchor-missing: no search predicate over the ellipsoid table in %s" % fn,
                  cx.where(f.d["span"]))
    cx.count("R-TABLE-LOOKUP-EXACT", "predicates", n)


@rule("R-LIMIT-ON-PLANE", ["C10", "C13"])
def r_limit_on_plane(cx):
    """Where the forward and the inverse function of a projection guard their domain with the same constant (the
    transverse Mercator strip: 2.623395162778 in units of the normalised easting), both test the same quantity of the
    plane: the forward tests the very value that, scaled, becomes the written easting / northing (it is an arithmetic
    factor of the written coordinate, not an input to a trigonometric function on the way there), and the inverse tests
    an arithmetic function of the input coordinate. A forward test moved up to the raw longitude difference lets
    low-latitude tuples 82 to 150 degrees from the central meridian through with absurd but finite eastings."""
    from rules.projections import written_xy_terms, input_xy_terms, _num, PLANE
    from rules.loops import classify_write
    import pertuple

    def guards_with_terms(f, pt):
        out = []
        nan_blocks = {bb for bb, m in pt.writes if classify_write(f, bb, m) == "nan"}
        for bb in sorted(pt.lp.body):
            sw = f.term(bb)
            if sw["k"] != "switch" or bb == pt.header:
                continue
            c = f.operand(sw["discr"], f.end_point(bb))
            if c[0] != "bin" or c[1] not in ("Gt", "Ge", "Lt", "Le"):
                continue
            hits = False
            for s_ in f.succ[bb]:
                reach = f.reach_from([s_], avoid=[pt.header] + [b for b, m in pt.writes if b not in nan_blocks])
                if reach & nan_blocks:
                    hits = True
            if not hits:
                continue
            for x, k in ((c[2], c[3]), (c[3], c[2])):
                kv = _num(k)
                if kv is None:
                    continue
                xs = mir.strip_refs(x)
                if xs[0] == "call" and isinstance(xs[1], str) and xs[1].split("::")[-1] == "abs":
                    xs = mir.strip_refs(xs[2][0])
                out.append((abs(kv), xs, sw["span"]))
        return out
    reg = cx.registry()
    n = 0
    done = set()
    for cpath, c in sorted(reg.ctors.items()):
        if not c.fwd or not c.inv or c.fwd == c.inv or (c.fwd, c.inv) in done:
            continue
        if not [x for x in c.names if x in PLANE]:
            continue        # plane projections only
        done.add((c.fwd, c.inv))
        f, g = cx.f.fn(c.fwd), cx.f.fn(c.inv)
        gf = [(k, q, sp, pt) for pt in pertuple.per_tuple_loops(f) for (k, q, sp) in guards_with_terms(f, pt)]
        gi = [(k, q, sp, pt) for pt in pertuple.per_tuple_loops(g) for (k, q, sp) in guards_with_terms(g, pt)]
        for (k, q, sp, pt) in gf:
            if not any(k2 == k for (k2, _, _, _) in gi) or k == 0:
                continue
            n += 1
            axes = []
            for bb, e, nn in written_xy_terms(f, pt):
                for axis, term in (("x", e), ("y", nn)):
                    symtab = {}
                    base = _k0_atom(symtab)

                    def atom(t, base=base, q=q):
                        if mir.strip_refs(t) == q:
                            return "Q"
                        return base(t)
                    r = _rf(term, atom)
                    if r is not None and (_has_sym(r[0], "Q") or _has_sym(r[1], "Q")):
                        axes.append(axis)
            ok = bool(axes)
            cx.ob("R-LIMIT-ON-PLANE", "%s/fwd/limit=%s" % (c.names[0], float(k)), ok,
                  "%s forward tests the limit %s on the value that is scaled into the written %s" % (
                      c.names[0], float(k), "easting" if "x" in axes else "northing") if ok else
                  "%s forward compares %s with the domain limit %s, which the inverse applies to the normalised plane "
                  "coordinate - but the tested value is not the one that is scaled into the written coordinate: the two "
                  "directions guard different domains" % (c.names[0], mir.show(q, maxd=2)[:50], float(k)), cx.where(sp))
        for (k, q, sp, pt) in gi:
            if not any(k2 == k for (k2, _, _, _) in gf) or k == 0:
                continue
            n += 1
            xs, ys = input_xy_terms(g, pt)
            inputs = {}
            for t in xs:
                inputs[t] = "XIN"
            for t in ys:
                inputs[t] = "YIN"
            r = _rf(q, _k0_atom({}, inputs, g))
            ok = r is not None and any(_has_sym(p, s_) for p in r for s_ in ("XIN", "YIN"))
            if ok:
                # the false origin is removed before the limit is applied: with input = u + offset no offset is left
                from poly import Poly, subst
                for IN, OFF in (("XIN", "X0"), ("YIN", "Y0")):
                    if _has_sym(r[0], IN) or _has_sym(r[1], IN):
                        m_ = {IN: Poly.sym("u") + Poly.sym(OFF)}
                        n2, d2 = subst(r[0], m_), subst(r[1], m_)
                        if not _indep(n2, d2, OFF):
                            ok = False
            cx.ob("R-LIMIT-ON-PLANE", "%s/inv/limit=%s" % (c.names[0], float(k)), ok,
                  "%s inverse tests the limit %s on an arithmetic function of the input coordinate" % (c.names[0], float(k))
                  if ok else "%s inverse: the value compared with the domain limit %s is not an arithmetic function of the "
                  "input easting / northing with the false origin removed (x_0 is then no pure offset: a zone-prefixed false "
                  "easting such as x_0=32500000 pushes every input over the limit)" % (c.names[0], float(k)), cx.where(sp))
    cx.count("R-LIMIT-ON-PLANE", "paired_limits", n)


@rule("R-RF-ZERO-CONVENTION", ["C06", "C14"])
def r_rf_zero_convention(cx):
    """The ellipsoid table follows the EPSG convention that a reciprocal flattening of zero stands for a flattening of
    zero (the spheres of the table). Both constructors that read the table - Ellipsoid::named and
    TriaxialEllipsoid::named - divide by a table rf only where rf != 0 is known (a dominating test of that very value):
    an unguarded `1 / rf` turns the table's spheres into objects of infinite flattening in one of the two constructors."""
    import guards
    n = 0
    for fn in ("ellipsoid::biaxial::Ellipsoid::named", "ellipsoid::triaxial::TriaxialEllipsoid::named"):
        if not cx.f.has_fn(fn):
            cx.ob("R-RF-ZERO-CONVENTION", fn, False, "anchor-missing: %s" % fn)
            continue
        f = cx.f.fn(fn)
        sites = 0
        for bb, i, s in f.all_stmts():
            if not (s["k"] == "assign" and s["rv"]["k"] == "bin" and s["rv"].get("op") == "Div"):
                continue
            v = f.rvalue(s["rv"], (bb, i))
            if v[0] != "bin" or _fnum(mir.strip_refs(v[2])) != 1.0:
                continue
            den = mir.strip_refs(v[3])
            from_table = []
            mir.walk(den, lambda y: (from_table.append(1) if y[0] == "const" and "ELLIPSOID_LIST" in str(y[2]) else None) or True)
            if not from_table:
                continue
            sites += 1
            n += 1
            facts = guards.branch_facts(f, bb)
            ok = any((at[0] == "bin" and at[1] == "Ne" and tv or at[0] == "bin" and at[1] == "Eq" and not tv) and
                     mir.strip_refs(at[2]) == den and _fnum(mir.strip_refs(at[3])) == 0.0 for at, tv in facts)
            cx.ob("R-RF-ZERO-CONVENTION", "%s/div%d" % (fn, sites - 1), ok,
                  "%s divides by a table rf only where rf != 0" % fn if ok else
                  "%s computes 1 / rf for a table entry without having tested rf != 0: the table's spheres (rf = 0) get an "
                  "infinite flattening" % fn, cx.where(s.get("span")))
        if sites == 0:
            n += 1
            cx.ob("R-RF-ZERO-CONVENTION", fn, False,
                  "anchor-missing: %s no longer derives the flattening of a table entry from its rf" % fn, cx.where(f.d["span"]))
    cx.count("R-RF-ZERO-CONVENTION", "table_divisions", n)


@rule("R-POLAR-HEIGHT", ["C14", "C06"])
def r_polar_height(cx):
    """Both cartesian-to-geographic routes (the `cart` operator's inverse and GeoCart::geographic) short-cut the polar
    axis: the latitude is +-90 degrees (copysign of pi/2 with Z) and the height is |Z| - b, b the *semiminor* axis - the
    distance from the pole of the ellipsoid. Wherever one of the two functions subtracts an axis of the ellipsoid from
    |Z|, that axis is the semiminor one (the call semiminor_axis, or a value read from it)."""
    n = 0
    for fn in ("inner_op::cart::cart_inv", "ellipsoid::geocart::GeoCart::geographic"):
        if not cx.f.has_fn(fn):
            cx.ob("R-POLAR-HEIGHT", fn, False, "anchor-missing: %s" % fn)
            continue
        f = cx.f.fn(fn)
        sites = 0
        for bb, i, s in f.all_stmts():
            if not (s["k"] == "assign" and s["rv"]["k"] == "bin" and s["rv"].get("op") == "Sub"):
                continue
            v = f.rvalue(s["rv"], (bb, i))
            if v[0] != "bin":
                continue
            a, b = mir.strip_refs(v[2]), mir.strip_refs(v[3])
            if not (a[0] == "call" and isinstance(a[1], str) and a[1].rsplit("::", 1)[-1] == "abs"):
                continue
            if not (b[0] == "call" and isinstance(b[1], str) and b[1].rsplit("::", 1)[-1] in (
                    "semiminor_axis", "semimajor_axis", "semimedian_axis", "a", "b")):
                continue
            sites += 1
            n += 1
            ok = b[1].rsplit("::", 1)[-1] in ("semiminor_axis", "b")
            cx.ob("R-POLAR-HEIGHT", "%s/height%d" % (fn, sites - 1), ok,
                  "%s: on the polar axis the height is |Z| - b" % fn if ok else
                  "%s computes the height on the polar axis as |Z| minus the %s (must be the semiminor axis): off by a - b, "
                  "about 21 km, exactly at the poles - and different from the other route" % (fn, b[1].rsplit("::", 1)[-1]),
                  cx.where(s.get("span")))
        if sites == 0:
            n += 1
            cx.ob("R-POLAR-HEIGHT", fn, False, "anchor-missing: no polar short-cut |Z| - axis in %s" % fn, cx.where(f.d["span"]))
    cx.count("R-POLAR-HEIGHT", "polar_heights", n)


SUBSCRIPTS = "₀₁₂₃₄₅₆₇₈₉"


@rule("T-SUBSCRIPTS", ["C16"])
def t_subscripts(cx):
    """`lat₂=45` is a spelling of `lat_2=45`: every replacement of `normalize` whose pattern contains a subscript digit
    writes the same digit, behind an underscore, in its place (₂ -> _2, never _1)."""
    from rules.macros import normalize_pairs
    f = cx.f.fn("<T as token::Tokenize>::normalize")
    n = 0
    for pat, rep in normalize_pairs(cx):
        digs = [ch for ch in pat if ch in SUBSCRIPTS]
        if not digs:
            continue
        n += 1
        want = pat
        for ch in digs:
            want = want.replace(ch, "_%d" % SUBSCRIPTS.index(ch))
        ok = rep == want
        cx.ob("T-SUBSCRIPTS", "normalize/%s" % ("sub%d" % SUBSCRIPTS.index(digs[0])), ok,
              "%r is written as %r" % (pat, rep) if ok else
              "normalize rewrites the subscript spelling %r as %r (expected %r): `lat₂=45` then sets another index and "
              "the last-wins rule overwrites it" % (pat, rep, want), cx.where(f.d["span"]))
    cx.count("T-SUBSCRIPTS", "subscript_rules", n)


def _is_k0_read(y):
    import keys as K_
    if y[0] == "call" and isinstance(y[1], str) and (y[1].endswith("ParsedParameters::k") or (
            y[1].endswith("ParsedParameters::real") and len(y[2]) > 1 and K_._const_key(y[2][1]) == "k_0")):
        return True
    if y[0] == "proj" and isinstance(y[2], tuple) and y[2][0] == "elem" and len(y[2]) > 2 and isinstance(y[2][2], tuple) and \
            K_._const_key(y[2][2]) == "k_0":
        return True
    if y[0] == "proj" and y[2] == "deref":
        return _is_k0_read(mir.strip_refs(y[1]))
    if y[0] == "proj" and isinstance(y[2], tuple) and y[2][0] in ("variant", "f"):
        b = mir.strip_refs(y[1])
        if b[0] == "call" and isinstance(b[1], str) and (b[1].endswith("Try>::branch") or b[1].endswith("::unwrap")) and b[2]:
            return _is_k0_read(mir.strip_refs(b[2][0]))
        if b[0] == "proj":
            return _is_k0_read(b)
    return False


def _mentions_k0_read(t):
    hit = []
    mir.walk(t, lambda y: (hit.append(1) if _is_k0_read(mir.strip_refs(y)) else None) or True)
    return bool(hit)


@rule("R-BRANCH-AGREE", ["C05", "C06"])
def r_branch_agree(cx):
    """Where an ancillary function of the projections chooses between two algebraically equivalent formulas for
    numerical reasons (`ts`: cos/(1 + sin) for positive, (1 - sin)/cos for non-positive latitudes), the alternatives are
    the same function: as rational functions of the sine and cosine they are equal modulo sin^2 + cos^2 = 1. A sign
    slip in the branch that the tests do not visit breaks the projection on one hemisphere only."""
    from poly import Poly
    n = 0
    for name in sorted(cx.f.lib["fns"]):
        if not name.startswith("math::ancillary::") or "::tests" in name or "{closure" in name:
            continue
        f = cx.f.fn(name)
        if f.nargs < 1 or "(f64, f64)" not in str(f.local_ty(1)):
            continue

        def atom(t):
            t = mir.strip_refs(t)
            if t[0] == "proj" and isinstance(t[2], tuple) and t[2][0] == "f" and mir.strip_refs(t[1]) == ("arg", 1):
                return "S" if t[2][1] == 0 else "C"
            return None
        seen = set()
        for bb, i, s in f.all_stmts():
            if s["k"] != "assign":
                continue
            v = f.rvalue(s["rv"], (bb, i))
            phis = []
            mir.walk(v, lambda y: (phis.append(y) if y[0] == "phi" and isinstance(y[1][0], int) and len(y[2]) == 2 else None) or True)
            for ph in phis:
                if ph in seen:
                    continue
                seen.add(ph)
                a, b = _rf(ph[2][0], atom), _rf(ph[2][1], atom)
                if a is None or b is None:
                    continue
                if not (_has_sym(a[0], "S") or _has_sym(a[0], "C") or _has_sym(a[1], "C") or _has_sym(a[1], "S")):
                    continue
                n += 1
                rules = {"C": Poly.const(1) - Poly.sym("S") * Poly.sym("S")}
                lhs = (a[0] * b[1]).reduce(rules)
                rhs = (b[0] * a[1]).reduce(rules)
                ok = lhs == rhs
                cx.ob("R-BRANCH-AGREE", "%s/branch%d" % (name.rsplit("::", 1)[-1], n - 1), ok,
                      "%s: the two alternative formulas are equal modulo sin^2 + cos^2 = 1" % name.rsplit("::", 1)[-1] if ok else
                      "%s chooses between two formulas that are not the same function of (sin, cos): (%s)/(%s) versus (%s)/(%s) - "
                      "one hemisphere gets another value than the other formula would give" % (
                          name.rsplit("::", 1)[-1], a[0], a[1], b[0], b[1]), cx.where(s.get("span")))
    cx.count("R-BRANCH-AGREE", "branch_pairs", n)


@rule("R-CURVATURE-RADIANS", ["C14", "C06"])
def r_curvature_radians(cx):
    """The `curvature` operator reads latitudes in degrees and hands them to the ellipsoid's radius-of-curvature methods,
    which take radians. Every latitude argument of those methods in curvature::fwd is the result of a degree-to-radian
    conversion of the input (to_radians / xy_to_radians) - all call sites alike: a single call that gets the raw degree
    value yields a plausible looking radius that is kilometres off."""
    name = "inner_op::curvature::fwd"
    if not cx.f.has_fn(name):
        cx.ob("R-CURVATURE-RADIANS", "anchor", False, "anchor-missing: %s" % name)
        return
    f = cx.f.fn(name)
    n = 0
    for bb, t in f.calls():
        c = (t.get("callee") or f.callee(t) or "")
        if not c.endswith("_radius_of_curvature"):
            continue
        a = f.arg_terms(bb)
        if len(a) < 2:
            continue
        n += 1
        hit = []
        mir.walk(a[1], lambda y: (hit.append(1) if y[0] == "call" and isinstance(y[1], str) and
                                  y[1].rsplit("::", 1)[-1] in ("to_radians", "xy_to_radians") else None) or True)
        cx.ob("R-CURVATURE-RADIANS", "fwd/call%d" % (n - 1), bool(hit),
              "the latitude handed to %s is converted to radians" % c.rsplit("::", 1)[-1] if hit else
              "curvature::fwd hands a latitude to %s that was not converted from degrees to radians (the other calls are): "
              "the combined radius is computed from radii at two different latitudes" % c.rsplit("::", 1)[-1],
              cx.where(t["span"]))
    cx.count("R-CURVATURE-RADIANS", "radius_calls", n)
