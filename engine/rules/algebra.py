"""Exact algebraic identities and a generic ordering idiom."""
import mir
from rulebase import rule
from .numeric import _fnum


def _rf(t, atom, depth=0):
    """term -> (num Poly, den Poly); atom(t) -> symbol name or None"""
    from poly import Poly
    from fractions import Fraction
    t = mir.strip_refs(t)
    if depth > 40:
        return None
    s = atom(t)
    if s is not None:
        return (Poly.sym(s), Poly.const(1))
    v = _fnum(t)
    if v is not None:
        return (Poly.const(Fraction(v).limit_denominator(10**9)), Poly.const(1))
    if t[0] == "cast":
        return _rf(t[2], atom, depth + 1)
    if t[0] == "un" and t[1] == "Neg":
        r = _rf(t[2], atom, depth + 1)
        return None if r is None else (Poly.const(0) - r[0], r[1])
    if t[0] == "bin" and t[1] in ("Add", "Sub", "Mul", "Div"):
        a, b = _rf(t[2], atom, depth + 1), _rf(t[3], atom, depth + 1)
        if a is None or b is None:
            return None
        if t[1] == "Add":
            return (a[0] * b[1] + b[0] * a[1], a[1] * b[1])
        if t[1] == "Sub":
            return (a[0] * b[1] - b[0] * a[1], a[1] * b[1])
        if t[1] == "Mul":
            return (a[0] * b[0], a[1] * b[1])
        return (a[0] * b[1], a[1] * b[0])
    if t[0] == "call" and isinstance(t[1], str):
        tail = t[1].rsplit("::", 1)[-1]
        if tail == "recip" and t[2]:
            r = _rf(t[2][0], atom, depth + 1)
            return None if r is None else (r[1], r[0])
        if tail == "powi" and len(t[2]) == 2 and t[2][1][0] == "const" and isinstance(t[2][1][2], int) and 0 <= t[2][1][2] <= 6:
            r = _rf(t[2][0], atom, depth + 1)
            if r is None:
                return None
            from poly import Poly as P
            n, d = P.const(1), P.const(1)
            for _ in range(t[2][1][2]):
                n, d = n * r[0], d * r[1]
            return (n, d)
        if tail == "mul_add" and len(t[2]) == 3:
            a, b, c = (_rf(x, atom, depth + 1) for x in t[2])
            if a is None or b is None or c is None:
                return None
            return (a[0] * b[0] * c[1] + c[0] * a[1] * b[1], a[1] * b[1] * c[1])
    return None


@rule("R-CURVATURE-MEANS", ["C14", "C06"])
def r_curvature_means(cx):
    """The `curvature` operator combines the meridional radius M and the prime vertical radius N in three modes. Each
    combined value, read as a rational function of M, N and the sine / cosine of the azimuth, satisfies its defining
    identity exactly: gaussian R^2 = M N, mean (harmonic) R (M + N) = 2 M N, azimuthal (Euler) R (N cos^2 + M sin^2) = M N."""
    from poly import Poly
    f = cx.f.fn("inner_op::curvature::fwd")
    M, N, S, C = Poly.sym("M"), Poly.sym("N"), Poly.sym("S"), Poly.sym("C")
    one, two = Poly.const(1), Poly.const(2)

    def atom(t):
        if t[0] == "call" and isinstance(t[1], str):
            if t[1].endswith("::meridian_radius_of_curvature"):
                return "M"
            if t[1].endswith("::prime_vertical_radius_of_curvature"):
                return "N"
        if t[0] == "proj" and t[1][0] == "call" and isinstance(t[1][1], str) and t[1][1].endswith("::sin_cos") \
                and isinstance(t[2], tuple) and t[2][0] == "f":
            return "S" if t[2][1] == 0 else "C"
        return None
    found = {}
    n = 0
    for bb, t in f.calls():
        c = f.callee(t) or ""
        if not c.endswith("::set_xy"):
            continue
        a = f.arg_terms(bb)
        if len(a) < 3:
            continue
        v = mir.strip_refs(a[2])
        ms = set()
        mir.walk(v, lambda x: (ms.add(atom(x)) if isinstance(x, tuple) and x and atom(x) else None) or True)
        if not {"M", "N"} <= ms:
            continue
        n += 1
        sq = False
        if v[0] == "call" and isinstance(v[1], str) and v[1].endswith("::sqrt") and v[2]:
            v, sq = v[2][0], True
        r = _rf(v, atom)
        kind = None
        if r is not None:
            num, den = r
            if sq and num == M * N * den:
                kind = "gaussian"
            elif not sq and num * (M + N) == two * M * N * den:
                kind = "mean"
            elif not sq and num * (N * C * C + M * S * S) == M * N * den:
                kind = "azimuthal"
        ok = kind is not None and kind not in found
        if kind:
            found[kind] = 1
        cx.ob("R-CURVATURE-MEANS", "combined%d" % (n - 1) if kind is None else kind, ok,
              "the %s radius satisfies its defining identity in (M, N, azimuth)" % kind if ok else
              "curvature: a value combining the meridional and the prime vertical radius is none of sqrt(M N), the "
              "harmonic mean 2 M N / (M + N), or Euler's M N / (N cos^2 + M sin^2)" + ("" if r is None else ": it is (%s)/(%s)" % r),
              cx.where(t["span"]))
    for k in ("gaussian", "mean", "azimuthal"):
        if k not in found:
            cx.ob("R-CURVATURE-MEANS", k, False, "curvature: no value satisfies the %s identity" % k, cx.where(f.d["span"]))
    cx.count("R-CURVATURE-MEANS", "combined_values", n)


SORTS = ("sort", "sort_unstable", "sort_by", "sort_by_key", "sort_unstable_by", "sort_unstable_by_key", "sort_by_cached_key")


@rule("R-DEDUP-SORTED", ["C11"])
def r_dedup_sorted(cx):
    """`Vec::dedup*` removes *adjacent* repetitions only. Wherever adapt, axisswap or unitconvert de-duplicate a vector (to detect or to
    remove repeated entries: duplicate axes, repeated names), a sort of the same vector dominates the call - otherwise
    only neighbouring duplicates are seen. (No such call exists on the reviewed tree: the rule is kept alive by a
    self-test mutant.)"""
    n = 0
    fns = 0
    for name in sorted(cx.f.lib["fns"]):
        if "::tests::" in name or name.endswith("::tests"):
            continue
        if not name.startswith(("inner_op::adapt::", "inner_op::axisswap::", "inner_op::unitconvert::", "inner_op::units::")):
            continue    # the operators C11 is about
        f = cx.f.fn(name)
        fns += 1
        calls = list(f.calls())
        for bb, t in calls:
            c = f.callee(t) or ""
            tail = c.rsplit("::", 1)[-1]
            if not (tail in ("dedup", "dedup_by", "dedup_by_key") and "Vec" in c):
                continue
            a = f.arg_terms(bb)
            place = a[0][2] if a and a[0][0] == "refplace" else None
            n += 1
            ok = False
            for b2, t2 in calls:
                c2 = f.callee(t2) or ""
                if c2.rsplit("::", 1)[-1] not in SORTS or b2 == bb or not f.dominates(b2, bb):
                    continue
                hit = []
                for x in f.arg_terms(b2)[:1]:
                    mir.walk(x, lambda y: (hit.append(1) if isinstance(y, tuple) and y and y[0] == "refplace" and (place is None or y[2] == place) else None) or True)
                if hit:
                    ok = True
            cx.ob("R-DEDUP-SORTED", "%s/dedup%d" % (name, n - 1), ok,
                  "the vector is sorted before it is de-duplicated" if ok else
                  "%s de-duplicates a vector that was not sorted first: `dedup` only removes adjacent repetitions, so "
                  "non-neighbouring duplicates (order=1,2,1) go unnoticed" % name, cx.where(t["span"]))
    cx.ob("R-DEDUP-SORTED", "scan", fns > 0, "%d library functions scanned, %d dedup call(s)" % (fns, n), "src/")
    cx.count("R-DEDUP-SORTED", "functions_scanned", fns)


LAST_OCCURRENCE = ("rsplit", "rsplit_once", "rsplitn", "rfind", "rsplit_terminator", "rmatches", "rmatch_indices", "rposition")


@rule("R-COMMENT-FIRST", ["C16", "C15", "C20"])
def r_comment_first(cx):
    """A `#` starts a comment that runs to the end of the line - from the *first* `#` on. Wherever the text front ends
    (definition tokenizer, PROJ translator, Gravsoft reader, kp's argument reader) look for the comment character, they
    use a first-occurrence primitive (`split('#')` + first piece, `find`, `split_once`, `starts_with`); none hands `#`
    to a last-occurrence primitive (rsplit_once, rfind, ...), which would keep `a # b` of the line `a # b # c`."""
    n = sites = 0
    scope = {"C16": ("token::", "<T as token::", "op::raw_parameters", "context::"), "C15": ("grid::",), "C20": ()}[cx.pid]
    for where_, fns in (("lib", cx.f.lib["fns"]), ("kp", cx.f.kp["fns"] if cx.pid == "C20" else {})):
        for name in sorted(fns):
            if "::tests" in name:
                continue
            if where_ == "lib" and not name.startswith(scope):
                continue
            try:
                f = cx.f.fn(name, where_)
            except Exception:
                continue
            for bb, t in f.calls():
                a = f.arg_terms(bb)
                hashy = False
                for x in a[1:2]:
                    x = mir.strip_refs(x)
                    if x[0] == "const" and x[2] in (("char", "#"), ("str", "#")):
                        hashy = True
                if not hashy:
                    continue
                sites += 1
                tail = (f.callee(t) or "").rsplit("::", 1)[-1]
                if tail in LAST_OCCURRENCE:
                    n += 1
                    cx.ob("R-COMMENT-FIRST", "%s/%s" % (name, tail), False,
                          "%s looks for the comment character with `%s`: the line is cut at its last `#`, and the words "
                          "between the first and the last `#` are read as data" % (name, tail), cx.where(t["span"]))
    cx.ob("R-COMMENT-FIRST", "scan", sites > 0 and n == 0,
          "%d call(s) handling the comment character `#`, none by a last-occurrence primitive" % sites, "src/")
    cx.count("R-COMMENT-FIRST", "comment_sites", sites)
