from . import tables  # noqa: F401
from . import loops  # noqa: F401
from . import keysrules  # noqa: F401
from . import panics  # noqa: F401
from . import decoder  # noqa: F401
from . import pipeline  # noqa: F401
from . import macros  # noqa: F401
from . import projections  # noqa: F401
