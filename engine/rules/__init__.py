from . import tables  # noqa: F401
from . import loops  # noqa: F401
