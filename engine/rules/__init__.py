from . import tables  # noqa: F401
