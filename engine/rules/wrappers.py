"""R-WRAPPER-DISPATCH (C14): the thin wrapper operators delegate each variant to the ellipsoid method of that name.

`latitude`, `curvature` and `gravity` select, by a flag (or by the action derived from a flag), which method of the
ellipsoid they apply to every tuple. The operator and the method are "two routes to the same result" only if the
flag selects the method it names: the per-tuple loop controlled by the flag calls exactly the tabled method(s) of the
family (spec/wrappers.json), forward and inverse."""
import keys as K
import mir
import pertuple
import slicing
from rulebase import rule, spec
from rules.keysrules import str_eq_guards


def _controlling_flag(f, header):
    """the flag whose `true` side the block is on: nearest control dependence on a test of params.boolean(FLAG)"""
    cd = slicing.control_deps(f)
    seen = set()
    frontier = [header]
    while frontier:
        nxt = []
        for b in frontier:
            for a in sorted(cd.get(b, ())):
                if a in seen:
                    continue
                seen.add(a)
                t = f.term(a)
                if t["k"] == "switch":
                    c = f.operand(t["discr"], f.end_point(a))
                    flags = []

                    def v(x):
                        if x[0] == "call" and x[1] == K.PP + "::boolean" and len(x[2]) > 1:
                            k = K._const_key(x[2][1])
                            if k:
                                flags.append(k)
                        return True
                    mir.walk(c, v)
                    if len(flags) == 1 and c[0] == "call":
                        true_bb = t["otherwise"]
                        if f.dominates(true_bb, header) and len(f.pred[true_bb]) == 1:
                            return flags[0]
                nxt.append(a)
        frontier = nxt
    return None


def _controlling_flags(f, header):
    """all flags with a test on whose true side (directly, or through `a || b`) the block lies"""
    out = set()
    cd = slicing.control_deps(f)
    seen = set()
    work = [header]
    while work:
        b = work.pop()
        for a in cd.get(b, ()):
            if a in seen:
                continue
            seen.add(a)
            work.append(a)
            t = f.term(a)
            if t["k"] != "switch":
                continue
            c = f.operand(t["discr"], f.end_point(a))
            if c[0] == "call" and c[1] == K.PP + "::boolean" and len(c[2]) > 1:
                k = K._const_key(c[2][1])
                true_bb = t["otherwise"]
                # on the true side: the header is reachable from the true successor without passing the test again
                if k and header in f.reach_from([true_bb], avoid=(a,)):
                    false_bb = [x for v, x in t["targets"] if v == 0]
                    # and not reachable from the false side alone *before any other flag test says yes*: keep simple -
                    # record the flag; the rule below accepts any of the recorded flags
                    out.add((k, a))
    return out


@rule("R-WRAPPER-DISPATCH", ["C14"])
def r_wrapper_dispatch(cx):
    sp = spec("wrappers.json")
    reg = cx.registry()
    n = 0
    for cpath, c in sorted(reg.ctors.items()):
        opname = next((x for x in c.names if x in sp and "vocabulary" in sp.get(x, {})), None)
        if opname is None:
            continue
        voc = sp[opname]["vocabulary"]
        for role, fn in (("fwd", c.fwd), ("inv", c.inv)):
            if not fn or role not in sp[opname]:
                continue
            table = sp[opname][role]
            f = cx.f.fn(fn)
            seen_flags = set()
            for pt in pertuple.per_tuple_loops(f):
                used = set()
                for bb, t in f.calls():
                    if bb in pt.lp.body:
                        cal = t.get("callee") or f.callee(t) or ""
                        if voc in cal:
                            used.add(cal.rsplit("::", 1)[-1])
                if not used:
                    continue
                flags = {k for k, _ in _controlling_flags(f, pt.header)}
                # the nearest flag: the one whose test dominates the loop and is itself not followed by another
                # flag test on the way; with `if a {..} else if b {..}` the loop of b is also on the *false* side
                # of a, which _controlling_flags does not record - so `flags` holds the flags that say yes
                cands = [k for k in flags if k in table]
                n += 1
                ok = bool(cands) and all(set(table[k]) == used for k in cands)
                for k in cands:
                    seen_flags.add(k)
                cx.ob("R-WRAPPER-DISPATCH", "%s/%s/%s" % (opname, role, "+".join(sorted(cands)) or "loop%d" % n), ok,
                      "%s %s under `%s` applies %s" % (opname, role, "/".join(sorted(cands)), ", ".join(sorted(used))) if ok else
                      "%s %s: the per-tuple loop selected by the flag(s) %s calls %s, documented: %s" % (
                          opname, role, sorted(cands) or "?", sorted(used),
                          sorted({m for k in cands for m in table[k]}) or "?"), cx.where(f.term(pt.header)["span"]))
            missing = sorted(set(table) - seen_flags)
            cx.ob("R-WRAPPER-DISPATCH", "%s/%s/all-variants" % (opname, role), not missing,
                  "%s %s has a per-tuple loop for every documented variant" % (opname, role) if not missing else
                  "%s %s has no per-tuple loop under the flag(s) %s" % (opname, role, ", ".join(missing)),
                  cx.where(f.d["span"]))
    # gravity: action literal -> local function of that name -> the method of the family
    acts = sp["gravity"]["actions"]
    f = cx.f.fn("inner_op::gravity::fwd")
    found = {}
    for lit, succ, bb in _literal_arms(cx, f):
        for b2, t2 in f.calls():
            cal = f.callee(t2) or ""
            if cal.startswith("inner_op::gravity::") and f.dominates(succ, b2) and b2 in f.reach_from([succ]):
                found.setdefault(lit, cal)
    for lit, meth in sorted(acts.items()):
        n += 1
        callee = found.get(lit)
        ok = False
        why = "no arm for the action `%s`" % lit
        if callee:
            g = cx.f.fn(callee)
            fam = {(t.get("callee") or g.callee(t) or "") for _, t in g.calls()}
            fam = {x for x in fam if "Gravity::" in x and "height_correction" not in x}
            ok = fam == {"ellipsoid::gravity::" + meth} or fam == {meth} or {x.split("ellipsoid::gravity::")[-1] for x in fam} == {meth}
            why = "the arm `%s` calls %s, which applies %s" % (lit, callee.rsplit("::", 1)[-1], sorted(fam))
        cx.ob("R-WRAPPER-DISPATCH", "gravity/%s" % lit, ok,
              "gravity action `%s` applies %s" % (lit, meth) if ok else
              "gravity: %s (documented: %s)" % (why, meth), cx.where(f.d["span"]))
    cx.count("R-WRAPPER-DISPATCH", "variants", n)


def _literal_arms(cx, f):
    """(literal, successor taken when the action equals the literal, None)"""
    return [(lit, succ, None) for (succ, lhs, lit) in str_eq_guards(f)]


@rule("R-SIBLING-ELEMENTS", ["C14"])
def r_sibling_elements(cx):
    """The five formula helpers of the gravity operator (welmec, grs80, grs67, jeffreys, cassinis) share one input
    convention: latitude in element 0, height in element 1 of the tuple, result written to element 0. Cross-checking
    the siblings: each reads exactly the same elements of the tuple it gets, and none reads any other."""
    sp = spec("wrappers.json")["gravity"]["actions"]
    sets = {}
    for lit in sorted(sp):
        name = "inner_op::gravity::" + lit
        if not cx.f.has_fn(name):
            continue
        f = cx.f.fn(name)
        used = set()
        for bb, i, s in f.all_stmts():
            if s["k"] != "assign":
                continue
            v = f.rvalue(s["rv"], (bb, i))

            def vis(x):
                if x[0] == "proj" and isinstance(x[2], tuple) and x[2][0] == "elem" and len(x[2]) == 2 and \
                        isinstance(x[2][1], int) and x[1][0] == "call" and isinstance(x[1][1], str) and \
                        x[1][1].endswith("get_coord"):
                    used.add(x[2][1])
                return True
            mir.walk(v, vis)
        for bb, t in f.calls():
            for a in f.arg_terms(bb):
                def vis2(x):
                    if x[0] == "proj" and isinstance(x[2], tuple) and x[2][0] == "elem" and len(x[2]) == 2 and \
                            isinstance(x[2][1], int) and x[1][0] == "call" and isinstance(x[1][1], str) and \
                            x[1][1].endswith("get_coord"):
                        used.add(x[2][1])
                    return True
                mir.walk(a, vis2)
        sets[lit] = used
    n = 0
    if sets:
        from collections import Counter
        common = Counter(frozenset(v) for v in sets.values()).most_common(1)[0][0]
        for lit, used in sorted(sets.items()):
            n += 1
            ok = frozenset(used) == common and used <= {0, 1}
            cx.ob("R-SIBLING-ELEMENTS", "gravity/%s" % lit, ok,
                  "gravity::%s reads the elements %s of the tuple, like its siblings" % (lit, sorted(used)) if ok else
                  "gravity::%s reads the elements %s of the tuple while its sibling formulas read %s (latitude, height): "
                  "one of the five takes an input from the wrong element" % (lit, sorted(used), sorted(common)),
                  cx.where(cx.f.fn("inner_op::gravity::" + lit).d["span"]))
    cx.count("R-SIBLING-ELEMENTS", "siblings", n)
