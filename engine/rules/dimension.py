"""R-DIMENSION (C05, C06, C07, C13, C14): dimensional homogeneity of the geometry code.

Every addition, subtraction and comparison joins quantities of the same physical dimension; transcendental functions
take dimensionless arguments; the tuples an operator writes have the dimensions its documentation states. Sources of
dimension are tabled in spec/dims.json (ellipsoid axes = length, flattening = 1, coordinates per operator and
direction, typed parameters); everything else is inferred through the value graph (engine/dims.py), inlining crate
functions. Only conflicts between two *strong* dimensions are reported: numeric literals are dimension-polymorphic."""
import dims as D
import elems as E
import keys as K
import mir
import pertuple
from rulebase import rule, spec
from rules.loops import is_const_num

CMP = ("Lt", "Le", "Gt", "Ge", "Eq", "Ne")
READ_METHODS = ("get_coord", "xy", "xyz", "xyzt")


def _env_base(cx):
    sp = spec("dims.json")
    env = D.Env(cx.f)
    for adt, fields in sp["fields"].items():
        a = cx.f.lib["adts"].get(adt)
        if a is None:
            continue
        names = [x["name"] for x in a["variants"][0]["fields"]]
        for fname, d in fields.items():
            if fname in names:
                env.field_dims[(adt, names.index(fname))] = D.parse_dim(d)
    for suf, d in sp["calls"].items():
        env.call_dims[suf] = D.parse_dim(d)
    return env, sp


def _param_dim_fn(cx, sp, derived):
    from rules.projections import param_source
    ptab = sp["params"]

    def pd(t):
        if t[0] not in ("call", "proj"):
            return None
        src = param_source(t, cx.f)
        if src is None:
            return None
        kind, key = src
        if kind in ("lat", "lon", "x", "y", "k"):
            return D.parse_dim(ptab[kind])
        if kind == "real":
            if key in derived:
                return derived[key]
            d = ptab["real"].get(key)
            return D.parse_dim(d) if d else None
        return None
    return pd


def _tuple_read_fn(f, tuples_by_root):
    """tuples_by_root: list of (predicate(term)->bool for the receiver, dims list)"""
    def cr(t):
        if t[0] != "proj" or t[1][0] != "call" or not isinstance(t[1][1], str):
            return None
        call = t[1]
        tail = call[1].rsplit("::", 1)[-1]
        if tail not in READ_METHODS:
            return None
        pj = t[2]
        if not (isinstance(pj, tuple) and pj[0] in ("f", "elem") and len(pj) > 1 and isinstance(pj[1], int)):
            return None
        recv = call[2][0] if call[2] else None
        for pred, ds in tuples_by_root:
            if recv is not None and pred(recv):
                return ds[pj[1]] if pj[1] < len(ds) else None
        return None
    return cr


def _check_function(cx, f, env, label, out_dims=None):
    """all homogeneity checks in one function body. returns number of sites judged (both sides strong)."""
    ev = D.Eval(f, env)
    judged = 0
    nsite = 0
    for bb, i, s in f.all_stmts():
        if s["k"] != "assign" or s["rv"]["k"] != "bin":
            continue
        op = s["rv"].get("op")
        if op not in ("Add", "Sub") + CMP:
            continue
        a = f.operand(s["rv"]["a"], (bb, i))
        b = f.operand(s["rv"]["b"], (bb, i))
        da, db = ev.dim(a), ev.dim(b)
        if not (D.strong(da) and D.strong(db)):
            continue
        judged += 1
        ok = da == db
        if not ok:
            cx.ob("R-DIMENSION", "%s/%s#%d" % (label, op, nsite), False,
                  "%s: `%s` joins a quantity of dimension %s with one of dimension %s" % (
                      label, {"Add": "+", "Sub": "-"}.get(op, "comparison"), D.show(da), D.show(db)),
                  cx.where(s.get("span") or f.d["span"]),
                  detail="left: %s\nright: %s" % (mir.show(a)[:300], mir.show(b)[:300]))
            nsite += 1
    for bb, t in f.calls():
        c = f.callee(t) or ""
        tail = c.rsplit("::", 1)[-1]
        if not ("f64" in c and tail in D.DIMLESS_ARG + ("atan2", "hypot", "min", "max", "powf")):
            continue
        args = f.arg_terms(bb)
        ds = [ev.dim(x) for x in args]
        if tail in D.DIMLESS_ARG or tail == "powf":
            d0 = ds[0] if ds else None
            if D.strong(d0):
                judged += 1
                if d0 != D.ONE:
                    cx.ob("R-DIMENSION", "%s/%s#%d" % (label, tail, nsite), False,
                          "%s: `%s` is applied to a quantity of dimension %s (its argument must be dimensionless)" % (
                              label, tail, D.show(d0)), cx.where(t["span"]), detail=mir.show(args[0])[:300])
                    nsite += 1
        else:
            st = [d for d in ds if D.strong(d)]
            if len(st) >= 2:
                judged += 1
                if any(x != st[0] for x in st):
                    cx.ob("R-DIMENSION", "%s/%s#%d" % (label, tail, nsite), False,
                          "%s: the arguments of `%s` have different dimensions (%s)" % (
                              label, tail, ", ".join(D.show(x) for x in ds)), cx.where(t["span"]))
                    nsite += 1
    if out_dims is not None:
        from rules.projections import _nanish
        for pt in pertuple.per_tuple_loops(f):
            for wn, (bb, m) in enumerate(sorted(pt.writes)):
                args = f.arg_terms(bb)
                if m == "set_coord":
                    v = f._deref(args[2], f.end_point(bb))
                    if _nanish(v):
                        continue
                    es = E.elems(f, v, f.end_point(bb))
                elif m in ("set_xy", "set_xyz", "set_xyzt"):
                    es = list(args[2:])
                else:
                    continue
                for k, e in enumerate(es[:4]):
                    want = out_dims[k] if k < len(out_dims) else None
                    got = ev.dim(e)
                    if want is None or not D.strong(got):
                        continue
                    judged += 1
                    if got != want:
                        cx.ob("R-DIMENSION", "%s/out%d#%d" % (label, k, nsite), False,
                              "%s writes a quantity of dimension %s into element %d of the tuple, which is documented "
                              "as %s" % (label, D.show(got), k, D.show(want)), cx.where(f.term(bb)["span"]),
                              detail=mir.show(e)[:300])
                        nsite += 1
    return judged


def _derived_keys(cx, c, env, sp):
    """dimension of the keys the constructor inserts into the real table (scaled_radius = k_0 * a * ... : length)"""
    out = {}
    reg = cx.registry()
    mod = c.path.rsplit("::", 1)[0] + "::"
    for _ in range(2):
        for g in sorted(reg.reachable_from([c.path], follow_virtual=False)):
            if not g.startswith(mod):
                continue
            f = cx.f.fn(g)
            env2 = D.Env(cx.f)
            env2.field_dims, env2.call_dims = env.field_dims, env.call_dims
            env2.param_dim = _param_dim_fn(cx, sp, out)
            ev = D.Eval(f, env2)
            for (bb, m, key, val) in K.inserts_in(cx.f, f):
                if m != "real" or val is None:
                    continue
                d = ev.dim(val)
                if D.strong(d) and key not in sp["params"]["real"]:
                    out[key] = d
    return out


@rule("R-DIMENSION", ["C05", "C06", "C07", "C13", "C14"])
def r_dimension(cx):
    env0, sp = _env_base(cx)
    total = 0
    nfun = 0
    # 1. the ellipsoid geometry (trait default methods: self is the ellipsoid)
    for name in sorted(cx.f.lib["fns"]):
        if not name.startswith("ellipsoid::") or "::tests::" in name or "{closure" in name:
            continue
        f = cx.f.fn(name)
        env = D.Env(cx.f)
        env.field_dims, env.call_dims = env0.field_dims, env0.call_dims
        fs = sp["functions"].get(name, {})
        env.arg_dims = {int(k): D.parse_dim(v) for k, v in fs.get("args", {}).items()}
        roots = []
        for k, ds in fs.get("tuples", {}).items():
            n = int(k)
            roots.append(((lambda n: (lambda r: mir.strip_refs(r) == ("arg", n) or
                                      mir.strip_refs(r) == ("proj", ("arg", n), "deref")))(n),
                          [D.parse_dim(x) for x in ds]))
        env.coord_read = _tuple_read_fn(f, roots)
        total += _check_function(cx, f, env, name)
        nfun += 1
    # 2. operators with documented tuple conventions
    reg = cx.registry()
    done = set()
    for cpath, c in sorted(reg.ctors.items()):
        ops = [n for n in c.names if n in sp["operators"]]
        if not ops:
            continue
        o = sp["operators"][ops[0]]
        derived = _derived_keys(cx, c, env0, sp)
        mod = cpath.rsplit("::", 1)[0] + "::"
        for role, fn in (("fwd", c.fwd), ("inv", c.inv)):
            if not fn:
                continue
            ind = [D.parse_dim(x) for x in (o["fwd_in"] if role == "fwd" else o["fwd_out"])]
            outd = [D.parse_dim(x) for x in (o["fwd_out"] if role == "fwd" else o["fwd_in"])]
            for g in sorted(reg.reachable_from([fn], follow_virtual=False)):
                if not g.startswith(mod) or (g, role) in done:
                    continue
                # helper functions shared by both directions see tuples of either convention: only the
                # direction's own entry function gets the coordinate dimensions
                done.add((g, role))
                f = cx.f.fn(g)
                env = D.Env(cx.f)
                env.field_dims, env.call_dims = env0.field_dims, env0.call_dims
                env.param_dim = _param_dim_fn(cx, sp, derived)
                if g == fn:
                    env.coord_read = _tuple_read_fn(f, [((lambda r: True), ind)])
                total += _check_function(cx, f, env, "%s/%s" % (ops[0], g), outd if g == fn else None)
                nfun += 1
    cx.count("R-DIMENSION", "functions", nfun)
    cx.count("R-DIMENSION", "judged_sites", total)
    cx.ob("R-DIMENSION", "summary", True,
          "%d additions/comparisons/function arguments/written elements with known dimensions on both sides are "
          "homogeneous (%d functions analysed)" % (total, nfun), nontrivial=total > 0)
