"""R-BILINEAR (C08): the interpolation in BaseGrid::at is the bilinear interpolation of the four corner nodes."""
import mir
from poly import Poly
from rulebase import rule


def _ipoly(t, depth=0):
    """integer index expression -> polynomial over opaque symbols"""
    t = mir.strip_refs(t)
    if depth > 40:
        return Poly.sym(repr(t))
    if t[0] == "const" and isinstance(t[2], int) and not isinstance(t[2], bool):
        return Poly.const(t[2])
    if t[0] == "cast":
        return _ipoly(t[2], depth + 1)
    if t[0] == "proj" and t[2] == ("f", 0) and t[1][0] == "bin" and t[1][1].endswith("WithOverflow"):
        b = t[1]
        return _ipoly(("bin", b[1][:3], b[2], b[3]), depth + 1)
    if t[0] == "proj" and t[2] == ("f", 0) and t[1][0] == "proj" and isinstance(t[1][2], tuple) and \
            t[1][2][0] == "variant" and t[1][1][0] == "call" and isinstance(t[1][1][1], str) and t[1][1][1].endswith("::next"):
        return Poly.sym("<band index>")   # the induction value of the enclosing `for i in 0..bands`
    if t[0] == "bin" and t[1] in ("Add", "Sub", "Mul"):
        a, b = _ipoly(t[2], depth + 1), _ipoly(t[3], depth + 1)
        return a + b if t[1] == "Add" else (a - b if t[1] == "Sub" else a * b)
    return Poly.sym(repr(t))


def _is_one(t):
    return t[0] == "const" and isinstance(t[2], tuple) and t[2][0] == "float" and float(t[2][1]) == 1.0


def _lerp(t):
    """(r, a, b) if t == (1 - r) * a + r * b (either operand order of the products), else None"""
    if not (t[0] == "bin" and t[1] == "Add"):
        return None
    x, y = t[2], t[3]
    for p, q in ((x, y), (y, x)):
        if not (p[0] == "bin" and p[1] == "Mul" and q[0] == "bin" and q[1] == "Mul"):
            continue
        for w1, a in ((p[2], p[3]), (p[3], p[2])):
            if w1[0] == "bin" and w1[1] == "Sub" and _is_one(w1[2]):
                r = w1[3]
                for w2, b in ((q[2], q[3]), (q[3], q[2])):
                    if w2 == r:
                        return r, a, b
    return None


def _grid_index(t):
    """the index expression of a read grid[idx] (as f64), else None"""
    t = mir.strip_refs(t)
    for _ in range(4):
        if t[0] == "cast":
            t = mir.strip_refs(t[2])
        elif t[0] == "proj" and t[2] == "deref":
            t = mir.strip_refs(t[1])
        else:
            break
    if t[0] == "proj" and isinstance(t[2], tuple) and t[2][0] == "elem" and len(t[2]) == 3:
        return t[2][2]
    if t[0] == "call" and isinstance(t[1], str) and t[1].endswith("::index") and len(t[2]) == 2:
        return t[2][1]
    return None


def _mentions(t, needle):
    hit = []

    def v(x):
        if x == needle:
            hit.append(1)
            return False
        return not hit
    mir.walk(t, v)
    return bool(hit)


def _phi_header(t):
    t = mir.strip_refs(t)
    for _ in range(4):
        if t[0] == "proj":
            t = mir.strip_refs(t[1])
        else:
            break
    return t[1][0] if t[0] in ("loopphi", "phi") else None


@rule("R-BILINEAR", ["C08", "C09"])
def r_bilinear(cx):
    """BaseGrid::at computes, per band, three linear interpolations (1 - r) * a + r * b. They are decided to be *the*
    bilinear interpolation of the cell's four corner nodes: (1) the two vertical ones use one and the same weight
    r_lat and join the node of row `row` (weight 1 - r_lat) with the node of row `row - 1` (weight r_lat) of one
    column: index difference -bands*cols as polynomials; (2) they belong to the columns `col` and `col + 1` (index
    difference `bands`); (3) the horizontal one joins the result for column `col` (weight 1 - r_lon) with the one for
    `col + 1` (weight r_lon); (4) r_lat and r_lon are the offsets from the lower-left node (lat_n - row*dlat,
    lon_w + col*dlon) in cell units, computed from the same clamped row/col that index the nodes. Hence weights are
    (1-r_lat)(1-r_lon), ... : they sum to 1, are within [0, 1] inside the cell, reproduce node values at the nodes,
    and continue linearly in the margin."""
    name = "<grid::BaseGrid as grid::Grid>::at"
    f = cx.f.fn(name)
    adt = cx.f.lib["adts"]["grid::BaseGrid"]
    fld = {x["name"]: k for k, x in enumerate(adt["variants"][0]["fields"])}
    selff = lambda nm: ("proj", ("proj", ("arg", 1), "deref"), ("f", fld[nm]))
    at0 = ("proj", ("proj", ("arg", 2), "deref"), ("elem", 0))
    at1 = ("proj", ("proj", ("arg", 2), "deref"), ("elem", 1))
    lerps = []
    for bb, i, s in f.all_stmts():
        if s["k"] == "assign" and s["rv"]["k"] == "bin" and s["rv"].get("op") == "Add" and "f64" in str(f.local_ty(s["place"]["l"])):
            t = f.rvalue(s["rv"], (bb, i))
            L = _lerp(t)
            if L:
                lerps.append((bb, s, L))
    where = cx.where(f.d["span"])
    cx.count("R-BILINEAR", "lerps", len(lerps))
    vert = [(bb, s, L) for bb, s, L in lerps if _mentions(L[0], at1) and not _mentions(L[0], at0)]
    horz = [(bb, s, L) for bb, s, L in lerps if _mentions(L[0], at0) and not _mentions(L[0], at1)]
    ok = len(lerps) == 3 and len(vert) == 2 and len(horz) == 1
    cx.ob("R-BILINEAR", "at/shape", ok,
          "BaseGrid::at consists of two interpolations in latitude and one in longitude, each of the form (1-r)*a + r*b"
          if ok else "BaseGrid::at is not made of two latitude and one longitude interpolation of the form (1-r)*a + r*b "
          "(found %d, %d vertical, %d horizontal): the interpolation is not recognisably bilinear" % (len(lerps), len(vert), len(horz)), where)
    if not ok:
        return
    bands, cols = Poly.sym(repr(selff("bands"))), Poly.sym(repr(selff("cols")))
    # (1) one weight, lower node then upper node
    same_r = vert[0][2][0] == vert[1][2][0]
    cx.ob("R-BILINEAR", "at/vertical-weight", same_r,
          "both latitude interpolations use the same weight" if same_r else
          "the two latitude interpolations of BaseGrid::at use different weights", cx.where(vert[1][1].get("span") or f.d["span"]))
    idx = []
    for k, (bb, s, (r, a, b)) in enumerate(vert):
        ia, ib = _grid_index(a), _grid_index(b)
        good = ia is not None and ib is not None and (_ipoly(ib) - _ipoly(ia)) == (Poly.const(0) - bands * cols)
        idx.append(ia)
        cx.ob("R-BILINEAR", "at/vertical%d/rows" % k, good,
              "weight 1-r_lat goes to the node of row `row`, weight r_lat to the node of row `row-1` of the same column"
              if good else "a latitude interpolation of BaseGrid::at does not join a node (weight 1-r) with the node one "
              "row further north (weight r): the index difference is not -bands*cols",
              cx.where(s.get("span") or f.d["span"]))
    # (2) neighbouring columns; which is the left one
    left_k = None
    if idx[0] is not None and idx[1] is not None:
        d = _ipoly(idx[1]) - _ipoly(idx[0])
        if d == bands:
            left_k = 0
        elif d == Poly.const(0) - bands:
            left_k = 1
    cx.ob("R-BILINEAR", "at/columns", left_k is not None,
          "the two latitude interpolations belong to the columns `col` and `col+1`" if left_k is not None else
          "the two latitude interpolations of BaseGrid::at do not belong to neighbouring columns (index difference is not "
          "`bands`)", where)
    # (3) the horizontal one joins them in this order
    hb, hs, (hr, ha, hbt) = horz[0]
    if left_k is not None:
        lh = f.innermost_loop(vert[left_k][0])
        rh = f.innermost_loop(vert[1 - left_k][0])
        good = lh is not None and rh is not None and _phi_header(ha) == lh.header and _phi_header(hbt) == rh.header
        cx.ob("R-BILINEAR", "at/horizontal", good,
              "weight 1-r_lon goes to the column `col`, weight r_lon to the column `col+1`" if good else
              "the longitude interpolation of BaseGrid::at does not give weight 1-r to the values of column `col` and "
              "weight r to those of column `col+1`", cx.where(hs.get("span") or f.d["span"]))
    # (4) the weights are cell-unit offsets from the lower-left node, built from the row/col that index the nodes
    def cell_offset(r, atk, origin_field, step_field, plus):
        r = mir.strip_refs(r)
        if not (r[0] == "bin" and r[1] == "Div"):
            return None
        num, den = r[2], r[3]
        if not (num[0] == "bin" and num[1] == "Sub" and num[2] == atk):
            return None
        ll = num[3]
        if not (ll[0] == "bin" and ll[1] == ("Add" if plus else "Sub") and ll[2] == selff(origin_field)):
            return None
        prod = ll[3]
        if not (prod[0] == "bin" and prod[1] == "Mul"):
            return None
        k, step = prod[2], prod[3]
        if step != den and k == den:
            k, step = step, k
        if step != den or not _mentions(den, selff(step_field)):
            return None
        return k
    krow = cell_offset(vert[0][2][0], at1, "lat_n", "dlat", False)
    kcol = cell_offset(hr, at0, "lon_w", "dlon", True)
    good = krow is not None and kcol is not None
    if good and idx[left_k if left_k is not None else 0] is not None:
        rowt, colt = mir.strip_refs(krow), mir.strip_refs(kcol)
        while rowt[0] == "cast":
            rowt = mir.strip_refs(rowt[2])
        while colt[0] == "cast":
            colt = mir.strip_refs(colt[2])
        base = idx[left_k if left_k is not None else 0]
        good = _mentions(base, rowt) and _mentions(base, colt)
    cx.ob("R-BILINEAR", "at/weights", good,
          "r_lat = (lat - (lat_n - row*dlat))/dlat and r_lon = (lon - (lon_w + col*dlon))/dlon with the row/col that "
          "index the nodes" if good else
          "the weights of BaseGrid::at are not the cell-unit offsets from the lower-left node of the cell whose nodes "
          "are read (r = (x - ll)/step with ll = origin -/+ k*step and the same k in the node index)", where)

    # (5) the clamps keep the cell inside the grid: row in [1, rows-1] (so that row-1 exists), col in [0, cols-2]
    #     (so that col+1 exists)
    rows_p = Poly.sym(repr(selff("rows")))
    def clamp_of(k):
        k = mir.strip_refs(k)
        while k[0] == "cast":
            k = mir.strip_refs(k[2])
        if k[0] == "call" and isinstance(k[1], str) and k[1].endswith("::clamp") and len(k[2]) == 3:
            return k[2][1], k[2][2]
        return None
    cr = clamp_of(krow) if krow is not None else None
    cc = clamp_of(kcol) if kcol is not None else None
    good = cr is not None and cc is not None and \
        _ipoly(cr[0]) == Poly.const(1) and _ipoly(cr[1]) == rows_p - Poly.const(1) and \
        _ipoly(cc[0]) == Poly.const(0) and _ipoly(cc[1]) == cols - Poly.const(2)
    cx.ob("R-BILINEAR", "at/cell-range", good,
          "row is clamped to [1, rows-1] and col to [0, cols-2]: the four nodes of the cell exist, and outside the grid "
          "the nearest cell is continued" if good else
          "BaseGrid::at does not clamp row to [1, rows-1] and col to [0, cols-2]: %s" % (
              "row in [%s, %s], col in [%s, %s]" % (mir.show(cr[0])[:20], mir.show(cr[1])[:30], mir.show(cc[0])[:20], mir.show(cc[1])[:30])
              if cr and cc else "no clamp found"), where)
