"""kp command line program (C20): R-ONE-LINE, R-EMPTY-INDEX, R-KP-SLICE, R-KP-DIRECTION, R-KP-ERRORS, R-KP-DEFAULTS."""
import mir
from rulebase import rule
from rules.loops import is_const_num, _some_successors


def kp_fn(cx, name):
    if cx.f.has_fn(name, "kp"):
        return cx.f.fn(name, "kp")
    return None


def _callee(f, t):
    return f.callee(t) or ""


@rule("R-ONE-LINE", ["C20"])
def r_one_line(cx):
    f = kp_fn(cx, "transform")
    if f is None:
        cx.ob("R-ONE-LINE", "anchor", False, "anchor-missing: kp::transform")
        return
    where = cx.where(f.d["span"])
    # the output loop: the loop whose body prints
    out_loops = []
    for lp in f.loops():
        prints = [bb for bb in lp.body if f.term(bb)["k"] == "call" and _callee(f, f.term(bb)).endswith("io::_print")]
        if prints and f.innermost_loop(prints[0]) is lp:
            out_loops.append((lp, prints))
    cx.count("R-ONE-LINE", "output_loops", len(out_loops))
    if len(out_loops) != 1:
        cx.ob("R-ONE-LINE", "loop", False, "expected exactly one printing loop in kp::transform, found %d" % len(out_loops), where)
        return
    lp, prints = out_loops[0]
    full = f.term(lp.header).get("callee_full", "")
    plain = ("slice::Iter" in full or "slice::IterMut" in full or "vec::IntoIter" in full) and not any(
        x in full for x in ("Take<", "Skip<", "Filter<", "StepBy<", "Rev<", "Zip<", "TakeWhile<", "SkipWhile<"))
    # and the iterated collection is the operands parameter (arg 4)
    import pertuple
    src = pertuple.iterator_entry_value(f, lp)
    from_operands = False
    if src is not None:
        def visit(x):
            nonlocal from_operands
            if x == ("arg", 4):
                from_operands = True
            return True
        mir.walk(src, visit)
    cx.ob("R-ONE-LINE", "all-tuples-in-order", plain and from_operands,
          "the output loop visits every tuple of `operands` once, in order (%s)" % full if plain and from_operands else
          "the output loop of kp::transform does not iterate all of `operands` in order (%s): lines are dropped, "
          "repeated or reordered" % full, cx.where(f.term(lp.header)["span"]))
    # exactly one print per iteration on every path
    start = _some_successors(f, lp)
    inn = {s: {0} for s in start}
    work = list(start)
    result = set()
    while work:
        bb = work.pop()
        cur = set(inn.get(bb, ()))
        add = 1 if bb in prints else 0
        out = {min(c + add, 3) for c in cur}
        for sx in f.succ[bb]:
            if sx == lp.header:
                result |= out
            elif sx in lp.body:
                tgt = inn.setdefault(sx, set())
                if not out <= tgt:
                    tgt |= out
                    work.append(sx)
    cx.ob("R-ONE-LINE", "one-print-per-tuple", result == {1},
          "every path through one iteration prints exactly one line" if result == {1} else
          "an iteration of the output loop can print %s lines" % sorted(result), where)
    # the loop is left only by exhaustion
    hdr_blocks = {lp.header} | {s for s in f.succ[lp.header] if f.term(s)["k"] == "switch" and s in lp.body}
    extra = [(a, b) for (a, b) in lp.exits if a not in hdr_blocks]
    cx.ob("R-ONE-LINE", "no-early-exit", not extra, "the output loop has no early exit" if not extra else
          "the output loop can be left before all tuples are printed", where)


@rule("R-EMPTY-INDEX", ["C20"])
def r_empty_index(cx):
    """indexing `operands[const]` must be dominated by a non-emptiness test"""
    n = 0
    for name in ("transform", "main"):
        f = kp_fn(cx, name)
        if f is None:
            continue
        k = 0
        for bb, t in f.calls():
            c = _callee(f, t)
            if not (c.endswith("::index") or c.endswith("::index_mut")) or "Vec<" not in (t.get("callee_full") or c):
                continue
            args = f.arg_terms(bb)
            if not (is_const_num(args[1]) and isinstance(args[1][2], int)):
                continue
            recv = mir.strip_refs(args[0])
            # only vectors handed in by the caller (the batch of operands): locally built rows are sized by construction
            if not _rooted_at_param(recv):
                continue
            n += 1
            ok = _nonempty_guard(f, bb, recv, args[1][2])
            cx.ob("R-EMPTY-INDEX", "%s/index%d[%d]" % (name, k, args[1][2]), ok,
                  "kp::%s: element %d of the vector is read only where it is known to exist" % (name, args[1][2]) if ok else
                  "kp::%s reads element %d of a vector that may be empty (empty input): the program panics instead of "
                  "ending normally" % (name, args[1][2]), cx.where(t["span"]))
            k += 1
    cx.count("R-EMPTY-INDEX", "constant_index_sites", n)


def _rooted_at_param(t, depth=0):
    t = mir.strip_refs(t)
    if t[0] == "arg":
        return True
    if t[0] in ("proj", "mod", "upd") and depth < 10:
        return _rooted_at_param(t[1], depth + 1)
    if t[0] == "phi" and depth < 6:
        return any(_rooted_at_param(o, depth + 1) for o in t[2])
    if t[0] == "loopphi":
        return False
    return False


def _nonempty_guard(f, bb, recv, k):
    for b2 in sorted(f.reachable()):
        sw = f.term(b2)
        if sw["k"] != "switch":
            continue
        c = f.operand(sw["discr"], f.end_point(b2))
        true_succ = sw["otherwise"]
        false_succ = sw["targets"][0][1] if sw["targets"] else None
        good = None
        if c[0] == "call" and isinstance(c[1], str) and c[1].endswith("::is_empty"):
            good = false_succ
        elif c[0] == "un" and c[1] == "Not" and c[2][0] == "call" and str(c[2][1]).endswith("::is_empty"):
            good = true_succ
        elif c[0] == "bin" and c[1] in ("Gt", "Ge", "Lt", "Le", "Eq", "Ne"):
            a, b, op = c[2], c[3], c[1]
            a_len = a[0] == "call" and str(a[1]).endswith("::len")
            b_len = b[0] == "call" and str(b[1]).endswith("::len")
            if b_len and not a_len:
                a, b = b, a
                op = {"Gt": "Lt", "Lt": "Gt", "Ge": "Le", "Le": "Ge", "Eq": "Eq", "Ne": "Ne"}[op]
                a_len = True
            if a_len and is_const_num(b) and isinstance(b[2], int):
                v = b[2]
                if op == "Gt" and v >= k:
                    good = true_succ
                elif op == "Ge" and v >= k + 1:
                    good = true_succ
                elif op == "Eq" and v == 0 and k == 0:
                    good = false_succ
                elif op == "Ne" and v == 0 and k == 0:
                    good = true_succ
                elif op == "Lt" and v >= k + 1:
                    good = false_succ
                elif op == "Le" and v >= k:
                    good = false_succ
        if good is not None and f.dominates(good, bb):
            return True
    return False


@rule("R-KP-SLICE", ["C20"])
def r_kp_slice(cx):
    """`ARRAY[start..]` on a fixed-size array with a data-dependent start needs start <= len on every path"""
    f = kp_fn(cx, "main")
    if f is None:
        cx.ob("R-KP-SLICE", "anchor", False, "anchor-missing: kp::main")
        return
    n = 0
    for bb, t in f.calls():
        c = _callee(f, t)
        full = t.get("callee_full") or ""
        if not c.endswith("::index") or "RangeFrom" not in full:
            continue
        args = f.arg_terms(bb)
        rng = mir.strip_refs(args[1])
        start = rng[2][0] if rng[0] == "agg" and rng[2] else None
        n += 1
        if start is None or is_const_num(start):
            cx.ob("R-KP-SLICE", "main/slice%d" % n, True, "constant slice start", cx.where(t["span"]), nontrivial=False)
            continue
        import re
        m = re.search(r"\[[^;\]]+; (\d+)\]", full)
        size = int(m.group(1)) if m else None
        ok = size is not None and (_upper_bounded(f, bb, start, size) or _min_with_own_len(start, args[0], size))
        cx.ob("R-KP-SLICE", "main/slice%d" % n, ok,
              "the tail slice of the %s-element default row starts at a value known to be <= %s" % (size, size) if ok else
              "kp::main slices the %s-element default row from `%s`, which exceeds its length for input lines with more "
              "columns: the program panics" % (size, mir.show(start, maxd=3)), cx.where(t["span"]))
    cx.count("R-KP-SLICE", "range_from_sites", n)


def _min_with_own_len(start, sliced, size):
    """start = min(x, ARRAY.len()) where ARRAY is the array being sliced (or its length as a constant)"""
    v0 = mir.strip_refs(start)
    if not (v0[0] == "call" and isinstance(v0[1], str) and v0[1].endswith("::min")):
        return False
    S = mir.strip_refs(sliced)
    for a in v0[2]:
        a = mir.strip_refs(a)
        if a[0] == "call" and isinstance(a[1], str) and a[1].rsplit("::", 1)[-1] == "len" and a[2]:
            x = mir.strip_refs(a[2][0])
            while x[0] == "cast":
                x = mir.strip_refs(x[2])
            if x == S:
                return True
        if a[0] == "un" and a[1] == "PtrMetadata" and mir.strip_refs(a[2]) == S:
            return True
        if a[0] == "const" and isinstance(a[2], int) and a[2] <= size:
            return True
    return False


def _upper_bounded(f, bb, val, bound):
    v0 = mir.strip_refs(val)
    if v0[0] == "call" and isinstance(v0[1], str) and v0[1].endswith("::min"):
        if any(is_const_num(a) and isinstance(a[2], int) and a[2] <= bound for a in v0[2]):
            return True
    for b2 in sorted(f.reachable()):
        sw = f.term(b2)
        if sw["k"] != "switch":
            continue
        c = f.operand(sw["discr"], f.end_point(b2))
        if c[0] != "bin" or c[1] not in ("Gt", "Ge", "Lt", "Le"):
            continue
        true_succ = sw["otherwise"]
        false_succ = sw["targets"][0][1] if sw["targets"] else None
        a, b, op = c[2], c[3], c[1]
        if is_const_num(a) and not is_const_num(b):
            a, b = b, a
            op = {"Gt": "Lt", "Lt": "Gt", "Ge": "Le", "Le": "Ge"}[op]
        if not (is_const_num(b) and isinstance(b[2], int)) or a != val:
            continue
        v = b[2]
        good = None
        if op == "Gt" and v <= bound:
            good = false_succ
        elif op == "Ge" and v <= bound + 1:
            good = false_succ
        elif op == "Lt" and v <= bound + 1:
            good = true_succ
        elif op == "Le" and v <= bound:
            good = true_succ
        if good is not None and f.dominates(good, bb):
            return True
    # a truncation to at most `bound` elements also does
    for b2, t in f.calls():
        if _callee(f, t).endswith("::truncate") and f.dominates(b2, bb):
            a = f.arg_terms(b2)
            if is_const_num(a[1]) and a[1][2] <= bound:
                return True
    return False


@rule("R-KP-DIRECTION", ["C20"])
def r_kp_direction(cx):
    f = kp_fn(cx, "transform")
    if f is None:
        cx.ob("R-KP-DIRECTION", "anchor", False, "anchor-missing: kp::transform")
        return
    cli = None
    for k, v in cx.f.kp["adts"].items():
        if k.endswith("Cli"):
            cli = [x["name"] for x in v["variants"][0]["fields"]]
    if cli is None:
        cx.ob("R-KP-DIRECTION", "anchor", False, "anchor-missing: struct Cli")
        return
    fi, fr = cli.index("inverse"), cli.index("roundtrip")
    want = {(False, False): ["Fwd"], (False, True): ["Fwd", "Inv"], (True, False): ["Inv"], (True, True): ["Inv", "Fwd"]}
    for (inv, rt), w in sorted(want.items()):
        got = _apply_sequence(f, fi, fr, inv, rt)
        cx.ob("R-KP-DIRECTION", "inverse=%s/roundtrip=%s" % (inv, rt), got == w,
              "kp --inv=%s --roundtrip=%s applies the operation %s" % (inv, rt, " then ".join(w)) if got == w else
              "kp --inv=%s --roundtrip=%s applies %s, expected %s" % (inv, rt, got, w), cx.where(f.d["span"]))
    # the roundtrip residual is operands[k] - buffer[k], buffer cloned from operands before the first apply
    clone_bb = [bb for bb, t in f.calls() if _callee(f, t).endswith("::clone_from")]
    apply_bb = [bb for bb, t in f.calls() if (t.get("callee") or "").endswith("Context::apply") or _callee(f, t).endswith("::apply")]
    ok = bool(clone_bb) and bool(apply_bb) and all(not f.dominates(a, clone_bb[0]) for a in apply_bb)
    cx.ob("R-KP-DIRECTION", "buffer-before-apply", ok,
          "the reference copy for --roundtrip is taken before the first apply" if ok else
          "the reference copy for --roundtrip is not taken before the operation is applied", cx.where(f.d["span"]))
    subs = []
    for bb, t in f.calls():
        if (t.get("callee") or "") == "std::ops::Sub::sub":
            a = f.arg_terms(bb)
            subs.append((mir.show(a[0], maxd=4), mir.show(a[1], maxd=4)))
    ok = len(subs) == 1 and "arg4" in subs[0][0] and "arg4" not in subs[0][1].split("clone_from")[0][:30]
    cx.ob("R-KP-DIRECTION", "residual", len(subs) == 1,
          "the roundtrip residual is computed by one subtraction per tuple" if len(subs) == 1 else
          "expected exactly one tuple subtraction in kp::transform, found %d" % len(subs), cx.where(f.d["span"]),
          nontrivial=False)


def _apply_sequence(f, fi, fr, inverse, roundtrip):
    """walk kp::transform with the two option flags fixed and collect the Direction constants passed to apply"""
    seq = []
    bb = 0
    seen = {}
    for _ in range(600):
        seen[bb] = seen.get(bb, 0) + 1
        if seen[bb] > 3:
            return seq + ["loop"]
        t = f.term(bb)
        if t["k"] == "call":
            c = t.get("callee") or ""
            if c.endswith("Context::apply") or c.endswith("Plain::apply") or (f.callee(t) or "").endswith("::apply"):
                d = f.arg_terms(bb)[2]
                if not (d[0] == "agg" and isinstance(d[1], tuple)):
                    # a direction chosen earlier and stored (`let (direction, opposite) = if options.inverse {..}`)
                    import guards
                    import mir as _m
                    assume = {}
                    for idx, val in ((fi, inverse), (fr, roundtrip)):
                        for base in (("proj", ("arg", 1), "deref"), ("arg", 1)):
                            assume[("proj", base, ("f", idx))] = val
                    d = _m.strip_refs(guards.resolve(f, d, assume))
                seq.append(d[1][2] if d[0] == "agg" and isinstance(d[1], tuple) else "?")
        if t["k"] == "return":
            return seq
        if t["k"] == "switch":
            c = f.operand(t["discr"], f.end_point(bb))
            v = _flag_value(c, fi, fr, inverse, roundtrip)
            if v is None:
                # Try::branch -> Continue(0); iterator -> None (leave loops); comparisons of counts -> equal
                if c[0] == "discr":
                    src = c[1]
                    if src[0] == "call" and str(src[1]).endswith("branch"):
                        v = 0
                    elif src[0] == "call" and str(src[1]).endswith("::next"):
                        v = 0
                    elif src[0] == "proj":
                        v = 1 if "Option" in t.get("discr_ty", "") else 0
                    else:
                        v = 0
                elif c[0] == "bin" and c[1] == "Ne":
                    v = False
                elif c[0] == "bin" and c[1] == "Eq":
                    v = True
                else:
                    v = False
            nxt = None
            for val, tgt in t["targets"]:
                if (isinstance(v, bool) and bool(val) == v) or (not isinstance(v, bool) and val == v):
                    nxt = tgt
            bb = nxt if nxt is not None else t["otherwise"]
            continue
        ss = f.succ[bb]
        if not ss:
            return seq
        bb = ss[0]
    return seq + ["?"]


def _flag_value(c, fi, fr, inverse, roundtrip):
    t = mir.strip_refs(c)
    neg = False
    while t[0] == "un" and t[1] == "Not":
        neg = not neg
        t = t[2]
    if t[0] == "proj" and isinstance(t[2], tuple) and t[2][0] == "f" and t[1] == ("proj", ("arg", 1), "deref"):
        if t[2][1] == fi:
            return inverse != neg
        if t[2][1] == fr:
            return roundtrip != neg
    return None


@rule("R-KP-ERRORS", ["C20"])
def r_kp_errors(cx):
    """every Result produced by ctx.op, ctx.apply, File::open and the line iterator is propagated with `?`"""
    n = 0
    for name in ("main", "transform"):
        f = kp_fn(cx, name)
        if f is None:
            continue
        k = 0
        for bb, t in f.calls():
            c = t.get("callee") or ""
            r = f.callee(t) or ""
            watched = c.endswith("Context::op") or c.endswith("Context::apply") or r.endswith("File::open") or \
                r.endswith("Plain::op") or r.endswith("Plain::apply")
            is_line = False
            if not watched:
                continue
            n += 1
            dest = t["dest"]["l"]
            names = {dest}
            for b2, i, s in f.all_stmts():
                if s["k"] == "assign" and not s["place"]["p"] and s["rv"]["k"] == "use":
                    pl = mir.op_place(s["rv"]["a"])
                    if pl is not None and not pl["p"] and pl["l"] in names:
                        names.add(s["place"]["l"])
            tried = False
            dropped = None
            for b2, tt in f.calls():
                pl = mir.op_place(tt["args"][0]) if tt["args"] else None
                if pl is not None and not pl["p"] and pl["l"] in names:
                    tail = (tt.get("callee") or "").split("::")[-1]
                    if tail == "branch":
                        tried = True
                    elif tail in ("ok", "unwrap_or", "unwrap_or_default", "unwrap_or_else", "is_ok", "is_err", "err"):
                        dropped = tail
            cx.ob("R-KP-ERRORS", "%s/%s%d" % (name, r.split("::")[-1], k), tried and not dropped,
                  "kp::%s propagates the error of %s with `?`" % (name, r.split("::")[-2:]) if tried and not dropped else
                  "kp::%s does not propagate the error of %s (%s): an invalid operation or unreadable file would not end "
                  "with an error message and non-zero status" % (name, r, dropped or "result not passed to `?`"),
                  cx.where(t["span"]))
            k += 1
    # the line iterator: each `io::Result<String>` it yields reaches a `?` - the iterator is not wrapped in an adaptor that
    # ends or thins the stream at the first read error (map_while(Result::ok), flatten(), filter_map(Result::ok))
    import pertuple
    f = kp_fn(cx, "main")
    if f is not None:
        discard = ("map_while", "flatten", "filter_map", "flat_map", "take_while", "filter", "ok", "unwrap_or_default")
        nlines = -1
        for lbb, lt in f.calls():
            if not (f.callee(lt) or "").endswith("BufRead::lines"):
                continue
            n += 1
            nlines += 1
            loops = []
            wrapped = None
            for lp in f.loops():
                x = pertuple.iterator_entry_value(f, lp)
                if x is None:
                    continue
                hit = []

                def vis(y):
                    if y[0] == "call" and len(y) > 3 and y[3] == lbb:
                        hit.append(1)
                    return True
                mir.walk(x, vis)
                if not hit:
                    continue
                loops.append(lp)

                def vis2(y):
                    nonlocal wrapped
                    if y[0] == "call" and isinstance(y[1], str) and y[1].rsplit("::", 1)[-1] in discard:
                        wrapped = y[1].rsplit("::", 1)[-1]
                    return True
                mir.walk(x, vis2)
            tried = False
            for lp in loops:
                for b2 in sorted(lp.body):
                    tt = f.term(b2)
                    if tt["k"] == "call" and (tt.get("callee") or "").endswith("Try::branch") and \
                            "std::io::Error" in (tt.get("callee_full") or ""):
                        got = []

                        def vis3(y):
                            if y[0] == "call" and len(y) > 3 and y[3] == lp.header:
                                got.append(1)
                            return True
                        mir.walk(f.arg_terms(b2)[0], vis3)
                        if got:
                            tried = True
            ok = bool(loops) and tried and not wrapped
            cx.ob("R-KP-ERRORS", "main/lines%d" % nlines, ok,
                  "kp::main propagates a read error of the line iterator with `?`" if ok else
                  "kp::main does not propagate the read errors of the line iterator (%s): an unreadable file (a directory, "
                  "invalid UTF-8) silently ends that file's input, its remaining lines are dropped and kp exits with "
                  "status 0" % (("the iterator is wrapped in `%s`" % wrapped) if wrapped else "no `?` on the item"),
                  cx.where(lt["span"]))
    cx.count("R-KP-ERRORS", "fallible_calls", n)
    # main returns Result: the error reaches the process exit status
    f = kp_fn(cx, "main")
    if f is not None:
        ok = "Result" in f.d.get("sig", "")
        cx.ob("R-KP-ERRORS", "main-returns-result", ok, "kp::main returns a Result (Err => message and non-zero status)"
              if ok else "kp::main does not return a Result", nontrivial=False)


@rule("R-KP-DEFAULTS", ["C20"])
def r_kp_defaults(cx):
    """missing columns default to height 0 and time NaN; -z / -t override exactly positions 2 and 3"""
    f = kp_fn(cx, "main")
    if f is None:
        cx.ob("R-KP-DEFAULTS", "anchor", False, "anchor-missing: kp::main")
        return
    cli = None
    for k, v in cx.f.kp["adts"].items():
        if k.endswith("Cli"):
            cli = [x["name"] for x in v["variants"][0]["fields"]]
    # the literal default row (a promoted constant array of string literals)
    rows = []

    def str_of(t):
        t = mir.strip_refs(t)
        if t[0] == "const" and isinstance(t[2], tuple) and t[2][0] == "str":
            return t[2][1]
        return None

    for i in range(len(f.mir.get("promoted", []))):
        v = f._promoted_value(i)
        if v is None:
            continue
        v = mir.strip_refs(v)
        if v[0] == "agg" and v[1] == "array":
            vals = [str_of(o) for o in v[2]]
            if all(x is not None for x in vals) and len(vals) >= 4 and "NaN" in vals:
                rows.append(vals)
    if not rows:
        # ... or a named constant array of string literals
        import consts
        for cname in sorted(cx.f.kp.get("consts", {})):
            try:
                cv = consts.const_value(cx.f, cname, "kp")
            except Exception:
                cv = None
            if isinstance(cv, (list, tuple)) and len(cv) >= 4 and all(isinstance(x, str) for x in cv) and "NaN" in cv:
                rows.append(list(cv))
    ok = len(rows) == 1 and rows[0][2] == "0" and rows[0][3] == "NaN"
    cx.ob("R-KP-DEFAULTS", "default-row", ok,
          "missing columns default to %s (height 0, time NaN)" % rows[0] if ok else
          "the default row of kp::main is %s; positions 2 and 3 must be \"0\" and \"NaN\"" % rows, cx.where(f.d["span"]))
    # overrides: b[2] = height.unwrap_or(b[2]) ; b[3] = time.unwrap_or(b[3])
    hi, ti = cli.index("height"), cli.index("time")
    got = {}
    for l, recs in f.defs().items():
        for rec in recs:
            if rec[2] != "store":
                continue
            v = f._def_value_fwd(l, rec)
            if v[0] != "upd" or not v[2]:
                continue
            path = v[2]
            val = v[3]
            if val[0] == "call" and str(val[1]).endswith("::unwrap_or"):
                src = mir.strip_refs(val[2][0])
                if src[0] == "proj" and isinstance(src[2], tuple) and src[2][0] == "f":
                    fld = src[2][1]
                    pos = path[-1][1] if path[-1][0] == "elem" and len(path[-1]) == 2 else None
                    got[fld] = pos
    ok = got.get(hi) == 2 and got.get(ti) == 3
    cx.ob("R-KP-DEFAULTS", "overrides", ok,
          "-z overrides element 2 and -t overrides element 3" if ok else
          "-z / -t do not override exactly elements 2 / 3 (found %s)" % got, cx.where(f.d["span"]))


# ---------------------------------------------------------------------------------------------------------------------
# R-BATCH-RESET (C20): a transformed batch is dropped from the buffer before reading goes on

@rule("R-BATCH-RESET", ["C20"])
def r_batch_reset(cx):
    """kp's main reads tuples into a buffer and hands the buffer to transform() whenever it is full. From such a call
    inside the reading loop, every path back to the loop header passes through a call that empties the buffer
    (Vec::truncate / clear on the very vector handed to transform): otherwise the tuples of the batch are transformed
    and printed a second time with the next batch."""
    f = kp_fn(cx, "main")
    n = 0
    for lp in f.loops():
        for bb, t in f.calls():
            if bb not in lp.body or _callee(f, t) != "transform":
                continue
            # innermost loop containing the call that also contains the push
            inner = f.innermost_loop(bb)
            if inner is None or inner.header != lp.header:
                continue
            args = f.arg_terms(bb)
            buf = None
            for a in args:
                if a[0] == "refplace" and a[1]:
                    buf = a[2]   # the buffer is the one handed over mutably
            n += 1
            resets = set()
            for b2, t2 in f.calls():
                c2 = f.callee(t2) or ""
                if b2 in lp.body and (c2.endswith("Vec::<T, A>::truncate") or c2.endswith("Vec::<T, A>::clear")):
                    a2 = f.arg_terms(b2)
                    if a2 and a2[0][0] == "refplace" and (buf is None or a2[0][2] == buf):
                        if not c2.endswith("truncate") or (len(a2) > 1 and is_zero(a2[1])):
                            resets.add(b2)
            # is there a path from the call's continuation to a latch of the loop that avoids all resets?
            start = t.get("target")
            seen = set()
            work = [start] if start is not None else []
            leak = False
            while work:
                x = work.pop()
                if x in seen or x in resets or x not in lp.body:
                    continue
                seen.add(x)
                if x == lp.header:
                    leak = True
                    break
                work.extend(f.succ[x])
            cx.ob("R-BATCH-RESET", "main/transform%d" % (n - 1), not leak,
                  "after the intermediate transform() the buffer is emptied before the next line is read" if not leak else
                  "kp main: after transforming a full batch the reading loop can continue without emptying the buffer: "
                  "the batch is transformed and printed again with the next one", cx.where(t["span"]))
    cx.count("R-BATCH-RESET", "in_loop_transform_calls", n)


def is_zero(t):
    return t[0] == "const" and t[2] == 0 and not isinstance(t[2], bool)


# ---------------------------------------------------------------------------------------------------------------------
# R-KP-ROUNDTRIP (C20): --roundtrip prints result minus input

def _root_name(f, l, depth=0):
    """name of the variable a temporary is (an element of / a reference into), through copies, borrows and Index"""
    for _ in range(8):
        nm = f.name_of_local.get(l)
        if nm:
            return nm
        defs = f.defs().get(l, ())
        if len(defs) != 1:
            return None
        bb, i, kind = defs[0][0], defs[0][1], defs[0][2]
        if kind == "calldest":
            t = f.term(bb)
            c = f.callee(t) or ""
            if c.rsplit("::", 1)[-1] in ("index", "index_mut", "deref", "deref_mut", "as_slice", "as_mut_slice") and t["args"]:
                pl = mir.op_place(t["args"][0])
                if pl is None:
                    return None
                l = pl["l"]
                continue
            return None
        if i is None or i >= len(f.stmts(bb)):
            return None
        s = f.stmts(bb)[i]
        if s["k"] != "assign":
            return None
        rv = s["rv"]
        if rv["k"] in ("use", "cast"):
            p = mir.op_place(rv["a"])
        elif rv["k"] in ("ref", "rawptr"):
            p = rv["place"]
        else:
            return None
        if p is None:
            return None
        l = p["l"]
    return None


@rule("R-KP-ROUNDTRIP", ["C20"])
def r_kp_roundtrip(cx):
    """In kp's transform the roundtrip residual of a tuple is `operands[i] - buffer[i]`: the tuple after the forward
    and inverse application minus the copy of the input taken before - in this order (the library's own roundtrip
    examples and the rumination on kp define the residual as result minus input)."""
    f = kp_fn(cx, "transform")
    n = 0
    # the copy of the input: the vector that receives clone_from(operands)
    copies = set()
    for bb, t in f.calls():
        if (_callee(f, t)).endswith("::clone_from") and t["args"]:
            pl = mir.op_place(t["args"][0])
            if pl is not None:
                nm = _root_name(f, pl["l"])
                if nm:
                    copies.add(nm)
    for bb, t in f.calls():
        c = _callee(f, t)
        if not (c.endswith("::sub") and "Coor4D" in (t.get("callee_full") or c)):
            continue
        n += 1
        names = []
        for a in t["args"]:
            pl = mir.op_place(a)
            names.append(_root_name(f, pl["l"]) if pl is not None else None)
        ok = len(names) == 2 and names[1] in copies and names[0] is not None and names[0] not in copies
        cx.ob("R-KP-ROUNDTRIP", "transform/residual%d" % (n - 1), ok,
              "the roundtrip residual is %s[i] - %s[i] (result minus saved input)" % (names[0], names[1]) if ok else
              "kp transform computes the roundtrip residual as %s - %s: it must be the roundtrip result minus the saved "
              "input (%s)" % (names[0], names[1] if len(names) > 1 else "?", ", ".join(sorted(copies)) or "no copy found"),
              cx.where(t["span"]))
        # ... for every tuple of the batch: the loop that forms the residuals does not end at the number of successful
        # transformations (an unsuccessful tuple may stand anywhere in the batch, the lines behind position n would be
        # printed as coordinates, not as residuals)
        import pertuple
        lp = f.innermost_loop(bb)
        if lp is not None:
            x = pertuple.iterator_entry_value(f, lp)
            by_count = []
            if x is not None:
                mir.walk(x, lambda y: (by_count.append(1) if y[0] == "call" and isinstance(y[1], str) and
                                       y[1].rsplit("::", 1)[-1] == "apply" else None) or True)
            cx.ob("R-KP-ROUNDTRIP", "transform/residual%d/all-tuples" % (n - 1), not by_count,
                  "the residuals are formed for every tuple of the batch" if not by_count else
                  "kp transform forms the roundtrip residuals for the first n tuples only, n being the number of successful "
                  "transformations: with an unsuccessful tuple anywhere but at the end, the last lines are printed as "
                  "roundtripped coordinates instead of residuals", cx.where(f.term(lp.header)["span"]))
    if n == 0:
        cx.ob("R-KP-ROUNDTRIP", "transform/residual0", False, "anchor-missing: no Coor4D subtraction in kp transform",
              cx.where(f.d["span"]))
    cx.count("R-KP-ROUNDTRIP", "residuals", n)


# ---------------------------------------------------------------------------------------------------------------------
# R-KP-DECIMALS (C20): a requested number of decimals is used as given

@rule("R-KP-DECIMALS", ["C20"])
def r_kp_decimals(cx):
    """`-d N` is honoured for every N: in kp's transform no branch depends on the *value* of the requested number of
    decimals (only on whether one was requested), so `-d 0` is not mistaken for "not given"."""
    f = kp_fn(cx, "transform")
    adt = cx.f.kp["adts"]["Cli"]
    di = [x["name"] for x in adt["variants"][0]["fields"]].index("decimals")
    field = ("proj", ("proj", ("arg", 1), "deref"), ("f", di))
    n = 0
    bad = None
    for bb in sorted(f.reachable()):
        t = f.term(bb)
        if t["k"] != "switch":
            continue
        c = f.operand(t["discr"], f.end_point(bb))
        hit = []

        def v(x):
            if x == field:
                hit.append(1)
                return False
            return True
        mir.walk(c, v)
        if not hit:
            continue
        n += 1
        if c[0] != "discr":
            bad = bad or (bb, c)
    for bb, t in f.calls():
        for a in f.arg_terms(bb):
            hit = []

            def v2(x):
                if x == field:
                    hit.append(1)
                    return False
                return True
            mir.walk(a, v2)
            if hit:
                n += 1
                break
    cx.ob("R-KP-DECIMALS", "transform/decimals", bad is None and n > 0,
          "the requested decimals are only tested for presence, never for their value" if bad is None and n > 0 else
          ("kp transform branches on the value of the requested number of decimals (%s): some `-d N` is treated as if "
           "it had not been given" % mir.show(bad[1])[:60]) if bad else
          "anchor-missing: the decimals option is not consulted in kp transform",
          cx.where(f.term(bad[0])["span"]) if bad else cx.where(f.d["span"]))
    cx.count("R-KP-DECIMALS", "tests_of_decimals", n)


# ---------------------------------------------------------------------------------------------------------------------
# R-KP-DIMENSION (C20): the number of output columns

@rule("R-KP-DIMENSION", ["C20"])
def r_kp_dimension(cx):
    """(a) transform() prints as many columns as `-D` asks for, and as many as the widest input line has when `-D` is
    not given: the value the output `match` dispatches on is exactly `options.dimension.unwrap_or(<input width>)`, not a
    clamped or otherwise adjusted version of it. (b) The input width is measured after the comment has been removed
    from the line: the length folded into the running maximum is the length of the argument list with the comment cut
    off (truncate / take_while), not of the raw split."""
    import mir
    f = kp_fn(cx, "transform")
    n = 0
    if f is not None:
        for b in sorted(f.reachable()):
            t = f.term(b)
            if t["k"] != "switch" or len(t["targets"]) < 3:
                continue
            vals = {v for v, _ in t["targets"]}
            if not {1, 2, 3} <= vals:
                continue
            n += 1
            c = mir.strip_refs(f.operand(t["discr"], f.end_point(b)))
            ok = c[0] == "call" and isinstance(c[1], str) and c[1].endswith("Option::<T>::unwrap_or") and len(c[2]) == 2 and \
                mir.strip_refs(c[2][1])[0] == "arg" and mir.strip_refs(c[2][0])[0] == "proj"
            cx.ob("R-KP-DIMENSION", "transform/output-dimension", ok,
                  "the output match dispatches on options.dimension.unwrap_or(input width)" if ok else
                  "kp transform: the number of output columns is not `-D` when given (else the input width) but an "
                  "adjusted value: a requested dimension above (or below) the input width is not honoured",
                  cx.where(t["span"]))
    g = kp_fn(cx, "main")
    m = 0
    if g is not None:
        for bb, t in g.calls():
            c = g.callee(t) or ""
            if not c.endswith("::max"):
                continue
            a = g.arg_terms(bb)
            lens = [x for x in a if mir.strip_refs(x)[0] == "call" and isinstance(mir.strip_refs(x)[1], str) and
                    mir.strip_refs(x)[1].endswith("::len")]
            if not lens or not any(mir.strip_refs(x)[0] == "loopphi" for x in a):
                continue
            m += 1
            v = mir.strip_refs(lens[0])[2][0]
            ok = _has_cut(v)
            cx.ob("R-KP-DIMENSION", "main/input-width", ok,
                  "the input width is the length of the argument list after the comment was cut off" if ok else
                  "kp main: the width of an input line is measured before its trailing comment is removed: the words of "
                  "the comment count as coordinate columns, and the whole batch is printed with more columns",
                  cx.where(t["span"]))
    # (c) every batch is printed with the width of the widest line so far: the dimension handed to transform() is the
    # running maximum, not the width of the line just read
    if g is not None:
        k = 0
        for bb, t in g.calls():
            if (g.callee(t) or "").rsplit("::", 1)[-1] != "transform" or len(g.arg_terms(bb)) < 3:
                continue
            a = mir.strip_refs(g.arg_terms(bb)[2])
            running = a[0] in ("loopphi", "phi") or (a[0] == "call" and isinstance(a[1], str) and a[1].endswith("::max") and
                                                     any(mir.strip_refs(x)[0] in ("loopphi", "phi") for x in a[2]))
            m += 1
            cx.ob("R-KP-DIMENSION", "main/transform%d/width" % k, running,
                  "transform() receives the running maximum of the input widths" if running else
                  "kp main: a batch is handed to transform() with %s as its width, not the widest line so far: a whole batch "
                  "of 25000 lines is cut to the width of its last line" % mir.show(a, maxd=3), cx.where(t["span"]))
            k += 1
    cx.count("R-KP-DIMENSION", "dimension_sites", n + m)


@rule("R-KP-WIDTH-MONOTONE", ["C20"])
def r_kp_width_monotone(cx):
    """kp estimates the output dimension from the widest input line seen so far, over all input files: the running
    maximum handed to transform() is only ever updated as max(itself, width of the line) - inside the reading loops it
    is never set to a constant (restarting the estimate per file prints the tuples still buffered from a wider file with
    the columns of the narrower one)."""
    import mir
    f = kp_fn(cx, "main")
    n = 0
    if f is not None:
        for bb, t in f.calls():
            if _callee(f, t) != "transform":
                continue
            a = f.arg_terms(bb)
            if len(a) < 3:
                continue
            w = mir.strip_refs(a[2])
            n += 1
            bad = []
            seen = set()

            def walk(y, depth=0):
                y = mir.strip_refs(y)
                if depth > 60:
                    return
                try:
                    if y in seen:
                        return
                    seen.add(y)
                except TypeError:
                    return
                if y[0] == "loopphi":
                    d = f.phi_def(y)
                    if d is not None and d[0] == "phi":
                        preds = f.header_preds(y[1][0])
                        for p, o in zip(preds, d[2]):
                            # the value arrives from inside some reading loop (the loop itself or an enclosing one)
                            inside = any(p in lp.body for lp in f.loops())
                            o2 = mir.strip_refs(o)
                            if inside and o2[0] == "const":
                                bad.append(o2)
                            else:
                                walk(o, depth + 1)
                elif y[0] == "phi":
                    for o in y[2]:
                        walk(o, depth + 1)
                elif y[0] == "call" and isinstance(y[1], str) and y[1].rsplit("::", 1)[-1] == "max":
                    for o in y[2]:
                        walk(o, depth + 1)
            walk(w)
            ok = not bad
            cx.ob("R-KP-WIDTH-MONOTONE", "main/transform%d" % (n - 1), ok,
                  "the input width handed to transform is a running maximum over everything read" if ok else
                  "kp main resets the input-width estimate to %s inside its reading loops: tuples buffered from an earlier, "
                  "wider file are printed with the number of columns of a later, narrower one" % mir.show(bad[0], maxd=1),
                  cx.where(t["span"]))
    cx.count("R-KP-WIDTH-MONOTONE", "transform_calls", n)


@rule("R-KP-NO-PREROUND", ["C20"])
def r_kp_no_preround(cx):
    """kp prints the coordinates the library computed, rounded by the formatter alone (`{:.N}` rounds the exact value,
    ties to even). transform() does no rounding arithmetic of its own on the results (no round / floor / ceil / trunc on
    f64 values): `(v * 10^d).round() / 10^d` before formatting rounds an inexact product half away from zero and prints
    2.125 as 2.13."""
    f = kp_fn(cx, "transform")
    n = 0
    bad = []
    if f is not None:
        for bb, t in f.calls():
            c = f.callee(t) or ""
            n += 1
            if c.rsplit("::", 1)[-1] in ("round", "floor", "ceil", "trunc", "round_ties_even") and "f64" in c:
                bad.append((c.rsplit("::", 1)[-1], t["span"]))
    ok = f is not None and not bad
    cx.ob("R-KP-NO-PREROUND", "transform", ok,
          "transform() leaves rounding to the formatter" if ok else
          "kp transform rounds the results arithmetically (%s) before formatting them: exact ties and values with many "
          "decimals print differently from the library result" % (bad[0][0] if bad else "?"),
          cx.where(bad[0][1]) if bad else "src/bin/kp.rs")
    cx.count("R-KP-NO-PREROUND", "calls_scanned", n)


def _has_cut(v):
    cut = []

    def vis(y):
        if y[0] == "mod" and isinstance(y[2], tuple) and len(y[2]) > 1 and isinstance(y[2][1], str) and \
                y[2][1].rsplit("::", 1)[-1] in ("truncate", "drain", "retain", "split_off"):
            cut.append(1)
        if y[0] == "call" and isinstance(y[1], str) and y[1].rsplit("::", 1)[-1] in ("take_while", "map_while"):
            cut.append(1)
        return True
    mir.walk(v, vis)
    return bool(cut)


@rule("R-KP-SKIP-AFTER-CUT", ["C20"])
def r_kp_skip_after_cut(cx):
    """Blank lines and comments are skipped: a line that holds nothing but a comment produces no output line. In the
    line loop of kp::main a test for an empty token list - whose empty side goes on to the next line - looks at the list
    *after* the comment was cut off (truncate / take_while); a test of the raw split only lets `# remark` through with
    zero columns, and the line is transformed with the defaults 0 0 0 NaN."""
    import pertuple
    f = kp_fn(cx, "main")
    if f is None:
        cx.ob("R-KP-SKIP-AFTER-CUT", "anchor", False, "anchor-missing: kp::main")
        return
    n = 0
    good = raw = 0
    where = None
    for lp in f.loops():
        x = pertuple.iterator_entry_value(f, lp)
        if x is None:
            continue
        hit = []
        mir.walk(x, lambda y: (hit.append(1) if y[0] == "call" and isinstance(y[1], str) and y[1].endswith("BufRead::lines") else None) or True)
        if not hit:
            continue
        n += 1
        for b in sorted(lp.body):
            sw = f.term(b)
            if sw["k"] != "switch" or f.innermost_loop(b) is not lp:
                continue
            c = mir.strip_refs(f.operand(sw["discr"], f.end_point(b)))
            if c[0] == "un" and c[1] == "Not":
                c = mir.strip_refs(c[2])
            lst = None
            if c[0] == "call" and isinstance(c[1], str) and c[1].endswith("::is_empty") and "Vec" in c[1]:
                lst = c[2][0]
            elif c[0] == "bin" and c[1] in ("Lt", "Le", "Eq", "Ne", "Gt", "Ge"):
                for a, o in ((c[2], c[3]), (c[3], c[2])):
                    a = mir.strip_refs(a)
                    if a[0] == "call" and isinstance(a[1], str) and a[1].endswith("Vec::<T, A>::len") and is_const_num(o) and o[2] in (0, 1):
                        lst = a[2][0]
            if lst is None:
                continue
            toks = []
            mir.walk(lst, lambda y: (toks.append(1) if y[0] == "call" and isinstance(y[1], str) and
                                     y[1].rsplit("::", 1)[-1] in ("split_whitespace", "split", "split_ascii_whitespace") else None) or True)
            if not toks:
                continue
            # one side of the test goes straight on to the next line
            if not any(lp.header in f.reach_from([sx], avoid=[bb for bb in lp.body if f.term(bb)["k"] == "call" and
                                                             (f.callee(f.term(bb)) or "").endswith("::push")]) for sx in f.succ[b]):
                continue
            where = where or cx.where(sw["span"])
            if _has_cut(lst):
                good += 1
            else:
                raw += 1
    ok = good > 0
    cx.ob("R-KP-SKIP-AFTER-CUT", "main/empty-after-comment", ok,
          "kp::main skips a line whose token list is empty after the comment was removed" if ok else
          "kp::main %s: a line holding only a comment is not skipped - it is read as a tuple with zero columns, filled with "
          "the defaults and transformed, so kp prints an output line for it" % (
              "tests the token list for emptiness only before the comment is cut off" if raw else
              "has no test for an empty token list in its line loop"), where or cx.where(f.d["span"]))
    cx.count("R-KP-SKIP-AFTER-CUT", "line_loops", n)


@rule("R-KP-CONTEXT", ["C20"])
def r_kp_context(cx):
    """kp serves every operation the library accepts: file based macros, grids and PROJ syntax included - it builds its
    operation in a `Plain` context (the one with access to the resources on disk), not in a `Minimal` one."""
    f = kp_fn(cx, "main")
    if f is None:
        cx.ob("R-KP-CONTEXT", "anchor", False, "anchor-missing: kp::main")
        return
    made = []
    for bb, t in f.calls():
        c = f.callee(t) or ""
        if c.startswith("geodesy::context::") and c.rsplit("::", 1)[-1] in ("new", "default"):
            made.append((c, t))
        elif "Context" in (t.get("callee") or "") and (t.get("callee") or "").rsplit("::", 1)[-1] == "new":
            made.append((c or (t.get("callee_full") or ""), t))
    plain = [x for x in made if "plain::Plain" in x[0] or "Plain" in (x[1].get("callee_full") or "")]
    other = [x for x in made if x not in plain]
    ok = bool(plain) and not other
    cx.ob("R-KP-CONTEXT", "main/context", ok,
          "kp builds its operation in a Plain context" if ok else
          "kp creates its context with %s: operations that need resources on disk (macros from ./geodesy/resources, grids, PROJ "
          "syntax) are refused although the library accepts them" % (other[0][0] if other else "something that is not Plain::new"),
          cx.where((other or made or [(None, {"span": f.d["span"]})])[0][1]["span"]))
    cx.count("R-KP-CONTEXT", "contexts", len(made))


@rule("R-KP-EVERY-LINE", ["C20"])
def r_kp_every_line(cx):
    """Every coordinate line gives one output line: in the line loop of kp::main the only way to go on to the next line
    without having stored a tuple is the test for an empty (blank or comment-only) line. A second `continue` - lines whose
    first column does not parse, say - makes kp print fewer lines than it read, each later one shifted against its input."""
    import pertuple
    f = kp_fn(cx, "main")
    if f is None:
        cx.ob("R-KP-EVERY-LINE", "anchor", False, "anchor-missing: kp::main")
        return
    n = 0
    for lp in f.loops():
        x = pertuple.iterator_entry_value(f, lp)
        if x is None:
            continue
        hit = []
        mir.walk(x, lambda y: (hit.append(1) if y[0] == "call" and isinstance(y[1], str) and y[1].endswith("BufRead::lines") else None) or True)
        if not hit:
            continue
        pushes = [bb for bb in lp.body if f.term(bb)["k"] == "call" and (f.callee(f.term(bb)) or "").endswith("Vec::<T, A>::push") and
                  "Coor4D" in (f.term(bb).get("callee_full") or "")]
        if not pushes:
            continue
        n += 1
        skips = []
        for b in sorted(lp.body):
            sw = f.term(b)
            if sw["k"] != "switch" or f.innermost_loop(b) is not lp or any(f.dominates(p, b) for p in pushes):
                continue
            for sx in f.succ[b]:
                if sx in lp.body and lp.header in f.reach_from([sx], avoid=pushes) and \
                        not all(lp.header in f.reach_from([o], avoid=pushes) for o in f.succ[b] if o in lp.body):
                    skips.append((b, sw))
                    break
        odd = []
        for b, sw in skips:
            c = mir.strip_refs(f.operand(sw["discr"], f.end_point(b)))
            while c[0] == "un" and c[1] == "Not":
                c = mir.strip_refs(c[2])
            empt = (c[0] == "call" and isinstance(c[1], str) and c[1].endswith("::is_empty")) or \
                (c[0] == "bin" and any(mir.strip_refs(z)[0] == "call" and str(mir.strip_refs(z)[1]).endswith("::len") for z in (c[2], c[3])))
            # the header's own `next() is Some` test and the `?` on the line are not skips of a line
            is_iter = c[0] == "discr"
            if not empt and not is_iter:
                odd.append((b, sw))
        cx.ob("R-KP-EVERY-LINE", "main/skips", not odd,
              "the only test that skips a line is the one for an empty token list (%d skip tests)" % len(skips) if not odd else
              "kp::main skips input lines on a test other than `empty`: such lines get no output line, and every later output "
              "line is shifted against its input", cx.where(odd[0][1]["span"]) if odd else cx.where(f.term(lp.header)["span"]))
    cx.count("R-KP-EVERY-LINE", "line_loops", n)
