"""adapt / axisswap / unitconvert rules (C11, C01, C14): R-GATHER-SCATTER, R-INDEX-SPACE, R-UNITCONVERT-WIRING."""
import keys as K
import mir
import pertuple
from rulebase import rule
from rules.loops import upd_chain, _input_term
from rules.projections import strip_transparent


def _index_class(f, idx, perm_names):
    """'plain' if the index term is a loop variable / constant; 'perm' if it is read from the permutation array"""
    t = idx
    for _ in range(6):
        if t[0] == "cast":
            t = t[2]
            continue
        break
    if t[0] == "const":
        return "plain"
    # element of an array whose origin is the permutation (post / pos)
    if t[0] == "proj" and isinstance(t[2], tuple) and t[2][0] == "elem":
        return "perm"
    if t[0] == "proj" and t[2] == ("f", 0):  # induction variable (Some.0)
        return "plain"
    if t[0] in ("loopphi", "phi"):
        return "plain"
    return "other"


def _elem_index(t):
    """for proj(X, ('elem', k)) / proj(X, ('elem', None, idx)) -> (X, index term or const)"""
    if t[0] == "proj" and isinstance(t[2], tuple) and t[2][0] == "elem":
        if len(t[2]) == 2:
            return t[1], ("const", "usize", t[2][1])
        return t[1], t[2][2]
    return None, None


def moves_of_write(f, pt, bb):
    """[(dest index class, src index class, mult index class)] for the element moves `dst[a] = src[b] * m[c]` that
    make up the tuple written at bb"""
    point = f.end_point(bb)
    v = mir.strip_refs(f._deref(f.arg_terms(bb)[2], point))
    inp = _input_term(pt)
    moves = []

    def factor_classes(val):
        # val = Mul(src_elem, mult_elem)
        val = mir.strip_refs(val)
        if val[0] != "bin" or val[1] != "Mul":
            return None
        sides = [mir.strip_refs(val[2]), mir.strip_refs(val[3])]
        src = mult = None
        for s in sides:
            base, idx = _elem_index(s)
            if base is None:
                continue
            if inp is not None and _derives_from(base, inp):
                src = idx
            else:
                mult = idx
        if src is None or mult is None:
            return None
        return _index_class(f, src, None), _index_class(f, mult, None)

    # aggregate form: Coor4D([m0, m1, m2, m3])
    a = v
    if a[0] == "agg" and isinstance(a[1], tuple) and a[1][0] == "adt" and len(a[2]) == 1:
        a = mir.strip_refs(a[2][0])
    if a[0] == "agg" and a[1] == "array":
        for k, e in enumerate(a[2]):
            fc = factor_classes(e)
            if fc is None:
                return None
            mcls = fc[1]
            # constant multiplier index must equal the destination position
            ev = mir.strip_refs(e)
            for side in (mir.strip_refs(ev[2]), mir.strip_refs(ev[3])):
                base, idx = _elem_index(side)
                if base is not None and not (inp is not None and _derives_from(base, inp)):
                    if idx[0] == "const" and idx[2] != k:
                        mcls = "wrong-const(%s for %d)" % (idx[2], k)
            moves.append(("plain", fc[0], mcls))
        return moves
    # update form: phi / upd chain with dynamic element paths
    seen = []

    def collect(t, depth=0):
        t = mir.strip_refs(t)
        if depth > 12:
            return
        if t[0] == "upd":
            base, ups = upd_chain(t)
            for path, val in ups:
                p = list(path or ())
                if p and p[0] == ("f", 0):
                    p = p[1:]
                if len(p) == 1 and p[0][0] == "elem":
                    didx = ("const", "usize", p[0][1]) if len(p[0]) == 2 else p[0][2]
                    fc = factor_classes(val)
                    if fc is not None:
                        seen.append((_index_class(f, didx, None), fc[0], fc[1]))
            collect(base, depth + 1)
        elif t[0] in ("phi",):
            for o in t[2]:
                collect(o, depth + 1)
        elif t[0] == "loopphi":
            d = f.phi_def(t)
            if d[0] == "phi":
                for o in d[2]:
                    if o != t:
                        collect(o, depth + 1)

    collect(v)
    uniq = []
    for m in seen:
        if m not in uniq:
            uniq.append(m)
    return uniq or None


def _derives_from(t, inp, depth=0):
    t = mir.strip_refs(t)
    if t == inp:
        return True
    if t[0] in ("proj", "upd", "mod") and depth < 8:
        return _derives_from(t[1], inp, depth + 1)
    if t[0] == "phi" and depth < 8:
        return any(_derives_from(o, inp, depth + 1) for o in t[2])
    if t[0] == "loopphi":
        return False
    return False


@rule("R-GATHER-SCATTER", ["C11", "C01", "C14"])
def r_gather_scatter(cx):
    reg = cx.registry()
    n = 0
    for cpath, c in sorted(reg.ctors.items()):
        if not (set(c.names) & {"adapt", "axisswap"}) or not c.fwd or not c.inv:
            continue
        res = {}
        for role, fn in (("fwd", c.fwd), ("inv", c.inv)):
            f = cx.f.fn(fn)
            for pt in pertuple.per_tuple_loops(f):
                for bb, m in pt.writes:
                    if m == "set_coord":
                        res[role] = (moves_of_write(f, pt, bb), cx.where(f.term(bb)["span"]))
        name = c.names[0]
        fw, inv = res.get("fwd", (None, None)), res.get("inv", (None, None))
        n += 1
        if not fw[0] or not inv[0]:
            cx.ob("R-GATHER-SCATTER", "%s/shape" % name, False,
                  "anchor-missing: the element moves of %s fwd/inv could not be extracted (fwd=%s inv=%s)" % (name, fw[0], inv[0]))
            continue
        fset, iset = set(fw[0]), set(inv[0])
        ok_f = fset == {("plain", "perm", "plain")}
        cx.ob("R-GATHER-SCATTER", "%s/fwd" % name, ok_f,
              "%s forward gathers: out[k] = in[perm[k]] * mult[k]" % name if ok_f else
              "%s forward is not the gather out[k] = in[perm[k]] * mult[k]: index classes (dest, source, multiplier) = %s" % (
                  name, sorted(fset)), fw[1])
        ok_i = iset == {("perm", "plain", "plain")}
        cx.ob("R-GATHER-SCATTER", "%s/inv" % name, ok_i,
              "%s inverse scatters with the same multiplier index: out[perm[k]] = in[k] * (1/mult[k])" % name if ok_i else
              "%s inverse must be the scatter out[perm[k]] = in[k] * m[k] (source and destination of the forward "
              "gather exchanged, multiplier taken at the same index k); found (dest, source, multiplier) index classes "
              "%s" % (name, sorted(iset)), inv[1])
    cx.count("R-GATHER-SCATTER", "operators", n)


@rule("R-INDEX-SPACE", ["C11", "C14"])
def r_index_space(cx):
    """combine_descriptors: arrays of the `from` descriptor may only be indexed by positions found in from.post"""
    name = "inner_op::adapt::combine_descriptors"
    if not cx.f.has_fn(name):
        cx.ob("R-INDEX-SPACE", "anchor", False, "anchor-missing: %s" % name)
        return
    f = cx.f.fn(name)
    import elems
    r = elems.return_term(f)
    if r is None:
        cx.ob("R-INDEX-SPACE", "anchor", False, "anchor-missing: no return value in %s" % name)
        return
    fields = [x["name"] for x in cx.f.lib["adts"]["inner_op::adapt::CoordinateOrderDescriptor"]["variants"][0]["fields"]]
    mi = fields.index("mult")
    # collect every element read of (*from).<field>
    reads = []

    def visit(x):
        if x[0] == "proj" and isinstance(x[2], tuple) and x[2][0] == "elem":
            b = x[1]
            if b[0] == "proj" and isinstance(b[2], tuple) and b[2][0] == "f" and b[1] == ("proj", ("arg", 1), "deref"):
                idx = ("const", "usize", x[2][1]) if len(x[2]) == 2 else x[2][2]
                reads.append((fields[b[2][1]], idx))
        return True

    for lp in f.loops():
        for l in f.loop_carried(lp.header):
            d = f.phi_def(("loopphi", (lp.header, l)))
            mir.walk(d, visit)
    mir.walk(r, visit)
    n = 0
    seen = set()
    for (field, idx) in reads:
        if field != "mult":
            continue
        from_valued = bool([1 for c in _calls(idx) if c[1].endswith("::position")])
        key = "from.%s[%s]" % (field, "position" if from_valued else _index_class(f, idx, None))
        if key in seen:
            continue
        seen.add(key)
        n += 1
        cx.ob("R-INDEX-SPACE", key, from_valued,
              "from.%s is indexed by a position found in from.post" % field if from_valued else
              "combine_descriptors indexes from.%s with the position of the *target* descriptor: the sign/unit "
              "multiplier of the wrong source axis is applied whenever the axis order changes "
              "(e.g. adapt from=seuf negates the easting instead of the northing)" % field, cx.where(f.d["span"]))
    cx.count("R-INDEX-SPACE", "from_mult_reads", n)


def _calls(t):
    out = []

    def visit(x):
        if x[0] == "call" and isinstance(x[1], str):
            out.append(x)
        return True

    mir.walk(t, visit)
    return out


@rule("R-UNITCONVERT-WIRING", ["C11", "C14"])
def r_unitconvert(cx):
    reg = cx.registry()
    c = None
    for cpath, cc in reg.ctors.items():
        if "unitconvert" in cc.names:
            c = cc
    if c is None or not c.fwd or not c.inv:
        cx.ob("R-UNITCONVERT-WIRING", "anchor", False, "anchor-missing: unitconvert")
        return
    import elems as E
    want_keys = {0: ("xy_in_to_pivot", "pivot_to_xy_out"), 1: ("xy_in_to_pivot", "pivot_to_xy_out"),
                 2: ("z_in_to_pivot", "pivot_to_z_out")}
    ratios = {}
    for role, fn, op in (("fwd", c.fwd, "Mul"), ("inv", c.inv, "Div")):
        f = cx.f.fn(fn)
        for pt in pertuple.per_tuple_loops(f):
            for bb, m in pt.writes:
                point = f.end_point(bb)
                v = f._deref(f.arg_terms(bb)[2], point)
                es = E.elems(f, v, point)
                inp = _input_term(pt)
                for k in (0, 1, 2):
                    e = es[k]
                    ok = False
                    got = None
                    if e[0] == "bin" and e[1] == op and E.same_elem(e[2], ("proj", inp, ("elem", k)), f, point):
                        ratio = E.look_through_calls(f, e[3])      # factors handed back by a local helper / struct
                        if ratio[0] == "bin" and ratio[1] == "Mul":
                            ks = []
                            for side in (ratio[2], ratio[3]):
                                s = strip_transparent(side)
                                if s[0] == "call" and s[1] == K.PP + "::real":
                                    ks.append(K._const_key(s[2][1]))
                            got = tuple(ks)
                            ok = tuple(ks) == want_keys[k]
                    cx.ob("R-UNITCONVERT-WIRING", "%s/elem%d" % (role, k), ok,
                          "unitconvert %s: element %d is %s by %s*%s" % (
                              role, k, "multiplied" if op == "Mul" else "divided", *want_keys[k]) if ok else
                          "unitconvert %s: element %d must be %s by %s*%s (found %s)" % (
                              role, k, "multiplied" if op == "Mul" else "divided", want_keys[k][0], want_keys[k][1], got),
                          cx.where(f.term(bb)["span"]))
                for k in (0, 2):
                    if es[k][0] == "bin" and es[k][1] == op:
                        ratios.setdefault(role, {})[k] = mir.strip_refs(es[k][3])
                e3 = es[3]
                ok3 = E.same_elem(e3, ("proj", inp, ("elem", 3)), f, point)
                cx.ob("R-UNITCONVERT-WIRING", "%s/elem3" % role, ok3, "unitconvert %s leaves the fourth element alone" % role
                      if ok3 else "unitconvert %s changes the fourth element" % role, cx.where(f.term(bb)["span"]),
                      nontrivial=False)
    # a "nothing to do" short-cut (a return that by-passes the per-tuple loop) must be decided from *both* factors: a
    # short-cut taken when the horizontal factor alone is 1 skips the vertical conversion
    import guards
    for role, fn in (("fwd", c.fwd), ("inv", c.inv)):
        f = cx.f.fn(fn)
        heads = [pt.header for pt in pertuple.per_tuple_loops(f)]
        rets = [b for b in f.reachable() if f.term(b)["k"] == "return"]
        free = f.reach_from([0], avoid=tuple(heads)) if heads else set()
        deciders = []
        for b in sorted(free):
            t = f.term(b)
            if t["k"] != "switch":
                continue
            sides = [set(f.reach_from([x], avoid=tuple(heads))) for x in set(f.succ[b])]
            if any(any(r in sd for r in rets) for sd in sides) and any(h in f.reach_from([b]) for h in heads):
                deciders.append(b)
        ok = bool(heads)
        for b in deciders:
            for x in set(f.succ[b]):
                if any(h in f.reach_from([x]) for h in heads):
                    continue
                # x starts a pure by-pass: what is known there?
                facts = guards.branch_facts(f, x)
                sd = guards._side(f, b, x)
                if sd is not None:
                    facts |= guards.implied(f, f.operand(f.term(b)["discr"], f.end_point(b)), sd)
                for k, r in sorted(ratios.get(role, {}).items()):
                    if not any(_mentions(at, r) for at, _tv in facts):
                        ok = False
        if len(ratios.get(role, {})) < 2 and deciders:
            ok = False
        cx.ob("R-UNITCONVERT-WIRING", "%s/no-partial-bypass" % role, ok,
              "unitconvert %s: no return by-passes the per-tuple loop on the strength of one factor alone" % role if ok else
              "unitconvert %s can return a success count without entering its per-tuple loop, decided from one of the two "
              "factors only: a conversion that changes only the other group of units (e.g. only the height: `z_in=ft`) is "
              "skipped as a no-op" % role, cx.where(f.d["span"]))
    # constructor: which unit name feeds which stored factor
    g = cx.f.fn(c.path)
    want = {"xy_in_to_pivot": ("xy_in", False), "pivot_to_xy_out": ("xy_out", True),
            "z_in_to_pivot": ("z_in", False), "pivot_to_z_out": ("z_out", True)}
    got = {}
    for (bb, m, key, val) in K.inserts_in(cx.f, g):
        if m != "real" or key not in want or val is None:
            continue
        v = strip_transparent(val)
        recip = False
        if v[0] == "bin" and v[1] == "Div" and v[2][0] == "const":
            recip = True
            v = strip_transparent(v[3])
        unit_key = None
        for cterm in _calls(v):
            if cterm[1] == K.PP + "::text":
                unit_key = K._const_key(cterm[2][1])
        got[key] = (unit_key, recip)
    for key, w in sorted(want.items()):
        ok = got.get(key) == w
        cx.ob("R-UNITCONVERT-WIRING", "ctor/%s" % key, ok,
              "unitconvert stores %s = %s(factor of %s)" % (key, "1/" if w[1] else "", w[0]) if ok else
              "unitconvert must store %s = %s(factor of %s); found %s" % (key, "1/" if w[1] else "", w[0], got.get(key)),
              cx.where(g.d["span"]))


# ---------------------------------------------------------------------------------------------------------------------
# R-INDEX-VALIDATION (C11, C12, C09): list parameters that become array indices are validated as such

def _mentions_call(t, tails):
    hit = []

    def v(x):
        if x[0] == "call" and isinstance(x[1], str) and x[1].rsplit("::", 1)[-1] in tails:
            hit.append(x)
        return True
    mir.walk(t, v)
    return hit


@rule("R-INDEX-VALIDATION", ["C11", "C12", "C09"])
def r_index_validation(cx):
    """(a) axisswap::new: the forward/inverse functions index the tuple with `|order[k]| - 1`; the constructor therefore
    bounds the *magnitude* of every element (a comparison of abs/unsigned_abs of the element with the number of axes)
    and tests it for integrality (`(i as f64) != o`) and for zero. (b) stack::new: the arguments of push, pop and
    flip are coordinate indices; each is validated by membership in a literal list of integral values within 1..4
    (`[1., 2., 3., 4.].contains(i)`), not by an interval test that also admits 1.5."""
    n = 0
    if cx.pid in ("C11", "C09"):
        f = cx.f.fn("inner_op::axisswap::new")
        mag, integ, zero = [], [], []
        for bb in sorted(f.reachable()):
            t = f.term(bb)
            if t["k"] != "switch" or f.innermost_loop(bb) is None:
                continue
            c = f.operand(t["discr"], f.end_point(bb))
            if c[0] != "bin":
                continue
            if c[1] in ("Gt", "Ge", "Lt", "Le") and (_mentions_call(c[3], ("len",)) or _mentions_call(c[2], ("len",)) or
                                                      any(x[0] == "const" and x[2] in (4, 5) for x in (c[2], c[3]))):
                side = c[2] if not _mentions_call(c[2], ("len",)) else c[3]
                mag.append((bb, bool(_mentions_call(side, ("abs", "unsigned_abs")))))
            if c[1] in ("Ne", "Eq") and c[2][0] == "cast" and c[3][0] != "const":
                integ.append(bb)
            if c[1] in ("Ne", "Eq") and c[3][0] == "const" and c[3][2] == 0:
                zero.append(bb)
        # the number of indices itself is bounded by the number of coordinate dimensions (4): `order.len() > 4` -> error
        lens = []
        for bb in sorted(f.reachable()):
            t = f.term(bb)
            if t["k"] != "switch" or f.innermost_loop(bb) is not None:
                continue
            c = f.operand(t["discr"], f.end_point(bb))
            if c[0] == "bin" and c[1] in ("Gt", "Ge", "Lt", "Le"):
                for x, k in ((c[2], c[3]), (c[3], c[2])):
                    if _mentions_call(x, ("len",)) and mir.strip_refs(k)[0] == "const" and isinstance(mir.strip_refs(k)[2], int) and \
                            _mentions_call(x, ("series",)) or (
                            mir.strip_refs(k)[0] == "const" and isinstance(mir.strip_refs(k)[2], int) and
                            mir.strip_refs(x)[0] in ("call", "un") and "len" in str(mir.strip_refs(x)[1]) + str(mir.strip_refs(x)[0] == "un")):
                        kk = mir.strip_refs(k)[2]
                        op = c[1] if x is c[2] else {"Gt": "Lt", "Ge": "Le", "Lt": "Gt", "Le": "Ge"}[c[1]]
                        # largest accepted length
                        lens.append(kk if op in ("Gt", "Le") else kk - 1)
        n += 1
        okl = bool(lens) and max(lens) <= 4
        cx.ob("R-INDEX-VALIDATION", "axisswap/length", okl,
              "axisswap::new accepts at most 4 indices" if okl else
              "axisswap::new accepts an `order` of %s indices (a coordinate tuple has 4 dimensions): the fifth index passes "
              "the range test against the list's own length and indexes the 4-element tables out of bounds" % (
                  max(lens) if lens else "any number of"), cx.where(f.d["span"]))
        n += 1
        ok = bool(mag) and all(a for _, a in mag) and bool(integ) and bool(zero)
        why = "no range test of the elements of `order`" if not mag else (
            "the range test compares the signed element (a negative out-of-range axis passes)" if not all(a for _, a in mag)
            else ("no integrality test" if not integ else "no test for 0"))
        cx.ob("R-INDEX-VALIDATION", "axisswap/order", ok,
              "axisswap::new bounds |order[k]| by the number of axes, and tests integrality and 0" if ok else
              "axisswap::new: %s - an element that is not a valid (signed) axis number is accepted and indexes the tuple "
              "at apply time" % why, cx.where(f.term(mag[0][0])["span"]) if mag else cx.where(f.d["span"]))
    if cx.pid in ("C12", "C09"):
        g0 = cx.f.fn("inner_op::stack::new")
        k = 0
        keys_seen = set()
        import pertuple
        sites = []
        for bb, t in g0.calls():
            c = g0.callee(t) or ""
            if c.endswith("::contains"):
                lp = g0.innermost_loop(bb)
                # which series is being validated: the iterator of the enclosing loop
                src = pertuple.iterator_entry_value(g0, lp) if lp is not None else None
                key = None
                if src is not None:
                    for x in _mentions_call(src, ("series",)):
                        key = K._const_key(x[2][1]) if len(x[2]) > 1 else None
                if key in ("push", "pop", "flip"):
                    sites.append((g0, bb, t, key))
            elif c.startswith("inner_op::stack::") and c != "inner_op::stack::new" and cx.f.has_fn(c):
                # a private helper that validates the series handed to it
                h = cx.f.fn(c)
                for ai, av in enumerate(g0.arg_terms(bb)):
                    key = None
                    for x in _mentions_call(av, ("series",)):
                        key = K._const_key(x[2][1]) if len(x[2]) > 1 else None
                    if key not in ("push", "pop", "flip"):
                        continue
                    for b2, t2 in h.calls():
                        if not (h.callee(t2) or "").endswith("::contains"):
                            continue
                        lp = h.innermost_loop(b2)
                        src = pertuple.iterator_entry_value(h, lp) if lp is not None else None
                        hit = []
                        if src is not None:
                            mir.walk(src, lambda y: (hit.append(1) if y == ("arg", ai + 1) else None) or True)
                        if hit:
                            sites.append((h, b2, t2, key))
        for (g, bb, t, key) in sites:
            c = g.callee(t) or ""
            a = g.arg_terms(bb)
            keys_seen.add(key)
            n += 1
            k += 1
            recv = a[0]
            for _ in range(4):
                if recv[0] == "cast":
                    recv = recv[2]
                elif recv[0] in ("refplace", "ref"):
                    recv = g._deref(recv, g.end_point(bb))
                else:
                    break
            vals = None
            if recv[0] == "const" and isinstance(recv[2], tuple) and recv[2][0] == "path":
                # a named constant: its value as evaluated from the source
                import consts
                try:
                    cv = consts.const_value(cx.f, recv[2][1])
                    from fractions import Fraction
                    if isinstance(cv, (list, tuple)) and all(isinstance(x, (int, float, Fraction)) for x in cv):
                        vals = [float(x) for x in cv]
                except Exception:
                    vals = None
            if recv[0] == "agg" and recv[1] == "array":
                vals = []
                for e in recv[2]:
                    if e[0] == "const" and isinstance(e[2], tuple) and e[2][0] == "float":
                        vals.append(float(e[2][1]))
                    else:
                        vals = None
                        break
            ok = c == "core::slice::<impl [T]>::contains" and vals is not None and \
                all(v == int(v) and 1 <= v <= 4 for v in vals)
            cx.ob("R-INDEX-VALIDATION", "stack/%s" % key, ok,
                  "stack::new accepts a %s index only if it is one of %s" % (key, vals) if ok else
                  "stack::new validates the %s indices by %s (not by membership in a list of integral axis numbers 1..4): "
                  "a fractional or out-of-range index is accepted and truncated at apply time" % (key, c.rsplit("::", 2)[-2:]),
                  cx.where(t["span"]))
        for key in ("push", "pop", "flip"):
            if key not in keys_seen:
                n += 1
                cx.ob("R-INDEX-VALIDATION", "stack/%s" % key, False,
                      "stack::new does not validate the indices given with `%s` by membership in a list" % key,
                      cx.where(g0.d["span"]))
        g = g0
        # roll / unroll (m, n): stack_roll turns a negative n into m + n and casts to usize - the constructor therefore
        # bounds the *magnitude* of n by m (a comparison of m with |n|), and tests both for integrality
        for key in ("roll", "unroll"):
            mags, fracts, m_abs = [], 0, []
            for bb in sorted(g.reachable()):
                t = g.term(bb)
                if t["k"] != "switch":
                    continue
                c = g.operand(t["discr"], g.end_point(bb))
                if c[0] != "bin":
                    continue
                sides = (c[2], c[3])
                from_key = [x for sd in sides for x in _mentions_call(sd, ("series",))
                            if len(x[2]) > 1 and K._const_key(x[2][1]) == key]
                if not from_key:
                    continue
                if c[1] in ("Le", "Lt", "Ge", "Gt") and all(_mentions_call(sd, ("series",)) for sd in sides):
                    mags.append((bb, any(_mentions_call(sd, ("abs", "unsigned_abs")) for sd in sides)))
                    # m (element 0) enters with its sign - a negative sub-stack size must fail the comparison
                    for sd in sides:
                        for a in _mentions_call(sd, ("abs", "unsigned_abs")):
                            inner = []
                            mir.walk(a, lambda y: (inner.append(y[2][1]) if y[0] == "proj" and isinstance(y[2], tuple) and
                                                   y[2][0] == "elem" and len(y[2]) == 2 else None) or True)
                            if 0 in inner:
                                m_abs.append(bb)
                if c[1] in ("Ne", "Eq") and any(_mentions_call(sd, ("fract", "trunc", "round", "floor")) for sd in sides):
                    fracts += 1
            n += 1
            cx.ob("R-INDEX-VALIDATION", "stack/%s/m-signed" % key, not m_abs,
                  "stack::new compares the signed m with |n| for `%s=m,n`: a negative sub-stack size is refused" % key if not m_abs else
                  "stack::new, `%s=m,n`: the magnitude of m is compared with |n|, so a negative sub-stack size is accepted - "
                  "the apply functions use the signed m, m - n wraps and the rotation loop does not end" % key,
                  cx.where(g.term(m_abs[0])["span"]) if m_abs else cx.where(g.d["span"]))
            ok = bool(mags) and all(a for _, a in mags) and fracts >= 2
            why = "no comparison of m with n" if not mags else (
                "the comparison of m with n uses the signed n (any negative n passes; m + n then wraps to a huge count "
                "of rotations)" if not all(a for _, a in mags) else "m and n are not both tested for integrality")
            cx.ob("R-INDEX-VALIDATION", "stack/%s" % key, ok,
                  "stack::new bounds |n| by m for `%s=m,n` and tests both for integrality" % key if ok else
                  "stack::new, `%s=m,n`: %s" % (key, why),
                  cx.where(g.term(mags[0][0])["span"]) if mags else cx.where(g.d["span"]))
    cx.count("R-INDEX-VALIDATION", "validations", n)


# ---------------------------------------------------------------------------------------------------------------------
# R-TABLE-SCAN (C11): a look-up loop over a table looks at every entry

@rule("R-TABLE-SCAN", ["C11"])
def r_table_scan(cx):
    """Where a unit name (or any key) is looked up by an index loop `for i in 0..table.len() - c` that reads only
    `table[i]`, the last c entries can never be found. No loop over a constant table stops short of its end unless its
    body also reads the entries beyond the index (table[i + c]). Iterator based scans (iter().find(..)) cover the table
    by construction."""
    n = 0
    scans = 0
    for name in sorted(cx.f.lib["fns"]):
        if "::tests::" in name or not name.startswith(("inner_op::", "token::", "<T as token")):
            continue
        f = cx.f.fn(name)
        for lp in f.loops():
            x = pertuple.iterator_entry_value(f, lp)
            if x is None or x[0] != "call" or not isinstance(x[1], str) or not x[1].endswith("into_iter"):
                continue
            r = mir.strip_refs(x[2][0])
            if not (r[0] == "agg" and "Range" in str(r[1]) and len(r[2]) == 2):
                continue
            hi = mir.strip_refs(r[2][1])
            scans += 1
            if not (hi[0] == "bin" and hi[1] == "Sub" and hi[3][0] == "const" and isinstance(hi[3][2], int) and hi[3][2] > 0):
                continue
            ln = mir.strip_refs(hi[2])
            if not (ln[0] == "call" and isinstance(ln[1], str) and ln[1].endswith("::len")):
                continue
            tab = mir.strip_refs(ln[2][0])
            while tab[0] == "cast":
                tab = mir.strip_refs(tab[2])
            if not (tab[0] == "const" and isinstance(tab[2], tuple) and tab[2][0] == "path"):
                continue       # a run-time vector: `0..v.len() - 1` with v[i + 1] is the usual pairwise loop
            n += 1
            c = hi[3][2]
            # does the body read beyond the index?
            beyond = False
            for bb in sorted(lp.body):
                t = f.term(bb)
                if t["k"] == "assert" and t.get("msg") == "BoundsCheck":
                    idx = f.operand(t["index"], f.end_point(bb))
                    if idx[0] == "bin" and idx[1] in ("Add", "AddWithOverflow"):
                        beyond = True
                    if idx[0] == "proj" and idx[1][0] == "bin" and idx[1][1].startswith("Add"):
                        beyond = True
            cx.ob("R-TABLE-SCAN", "%s/%s" % (name, tab[2][1].rsplit("::", 1)[-1]), beyond,
                  "the loop stops %d short of the end of %s but reads the entries beyond its index" % (c, tab[2][1]) if beyond
                  else "%s scans the table %s with `for i in 0..len - %d` and reads only entry i: the last %d entr%s can "
                       "never be found" % (name, tab[2][1], c, c, "y" if c == 1 else "ies"),
                  cx.where(f.term(lp.header)["span"]))
    cx.ob("R-TABLE-SCAN", "summary", True, "%d range loops examined: none scans a constant table short of its end" % scans,
          nontrivial=scans > 0)
    cx.count("R-TABLE-SCAN", "range_loops", scans)


# ---------------------------------------------------------------------------------------------------------------------
# R-GUARD-MATCH-AGREE (C09, C11): the "cannot happen" arm of the designator match really cannot happen

@rule("R-GUARD-MATCH-AGREE", ["C09", "C11"])
def r_guard_match_agree(cx):
    """coordinate_order_descriptor first rejects unknown axis designators (`!"neufswdp".contains(d)`) and then maps the
    designator to a signed axis number in a `match` whose fall-through arm ("cannot happen") yields 0 - an axis number
    that makes the permutation check index `count[(0 - 1) as usize]` out of bounds. The belief holds only if the guard
    and the match agree: the value tested by the guard is the value matched, and the characters the guard accepts are
    exactly the characters the match has arms for."""
    f = cx.f.fn("inner_op::adapt::coordinate_order_descriptor")
    guards = []
    for bb, t in f.calls():
        c = f.callee(t) or ""
        if c.endswith("str>::contains"):
            a = f.arg_terms(bb)
            lit = K._const_key(a[0]) if a else None
            if lit is not None and len(a) > 1:
                guards.append((bb, lit, mir.strip_refs(a[1])))
    n = 0
    for b in sorted(f.reachable()):
        t = f.term(b)
        if t["k"] != "switch" or len(t["targets"]) < 4:
            continue
        scrut = mir.strip_refs(f.operand(t["discr"], f.end_point(b)))
        arms = set()
        for v, _ in t["targets"]:
            try:
                arms.add(chr(int(v)))
            except (ValueError, TypeError, OverflowError):
                arms = None
                break
        if not arms:
            continue
        n += 1
        dom = [(gb, lit, x) for (gb, lit, x) in guards if f.dominates(gb, b)]
        same = [(gb, lit, x) for (gb, lit, x) in dom if x == scrut]
        ok = bool(same) and any(set(lit) == arms for (_, lit, _) in same)
        # no belief to check when the fall-through arm yields no axis number at all: it leaves the function (`_ => return
        # None`) without rejoining the code that uses the number
        if not ok and not dom:
            lp = f.innermost_loop(b)
            if lp is not None and t["otherwise"] not in lp.body:
                ok = True       # the fall-through arm leaves the loop (and the function): it never yields a number
        why = ""
        if not dom:
            why = "no membership test dominates the match"
        elif not same:
            why = "the guard tests a different value (%s) than the one that is matched" % ("a converted copy" if dom else "?")
        elif not ok:
            why = "the guard accepts {%s} while the match has arms for {%s}" % (
                ",".join(sorted(same[0][1])), ",".join(sorted(arms)))
        cx.ob("R-GUARD-MATCH-AGREE", "coordinate_order_descriptor/match%d" % (n - 1), ok,
              "the designator guard and the designator match agree on value and alphabet {%s}" % ",".join(sorted(arms)) if ok else
              "adapt: %s: the `_ => 0` arm marked 'cannot happen' is reachable, and axis number 0 indexes "
              "count[(0 - 1) as usize] out of bounds (panic at instantiation)" % why, cx.where(t["span"]))
    cx.count("R-GUARD-MATCH-AGREE", "matches", n)


DESIGNATORS = {"e": 1, "n": 2, "u": 3, "f": 4, "w": -1, "s": -2, "d": -3, "p": -4}


@rule("T-DESIGNATORS", ["C11"])
def t_designators(cx):
    """The documented coordinate archetypes: eastish, northish, upish, futurish are axes 1..4 in the internal order, and
    westish, southish, downish, pastish their sign-flipped inverses. The designator match of
    coordinate_order_descriptor assigns exactly e:+1 n:+2 u:+3 f:+4 w:-1 s:-2 d:-3 p:-4."""
    f = cx.f.fn("inner_op::adapt::coordinate_order_descriptor")
    n = 0
    for b in sorted(f.reachable()):
        t = f.term(b)
        if t["k"] != "switch" or len(t["targets"]) < 4:
            continue
        got = {}
        for v, tb in t["targets"]:
            try:
                ch = chr(int(v))
            except (ValueError, TypeError, OverflowError):
                got = None
                break
            val = None
            for i, st in enumerate(f.stmts(tb)):
                if st["k"] == "assign":
                    r = f.rvalue(st["rv"], (tb, i))
                    if r[0] == "const" and isinstance(r[2], int):
                        val = r[2]
            got[ch] = val
        if not got:
            continue
        n += 1
        bad = sorted(ch for ch in set(got) | set(DESIGNATORS) if got.get(ch) != DESIGNATORS.get(ch))
        cx.ob("T-DESIGNATORS", "coordinate_order_descriptor", not bad,
              "the eight designators map to the documented signed axis numbers" if not bad else
              "adapt: designator(s) %s map to %s, the documentation says %s: e.g. `p` (pastish) without its sign flip behaves "
              "like `f`" % (", ".join(bad), [got.get(c) for c in bad], [DESIGNATORS.get(c) for c in bad]), cx.where(t["span"]))
    cx.count("T-DESIGNATORS", "tables", n)


def _mentions(t, needle):
    hit = []

    def vis(y):
        if mir.strip_refs(y) == needle:
            hit.append(1)
            return False
        return not hit
    mir.walk(t, vis)
    return bool(hit)


@rule("R-AXISSWAP-SHORTCUT", ["C11"])
def r_axisswap_shortcut(cx):
    """axisswap has exactly one "nothing to do" case: no `order` given (the default order 1,2,3,4). Every return of its
    forward / inverse function that by-passes the per-tuple loop is decided by the presence of the `order` series alone -
    not by its length or content: a one-element order such as `order=-1` still flips a sign."""
    import guards
    n = 0
    for role, fn in (("fwd", "inner_op::axisswap::fwd"), ("inv", "inner_op::axisswap::inv")):
        f = cx.f.fn(fn)
        heads = [pt.header for pt in pertuple.per_tuple_loops(f)]
        rets = [b for b in f.reachable() if f.term(b)["k"] == "return"]
        free = f.reach_from([0], avoid=tuple(heads)) if heads else set()
        bad = []
        for b in sorted(free):
            t = f.term(b)
            if t["k"] != "switch":
                continue
            if not (any(any(r in f.reach_from([x], avoid=tuple(heads)) for r in rets) for x in set(f.succ[b])) and
                    any(h in f.reach_from([b]) for h in heads)):
                continue
            n += 1
            for at in guards.atoms(f, f.operand(t["discr"], f.end_point(b))):
                at = mir.strip_refs(at)
                # allowed: the discriminant of the Result / Option of `params.series("order")`
                inner = at[1] if at[0] == "discr" else at
                inner = mir.strip_refs(inner)
                is_presence = at[0] == "discr" and inner[0] == "call" and isinstance(inner[1], str) and \
                    inner[1].rsplit("::", 1)[-1] in ("series", "get", "contains_key")
                if not is_presence:
                    bad.append(at)
        ok = bool(heads) and not bad
        cx.ob("R-AXISSWAP-SHORTCUT", role, ok,
              "axisswap %s by-passes its loop only when no `order` is given" % role if ok else
              "axisswap %s returns without entering its per-tuple loop on a condition about the content of `order` (%s): a "
              "short order that only flips a sign (`order=-1`) is treated as nothing to do" % (
                  role, mir.show(bad[0], maxd=3)[:60] if bad else "no loop found"), cx.where(f.d["span"]))
    cx.count("R-AXISSWAP-SHORTCUT", "deciders", n)


@rule("R-NOOP-EXACT", ["C11", "C14"])
def r_noop_exact(cx):
    """adapt skips its work when the combined descriptor is a no-op: identity permutation and all multipliers exactly 1.
    The `noop` value is an exact comparison of the multipliers with the constant 1.0 - nothing that discards their sign
    (abs, squares) or tolerates a difference: a pure sign flip (`from=enuf to=wnuf`) is not a no-op."""
    n = 0
    for fn in ("inner_op::adapt::coordinate_order_descriptor", "inner_op::adapt::combine_descriptors"):
        f = cx.f.fn(fn)
        names = [fn] + [x for x in cx.f.lib["fns"] if x.startswith("inner_op::adapt::") and "::tests" not in x and x.endswith("is_noop")]
        # the aggregate(s) of CoordinateOrderDescriptor built / the store to .noop
        vals = []
        for bb, i, s in f.all_stmts():
            if s["k"] != "assign":
                continue
            if s["rv"]["k"] == "agg" and "CoordinateOrderDescriptor" in str(s["rv"].get("adt", "")):
                v = f.rvalue(s["rv"], (bb, i))
                if v[0] == "agg" and len(v[2]) == 3:
                    vals.append((bb, v[2][2], s.get("span")))
            pl = s["place"]
            if any(isinstance(p, dict) and p.get("f") == 2 for p in pl["p"]) and "bool" in str([p.get("ty") for p in pl["p"] if isinstance(p, dict)]):
                vals.append((bb, f.rvalue(s["rv"], (bb, i)), s.get("span")))
        for bb, v, sp in vals:
            v = mir.strip_refs(v)
            import elems as E
            v = E.look_through_calls(f, v)
            if v[0] == "const":
                continue
            n += 1
            # everything the value is decided by: its arms and the tests that select them (`a && b` is a join)
            import guards
            parts = [v] + list(guards.atoms(f, v))
            lossy, cmp_ops, clos = [], [], []
            for part in parts:
                mir.walk(part, lambda y: (lossy.append(y[1].rsplit("::", 1)[-1]) if y[0] == "call" and isinstance(y[1], str) and
                                          y[1].rsplit("::", 1)[-1] in ("abs", "powi", "powf", "signum", "hypot") else None) or True)
                mir.walk(part, lambda y: (cmp_ops.append(y[1]) if y[0] == "bin" and y[1] in ("Lt", "Le", "Gt", "Ge") else None) or True)
                # predicates handed to iterator adaptors (`mult.iter().all(|m| ..)`)
                mir.walk(part, lambda y: (clos.append(y[1][1]) if y[0] == "agg" and isinstance(y[1], tuple) and y[1][0] == "closure" else None) or True)
            for cn in clos:
                if not cx.f.has_fn(cn):
                    continue
                g = cx.f.fn(cn)
                for b2, t2 in g.calls():
                    tl = (g.callee(t2) or "").rsplit("::", 1)[-1]
                    if tl in ("abs", "powi", "powf", "signum", "hypot"):
                        lossy.append(tl)
                for b2, i2, s2 in g.all_stmts():
                    if s2["k"] == "assign" and s2["rv"]["k"] == "bin" and s2["rv"].get("op") in ("Lt", "Le", "Gt", "Ge"):
                        cmp_ops.append(s2["rv"]["op"])
            ok = not lossy and not cmp_ops
            cx.ob("R-NOOP-EXACT", "%s/noop%d" % (fn.rsplit("::", 1)[-1], n - 1), ok,
                  "the no-op test compares the multipliers exactly" if ok else
                  "adapt decides `noop` through %s: a descriptor pair that only flips signs (multipliers -1) is taken for a "
                  "no-op and the tuple passes unchanged" % ", ".join(sorted(set(lossy + cmp_ops))), cx.where(sp))
    cx.count("R-NOOP-EXACT", "noop_values", n)


@rule("R-COMBINE-ROLES", ["C11"])
def r_combine_roles(cx):
    """combine_descriptors(from, to) builds the one gather table adapt applies: output slot i takes the input slot in
    which `from` keeps the internal axis that `to` wants in slot i - give = from^-1 o to, not its inverse (which a swap
    of the two roles in the search gives; the two agree only for self-inverse permutations). The `position` search runs
    over `from.post` and looks for `to.post[i]`; the multiplier is `from.mult[give.post[i]] / to.mult[i]`."""
    import elems as E
    fn = "inner_op::adapt::combine_descriptors"
    f = cx.f.fn(fn)
    adt = cx.f.lib["adts"].get("inner_op::adapt::CoordinateOrderDescriptor")
    fields = [x["name"] for x in adt["variants"][0]["fields"]] if adt else []

    def role(t):
        """('from'|'to', field) for a term that reads a field of argument 1 / 2"""
        out = []

        def vis(y):
            if y[0] == "proj" and isinstance(y[2], tuple) and y[2][0] == "f" and y[2][1] < len(fields):
                b = mir.strip_refs(y[1])
                if b in (("arg", 1), ("proj", ("arg", 1), "deref")):
                    out.append(("from", fields[y[2][1]]))
                if b in (("arg", 2), ("proj", ("arg", 2), "deref")):
                    out.append(("to", fields[y[2][1]]))
            return True
        mir.walk(t, vis)
        return out
    n = 0
    for bb, t in f.calls():
        c = f.callee(t) or ""
        if c.rsplit("::", 1)[-1] not in ("position", "find", "rposition"):
            continue
        a = f.arg_terms(bb)
        recv = a[0]
        if recv[0] == "refplace" and not recv[3]:
            recv = f.local_value(recv[2], f.end_point(bb))
        hay = role(recv)
        needle = []
        for x in a[1:]:
            if x[0] == "agg" and isinstance(x[1], tuple) and x[1][0] == "closure":
                for cap in x[2]:
                    cap2 = cap
                    if cap2[0] == "refplace" and not cap2[3]:
                        cap2 = f.local_value(cap2[2], f.end_point(bb))
                    needle += role(cap2)
                    if mir.strip_refs(cap2) in (("arg", 1),):
                        needle.append(("from", "?"))
                    if mir.strip_refs(cap2) in (("arg", 2),):
                        needle.append(("to", "?"))
                # the closure may read the field of the captured descriptor itself
                if cx.f.has_fn(x[1][1]):
                    g = cx.f.fn(x[1][1])
                    rt = E.return_term(g)
        n += 1
        ok = ("from", "post") in hay and not any(r == "to" for r, _ in hay) and any(r == "to" for r, _ in needle) and \
            not any(r == "from" for r, _ in needle)
        cx.ob("R-COMBINE-ROLES", "search%d" % (n - 1), ok,
              "the slot search runs over from.post and looks for an element of `to`" if ok else
              "combine_descriptors searches %s for an element of %s: that is the inverse of the permutation adapt needs "
              "(from and to exchanged) - wrong for every pair whose combined permutation is not its own inverse" % (
                  sorted(set(hay)) or "?", sorted(set(needle)) or "?"), cx.where(t["span"]))
    cx.count("R-COMBINE-ROLES", "searches", n)


@rule("R-EXACTLY-ONE", ["C12"])
def r_exactly_one(cx):
    """stack::new accepts a definition with exactly one sub-command by counting the sub-commands it recognises and
    comparing the count with 1. The count is a running sum: every value it can have at the comparison is built from the
    initial 0 by `+ 1` steps only - no branch *sets* it (`= 1` forgets what was counted before, and `push=1,2 roll=2,1`
    is then accepted and silently acts as a roll)."""
    f = cx.f.fn("inner_op::stack::new")
    n = 0
    for b in sorted(f.reachable()):
        t = f.term(b)
        if t["k"] != "switch":
            continue
        c = f.operand(t["discr"], f.end_point(b))
        if not (c[0] == "bin" and c[1] in ("Ne", "Eq") and c[3][0] == "const" and c[3][2] == 1):
            continue
        x = mir.strip_refs(c[2])
        if x[0] not in ("phi", "bin"):
            continue
        n += 1
        bad = []
        seen = set()

        def walk(y, depth=0):
            y = mir.strip_refs(y)
            if depth > 400:
                return
            try:
                if y in seen:
                    return
                seen.add(y)
            except TypeError:
                return
            if y[0] == "phi":
                for o in y[2]:
                    walk(o, depth + 1)
            elif y[0] == "bin" and y[1] in ("Add", "AddWithOverflow") and mir.strip_refs(y[3]) == ("const", mir.strip_refs(y[3])[1], 1):
                walk(y[2], depth + 1)
            elif y[0] == "proj" and mir.strip_refs(y[1])[0] == "bin":
                walk(y[1], depth + 1)       # the value half of a checked addition
            elif y[0] == "const" and y[2] == 0:
                return
            else:
                bad.append(y)
        walk(x)
        ok = not bad
        cx.ob("R-EXACTLY-ONE", "stack/new/count%d" % (n - 1), ok,
              "the sub-command count is a sum of +1 steps from 0" if ok else
              "stack::new: the count of sub-commands compared with 1 can have the value %s, which is not the initial 0 plus "
              "+1 steps: a branch sets the count instead of incrementing it, and a definition with several sub-commands "
              "passes the exactly-one test" % mir.show(bad[0], maxd=2)[:40], cx.where(t["span"]))
    cx.count("R-EXACTLY-ONE", "count_tests", n)


@rule("R-ARRAY-COPY-ORDER", ["C11"])
def r_array_copy_order(cx):
    """adapt keeps its permutation and its multipliers as series and unpacks them into fixed arrays - `[post[0] as usize,
    .., post[3] as usize]`, `[1. / mult[0], .., 1. / mult[3]]` - at apply time (and packs them at construction). These are
    plain element-wise copies: position k of such an array is computed from element k of the source, for every k. An
    index typo (`1. / mult[2]` in position 3) gives one axis the sign and unit factor of another."""
    n = 0
    for name in sorted(cx.f.lib["fns"]):
        if "::tests::" in name or not name.startswith(("inner_op::adapt::", "inner_op::axisswap::", "inner_op::unitconvert::")):
            continue
        f = cx.f.fn(name)
        k = 0
        for bb, i, st in f.all_stmts():
            if not (st["k"] == "assign" and st["rv"]["k"] == "agg"):
                continue
            v = f.rvalue(st["rv"], (bb, i))
            if not (v[0] == "agg" and v[1] == "array" and len(v[2]) >= 3):
                continue
            reads = []
            for e in v[2]:
                r = set()
                mir.walk(e, lambda y: (r.add((mir.strip_refs(y[1]), y[2][1])) if y[0] == "proj" and isinstance(y[2], tuple) and
                                       y[2][0] == "elem" and len(y[2]) == 2 and isinstance(y[2][1], int) else None) or True)
                reads.append(r)
            bases = set(b for r in reads for b, _ in r)
            if len(bases) != 1 or not all(reads):
                continue
            n += 1
            bad = [pos for pos, r in enumerate(reads) if {ix for _, ix in r} != {pos}]
            cx.ob("R-ARRAY-COPY-ORDER", "%s/array%d" % (name, k), not bad,
                  "%s: position k of the unpacked array is computed from element k" % name if not bad else
                  "%s: position %d of the array is computed from element %s of the source series: that axis gets the "
                  "multiplier (sign, unit factor) or the position of another" % (
                      name, bad[0], sorted(ix for _, ix in reads[bad[0]])), cx.where(st.get("span")))
            k += 1
    cx.count("R-ARRAY-COPY-ORDER", "arrays", n)
